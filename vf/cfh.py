"""Common harness pieces for checks that run a real Crazyflie against SimCF under the scheduler."""
import sys

from vf import simcf, vsched
from vf.explore import Chooser, Divergence  # noqa
from vf.core import HarnessError, Partial  # noqa

_ready = False

CALLERS = ('connection_requested', 'link_established', 'connected', 'fully_connected', 'disconnected',
           'connection_lost', 'connection_failed', 'disconnected_link_error')


def setup(extra_modules=()):
    """Import the library, rebind primitives, install SimLink. Idempotent per process."""
    global _ready
    import importlib
    import cflib.crtp  # noqa
    import cflib.crazyflie  # noqa
    import cflib.crazyflie.syncCrazyflie  # noqa
    import cflib.crazyflie.syncLogger  # noqa
    import cflib.crazyflie.swarm  # noqa
    import cflib.positioning.motion_commander  # noqa
    import cflib.positioning.position_hl_commander  # noqa
    import cflib.utils.callbacks  # noqa
    import cflib.utils.param_file_helper  # noqa
    for m in extra_modules:
        importlib.import_module(m)
    vsched.install()
    vsched.check_installed()
    simcf.install_driver()
    _ready = True


class Label(str):
    """A choice-point label that also says which alternatives fire a parked environment thread:
    .lazy = ((alternative index, that thread's own label), ...).  Compares and hashes as the plain label."""
    lazy = ()


class Exec:
    """One execution: scheduler + chooser + environment."""

    def __init__(self, devs, dev, time_limit=30.0, policy=None, **envopts):
        if not _ready:
            setup()
        self.ch = Chooser(devs)
        self.dev = dev
        self.env = simcf.SimEnv(dev, self._choose, **envopts)
        self.s = vsched.Sched(self._choose, time_limit=time_limit)
        self.events = []
        self.frozen = False
        if policy == 'eager':
            self.s.eager_start = True
        elif policy == 'handoff':
            self.s.handoff = True
        elif policy == 'env_first':
            self.s.env_first = True
        elif policy == 'others_first':
            self.s.env_first = True
            self.s.others_first = True

    def _choose(self, n, label=''):
        if self.frozen:
            return 0
        lz = getattr(self.s, 'lazy_options', ())
        if lz:
            label = Label(label)
            label.lazy = lz
            self.s.lazy_options = ()
        return self.ch(n, label)

    def freeze(self):
        """From now on every choice takes its default and is not recorded (fault-free epilogue)."""
        self.frozen = True
        self.s.frozen = True

    def run(self, main):
        simcf.ENV = self.env
        try:
            r = self.s.run(main)
        finally:
            simcf.ENV = None
        for name, rep, tb in self.s.died:
            if rep.startswith(('HarnessError', 'Divergence')):
                # the machinery failed inside a controlled thread: never a finding about the code under test
                from vf.core import HarnessError
                raise HarnessError('in thread %s: %s\n%s' % (name, rep, tb))
        self.ch.check_consumed()
        return r

    # ---- helpers used inside main() -------------------------------------------------------------
    def log(self, *ev):
        self.events.append((self.s.elapsed(),) + ev)

    def observe(self, cf, names=CALLERS, tag=''):
        for nm in names:
            getattr(cf, nm).add_callback(lambda *a, nm=nm: self.log('cb', tag + nm, vsched._v_current_thread_name()))

    def wait_for(self, pred, timeout, label='harness.wait'):
        return self.s.wait(pred, timeout, label)


def functions_of(*classes, module=None, skip=()):
    """All plain functions defined in the given classes (None entries ignored; static/class methods unwrapped), plus
    the module-level functions and the functions of module-level private helper classes of `module` - for line-level
    scheduling points that follow the code wherever a refactoring moves it."""
    import types
    out, seen = [], set()

    def add(f):
        f = getattr(f, '__func__', f)
        if isinstance(f, types.FunctionType) and f.__name__ not in skip and id(f.__code__) not in seen:
            seen.add(id(f.__code__))
            out.append(f)

    def walk(cls):
        for k, v in vars(cls).items():
            if isinstance(v, (staticmethod, classmethod)):
                add(v.__func__)
            elif isinstance(v, property):
                for g in (v.fget, v.fset):
                    if g is not None:
                        add(g)
            elif isinstance(v, type) and v.__module__ == cls.__module__:
                walk(v)
            else:
                add(v)
    cl = [c for c in classes if c is not None]
    for c in cl:
        walk(c)
    if module is not None:
        for k, v in vars(module).items():
            if isinstance(v, types.FunctionType) and v.__module__ == module.__name__:
                add(v)
            elif isinstance(v, type) and v.__module__ == module.__name__ and k.startswith('_') and v not in cl:
                walk(v)
    return out


def find_attr(obj, prefer, pred):
    """Name of the instance attribute of obj that holds a value satisfying pred: one of the preferred names if it
    qualifies, else the only qualifying attribute, else None.  Checks look at private state through this so that a
    rename of a private attribute does not break them (they then skip what they cannot observe)."""
    try:
        d = vars(obj)
    except TypeError:
        return None
    for n in prefer:
        if n in d and pred(d[n]):
            return n
    c = [k for k, v in d.items() if pred(v)]
    return c[0] if len(c) == 1 else None


def _thread_name():
    s = vsched.S
    if s is None:
        return '?'
    import _thread
    vt = s.by_ident.get(_thread.get_ident())
    return vt.name if vt is not None else '?'


vsched._v_current_thread_name = _thread_name


def small_device(protocol=10, versioning=True, nlog=2, nparam=2, mems=0, ow=False):
    log = [simcf.LogVar('stab', 'roll', 7), simcf.LogVar('pm', 'vbat', 8), simcf.LogVar('a', 'b', 1)][:nlog]
    params = [simcf.ParamVar('ring', 'effect', 0x08, 3, extended=(protocol >= 4), persistent=(protocol >= 4)),
              simcf.ParamVar('fw', 'rev', 0x0A, 77, ro=True),
              simcf.ParamVar('pid', 'kp', 0x06, 1.5)][:nparam]
    ms = [simcf.SimMem(0, 16) for _ in range(mems)]
    return simcf.SimCF(protocol=protocol, versioning=versioning, log=log, params=params, mems=ms)


def toc_fingerprint(toc):
    """(group, name) -> (ident, ctype, pytype, access[, extended, persistent]) from a cflib Toc."""
    out = {}
    for g, names in toc.toc.items():
        for n, e in names.items():
            t = (e.ident, e.ctype, e.pytype, e.access)
            if hasattr(e, 'extended'):
                t += (bool(e.extended), bool(getattr(e, 'persistent', False)))
            out[(g, n)] = t
    return out


def device_log_fingerprint(dev):
    return {(v.group, v.name): (i, simcf.LOG_TYPES[v.tcode][0], simcf.LOG_TYPES[v.tcode][1], v.tcode & 0x10)
            for i, v in enumerate(dev.log)}


def device_param_fingerprint(dev):
    return {(v.group, v.name): (i, simcf.PARAM_TYPES[v.tcode][0], simcf.PARAM_TYPES[v.tcode][1], 1 if v.ro else 0,
                                bool(v.extended), bool(v.persistent and v.extended))
            for i, v in enumerate(dev.params)}
