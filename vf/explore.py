"""E1 — stateless, deviation-bounded exploration of a deterministic execution function.

An execution is a function of a sparse *deviation vector*: ((point_index, alternative), ...).  Every
choice point not listed takes alternative 0 (the default: keep running the current thread, deliver
the reply once and now, no fault).  Level k of the search runs every vector with exactly k
deviations; children of a vector add one deviation at a later point, so each vector is run once.
"""
import multiprocessing
import os

from vf.core import AbortRun, HarnessError, JobTimeout, Partial, _Guard, _WorkerFailure, bounded_imap

EXEC_LIMIT = float(os.environ.get('VF_EXEC_LIMIT', '900'))


class Divergence(HarnessError):
    pass


class Chooser:
    """Replays a deviation vector; records the arity (and label) of every choice point."""

    def __init__(self, devs=()):
        self.devs = dict(devs)
        self.ns = []
        self.labels = []
        self.taken = []
        self.want_labels = True

    def __call__(self, n, label=''):
        i = len(self.ns)
        self.ns.append(n)
        if self.want_labels:
            self.labels.append(label)
        alt = self.devs.get(i, 0)
        if alt >= n:
            raise Divergence('replayed vector asks alternative %d at point %d (%s) which offers %d'
                             % (alt, i, label, n))
        if alt:
            self.taken.append((i, alt, label))
        return alt

    def check_consumed(self):
        if self.devs and max(self.devs) >= len(self.ns):
            raise Divergence('replayed vector deviates at point %d but the execution had only %d points'
                             % (max(self.devs), len(self.ns)))


def children(devs, ns, labels=None, child_filter=None):
    last = devs[-1][0] if devs else -1
    out = []
    for i in range(last + 1, len(ns)):
        for alt in range(1, ns[i]):
            if child_filter is not None and not child_filter(devs, i, alt, labels[i] if labels else ''):
                continue
            out.append(devs + ((i, alt),))
    return out


_EXEC = None
_FILTER = None


def _worker(job):
    ci, cfg, devs, want_children = job
    part, ns, labels = _EXEC(cfg, devs)
    kids = children(devs, ns, labels, _FILTER) if want_children else None
    return ci, part, kids, len(ns)


def explore(ck, exec_fn, configs, bound, child_filter=None, max_execs=None, chunksize=4):
    """exec_fn(cfg, devs) -> (Partial, ns, labels).  Explores, for every cfg, all deviation vectors
    with at most `bound` deviations (level k = exactly k deviations).  Returns executions run."""
    global _EXEC, _FILTER
    _EXEC, _FILTER = exec_fn, child_filter
    configs = list(configs)
    if ck.skip_after_violation('exploration of %d configurations (bound %d)' % (len(configs), bound)):
        return {'executions': 0, 'per_level': [], 'bound_completed': -1}
    level = [(ci, cfg, (), bound > 0) for ci, cfg in enumerate(configs)]
    total = 0
    completed = -1
    per_level = []
    ctx = multiprocessing.get_context('fork')
    pool = ctx.Pool(ck.workers) if ck.workers > 1 else None
    try:
        for depth in range(bound + 1):
            if max_execs is not None and total + len(level) > max_execs:
                ck.cap('execution cap %d: level %d has %d vectors (levels below %d complete)'
                       % (max_execs, depth, len(level), depth))
                break
            it = (bounded_imap(pool, _Guard(_worker), level, chunksize, EXEC_LIMIT) if pool
                  else map(_Guard(_worker), level))
            nxt = []
            hung = False
            while True:
                try:
                    r = next(it)
                except StopIteration:
                    break
                except JobTimeout as e:
                    # one execution = milliseconds to seconds; deadlocks and virtual-time overruns are verdicts of the
                    # scheduler itself, so this is code that neither returns nor reaches a scheduling point
                    ci, cfg, devs, _ = level[e.index]
                    ck.case(key=('hang', ci, devs), outcome=('hang',))
                    ck.sample({'part': 'hang', 'config': repr(cfg)[:200], 'devs': [list(d) for d in devs]})
                    ck.cap('an execution did not end within %.0f s of real time; exploration stopped' % EXEC_LIMIT)
                    ck.violation('hang:execution_without_result', 'configuration %r, deviation vector %r (or one of the %d '
                                 'after it): the execution did not end within %.0f s of real time (no scheduling point is '
                                 'reached any more)' % (cfg, devs, chunksize - 1, EXEC_LIMIT),
                                 {'part': 'hang', 'config_index': ci, 'devs': [list(d) for d in devs]})
                    hung = True
                    raise AbortRun()
                if isinstance(r, _WorkerFailure):
                    raise HarnessError('worker failed:\n' + r.text)
                ci, part, kids, npts = r
                ck.merge(part)
                ck.points += npts
                total += 1
                if kids:
                    for k in kids:
                        nxt.append((ci, configs[ci], k, depth + 1 < bound))
            if hung:
                break
            if nxt and ck.failing():
                per_level.append(len(level))
                completed = depth
                ck.cap('levels beyond %d deviations not explored: a violation was found' % depth)
                break
            per_level.append(len(level))
            level = nxt
            completed = depth
    except AbortRun:
        raise               # workers are busy for good: the pool is left alone, run.py ends the process
    except BaseException:
        if pool:
            pool.terminate()
            pool.join()
        raise
    if pool:
        pool.terminate()    # every result has been consumed: the workers are idle
        pool.join()
    return {'executions': total, 'per_level': per_level, 'bound_completed': completed}
