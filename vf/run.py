"""CLI:  python -m vf.run C07 [--tier quick|thorough] [--replay file]

exit 0: property held on everything explored (known findings are listed, not failed)
exit 1: VIOLATION line(s) printed
exit 2: harness error (the machinery misbehaved; nothing is claimed)
"""
import argparse
import importlib
import json
import os
import sys
import traceback



def main(argv=None):
    ap = argparse.ArgumentParser()
    ap.add_argument('prop')
    ap.add_argument('--tier', default=os.environ.get('VERIF_TIER', 'quick'))
    ap.add_argument('--replay')
    args = ap.parse_args(argv)
    if sys.flags.hash_randomization and not os.environ.get('VF_REEXEC'):
        os.environ['PYTHONHASHSEED'] = '0'
        os.environ['VF_REEXEC'] = '1'
        os.execv(sys.executable, [sys.executable, '-m', 'vf.run'] + (argv or sys.argv[1:]))
    import logging
    logging.disable(logging.CRITICAL)
    from vf import core
    try:
        seed = int(os.environ.get('VERIF_SEED', '0') or 0)
    except ValueError:
        seed = 0
    tier = args.tier if args.tier in ('quick', 'thorough') else 'quick'
    pid = args.prop.upper()
    try:
        core.bind_repo()
        mod = importlib.import_module('vf.checks.' + pid.lower())
        ck = core.Check(pid, mod.LEVEL, tier, seed)
        if args.replay:
            with open(args.replay) as f:
                data = json.load(f)
            if not hasattr(mod, 'replay'):
                print('no replay support for', pid)
                return 2
            mod.replay(ck, data.get('replay', data))
            for v in ck.violations:
                print('REPLAYED-VIOLATION property=%s %s :: %s' % (pid, v['sig'], v['what']))
            return 1 if ck.violations else 0
        mod.run(ck)
        return core.finish(ck)
    except core.HarnessError as e:
        print('HARNESS-ERROR %s: %s' % (pid, e))
        return 2
    except Exception:
        print('HARNESS-ERROR %s (unexpected exception)' % pid)
        traceback.print_exc()
        return 2


if __name__ == '__main__':
    sys.exit(main())
