"""CLI:  python -m vf.run C07 [--tier quick|thorough] [--replay file]

exit 0: property held on everything explored (known findings are listed, not failed)
exit 1: VIOLATION line(s) printed
exit 2: harness error (the machinery misbehaved; nothing is claimed)
"""
import argparse
import importlib
import json
import os
import sys
import traceback



def main(argv=None):
    ap = argparse.ArgumentParser()
    ap.add_argument('prop')
    ap.add_argument('--tier', default=os.environ.get('VERIF_TIER', 'quick'))
    ap.add_argument('--replay')
    args = ap.parse_args(argv)
    if sys.flags.hash_randomization and not os.environ.get('VF_REEXEC'):
        os.environ['PYTHONHASHSEED'] = '0'
        os.environ['VF_REEXEC'] = '1'
        os.execv(sys.executable, [sys.executable, '-m', 'vf.run'] + (argv or sys.argv[1:]))
    import logging
    logging.disable(logging.CRITICAL)
    from vf import core
    try:
        seed = int(os.environ.get('VERIF_SEED', '0') or 0)
    except ValueError:
        seed = 0
    tier = args.tier if args.tier in ('quick', 'thorough') else 'quick'
    pid = args.prop.upper()
    # every temporary file of this run (and of its forked workers) lives under one directory that is removed at the end,
    # also when workers are terminated in the middle of an execution
    import shutil
    import tempfile
    scratch = tempfile.mkdtemp(prefix='vf_%s_' % pid)
    tempfile.tempdir = scratch
    os.environ['TMPDIR'] = scratch
    if not args.replay:
        _arm_wall_limit(core, pid, tier, seed, scratch)
    try:
        return _run(args, core, pid, tier, seed)
    finally:
        tempfile.tempdir = None
        shutil.rmtree(scratch, ignore_errors=True)


def _arm_wall_limit(core, pid, tier, seed, scratch):
    """Last resort against a tree on which the code under test never returns (a busy loop without a scheduling point, a
    real thread blocked for good in a part that is not run under the controlled scheduler): after VF_RUN_LIMIT seconds
    (default 3 h quick / 14 h thorough - more than ten times what the slowest check needs on this tree) the run ends with a
    VIOLATION 'hang:no_verdict_within_wall_limit' instead of never ending."""
    import shutil
    import threading
    import time
    limit = float(os.environ.get('VF_RUN_LIMIT', '0') or 0) or (3 * 3600.0 if tier == 'quick' else 14 * 3600.0)
    main_pid = os.getpid()

    def fire():
        time.sleep(limit)
        if os.getpid() != main_pid:
            return
        import faulthandler
        faulthandler.dump_traceback(file=sys.stderr, all_threads=True)
        def no_fork():
            raise OSError('the run is over')
        os.fork = no_fork                       # worker pools must not replace the workers killed below

        def kill_children():
            for d in os.listdir('/proc'):
                if d.isdigit():
                    try:
                        with open('/proc/%s/stat' % d) as f:
                            ppid = int(f.read().rsplit(')', 1)[1].split()[1])
                        if ppid == main_pid:
                            os.kill(int(d), 9)
                    except (OSError, ValueError, IndexError):
                        pass
        kill_children()
        try:
            mod = importlib.import_module('vf.checks.' + pid.lower())
            ck = core.Check(pid, mod.LEVEL, tier, seed)
            ck.rule = 'run cut by the wall limit; nothing is claimed about coverage'
            ck.cap('wall_limit_%ds' % limit)
            ck.case(key=('wall_limit',), outcome=('hang',))
            ck.violation('hang:no_verdict_within_wall_limit', 'the check did not finish within %.0f s of real time: code under '
                         'test does not return (thread stacks are on stderr)' % limit, {'part': 'wall_limit'})
            core.finish(ck)
        finally:
            kill_children()
            shutil.rmtree(scratch, ignore_errors=True)
            sys.stdout.flush()
            os._exit(1)
    threading.Thread(target=fire, daemon=True, name='vf-wall-limit').start()


def _run(args, core, pid, tier, seed):
    try:
        core.bind_repo()
        mod = importlib.import_module('vf.checks.' + pid.lower())
        ck = core.Check(pid, mod.LEVEL, tier, seed)
        if args.replay:
            with open(args.replay) as f:
                data = json.load(f)
            if not hasattr(mod, 'replay'):
                print('no replay support for', pid)
                return 2
            mod.replay(ck, data.get('replay', data))
            for v in ck.violations:
                print('REPLAYED-VIOLATION property=%s %s :: %s' % (pid, v['sig'], v['what']))
            return 1 if ck.violations else 0
        try:
            mod.run(ck)
        except core.AbortRun:
            # the verdict is settled and workers are still busy (fail-fast / a job that never returns): write it and end
            # the process without waiting for them
            code = core.finish(ck)
            core.hard_exit(code, os.environ.get('TMPDIR') if os.environ.get('TMPDIR', '').startswith('/tmp/vf_') else None)
        return core.finish(ck)
    except core.HarnessError as e:
        r = _library_raised(core, locals().get('ck'), pid, str(e))
        if r is not None:
            return r
        print('HARNESS-ERROR %s: %s' % (pid, e))
        return 2
    except Exception:
        text = traceback.format_exc()
        r = _library_raised(core, locals().get('ck'), pid, text)
        if r is not None:
            return r
        print('HARNESS-ERROR %s (unexpected exception)' % pid)
        print(text)
        return 2


def _library_raised(core, ck, pid, text):
    """An exception that was raised *inside the library* (innermost frame under $VF_REPO) and that no oracle of the
    check anticipated is reported as a violation with the traceback as replay information - a library call that blows up
    where it did not on the reference tree - instead of as a failure of the machinery."""
    import re
    if ck is None:
        return None
    frames = re.findall(r'File "([^"]+)", line (\d+), in (\S+)', text)
    if not frames:
        return None
    repo = os.path.abspath(core.REPO) + os.sep
    path, line, func = frames[-1]
    if not os.path.abspath(path).startswith(repo):
        return None
    last = [l for l in text.strip().splitlines() if l.strip()][-1]
    etype = last.split(':')[0].strip().split('.')[-1]
    rel = os.path.abspath(path)[len(repo):]
    ck.violation('uncaught_library_exception:%s:%s:%s' % (etype, rel, func),
                 'the library raised %s in %s (%s line %s) during a call the check makes on every tree; on the reference '
                 'tree it does not' % (last[:160], func, rel, line), {'traceback': text[-3000:]})
    ck.cap('run aborted by an exception raised inside the library')
    return core.finish(ck)


if __name__ == '__main__':
    sys.exit(main())
