"""Thread-free harness: a real Crazyflie whose link is a synchronous SimCF and whose real
dispatcher loop (`_IncomingPacketHandler.run`) is pumped on the calling thread.

Used where the property quantifies over inputs / histories, not schedules.  Must be used in a
process where vsched.install() has NOT been called (real primitives; the only extra thread is the
library's idle daemon _ParamUpdater).
"""
from vf import simcf


class _Stop(BaseException):
    pass


class SeqLink:
    needs_resending = False

    def __init__(self, dev):
        self.dev = dev
        self.rxq = []           # downlink packets waiting for the dispatcher
        self.tx = []            # (header, bytes) every uplink packet
        self.tx_objs = []       # the packet objects, parallel to tx
        self.manual = None      # fn(header, data) -> True: do not answer automatically (harness injects the reply)
        self.held = []          # replies withheld in manual mode: (header, payload)
        self.closed = False

    def send_packet(self, pk):
        data = bytes(pk.data)
        self.tx.append((pk.header, data))
        self.tx_objs.append(pk)     # a real driver queues the object: it must still read the same when it is transmitted
        replies = self.dev.handle(pk.header, data)
        for r in replies:
            if self.manual is not None and self.manual(pk.header, data):
                self.held.append(r)
            else:
                self.rxq.append(r)
        return True

    def receive_packet(self, wait=0):
        from cflib.crtp.crtpstack import CRTPPacket
        if not self.rxq:
            raise _Stop()
        h, payload = self.rxq.pop(0)
        return CRTPPacket(h, bytearray(payload))

    def close(self):
        self.closed = True

    def rewritten(self, start=0):
        """Packets handed over since index `start` whose object no longer reads as it did at hand-over."""
        out = []
        for i in range(start, len(self.tx)):
            o = self.tx_objs[i]
            try:
                now = (o.header, bytes(o.data))
            except Exception as e:  # noqa
                now = repr(e)
            if now != self.tx[i]:
                out.append((i - start, self.tx[i], now))
        return out


def pump(cf):
    """Run the real dispatcher loop until the downlink queue is empty."""
    try:
        cf.incoming.run()
    except _Stop:
        return
    raise AssertionError('dispatcher loop returned')


def _toc_cache_of(cf):
    c = getattr(cf, '_toc_cache', None)
    if c is None:
        from cflib.crazyflie.toccache import TocCache
        c = TocCache()
    return c


def connect_log(dev):
    """Real Crazyflie + SeqLink; runs the real platform-version and log-TOC handshake."""
    from cflib.crazyflie import Crazyflie, State
    from cflib.crtp.crtpstack import CRTPPacket
    cf = Crazyflie()
    # let the idle parameter-updater daemon thread of this object end (thousands of objects are built per run)
    try:
        upd = cf.param.param_updater
        upd._should_close = True
        upd.request_queue.put(CRTPPacket())
        upd.join(2.0)
    except AttributeError:
        pass        # private names changed: the idle daemon thread simply stays
    link = SeqLink(dev)
    cf.link = link
    cf.state = State.CONNECTED
    done = []
    cf.platform.fetch_platform_informations(lambda: cf.log.refresh_toc(lambda: done.append(1), _toc_cache_of(cf)))
    pump(cf)
    if not done:
        raise AssertionError('log TOC download did not finish')
    return cf, link
