"""SimCF — a small, boring reference model of the Crazyflie side of CRTP, and SimLink, a CRTP link
driver that connects the real library to it under the controlled scheduler.

SimCF is written from the CRTP wire protocol and never uses cflib's encoders (only CRTPPacket as
the container the driver API requires).  It is the trusted base of every check that uses it.
"""
import struct

from vf import vsched
from vf.core import HarnessError

MAGIC = b'Bitcraze Crazyflie'

LOG_TYPES = {1: ('uint8_t', '<B'), 2: ('uint16_t', '<H'), 3: ('uint32_t', '<L'), 4: ('int8_t', '<b'),
             5: ('int16_t', '<h'), 6: ('int32_t', '<i'), 7: ('float', '<f'), 8: ('FP16', '<e')}
PARAM_TYPES = {0x08: ('uint8_t', '<B'), 0x09: ('uint16_t', '<H'), 0x0A: ('uint32_t', '<L'), 0x0B: ('uint64_t', '<Q'),
               0x00: ('int8_t', '<b'), 0x01: ('int16_t', '<h'), 0x02: ('int32_t', '<i'), 0x03: ('int64_t', '<q'),
               0x06: ('float', '<f'), 0x07: ('double', '<d'),
               0x05: ('FP16', '')}      # the library's table has no unpack format for half-float parameters (table-level use only)

ENOENT = 2


class LogVar:
    def __init__(self, group, name, tcode, value=0):
        self.group, self.name, self.tcode, self.value = group, name, tcode, value


class ParamVar:
    def __init__(self, group, name, tcode, value=0, ro=False, extended=False, persistent=False, default=None,
                 stored=None):
        self.group, self.name, self.tcode = group, name, tcode
        self.value = value
        self.ro, self.extended, self.persistent = ro, extended, persistent
        self.default = value if default is None else default
        self.stored = stored            # None = nothing stored

    @property
    def fmt(self):
        return PARAM_TYPES[self.tcode][1]

    def pack(self, v=None):
        return struct.pack(self.fmt, self.value if v is None else v)


class SimMem:
    def __init__(self, mtype, size, image=None, addr=0):
        self.mtype, self.size, self.addr = mtype, size, addr
        self.image = bytearray(image if image is not None else bytes(size))


class SparseMem:
    """Memory covering the whole 32-bit address space: written bytes in a dict, the rest a fixed pattern."""

    def __init__(self, mtype=0x15, size=0x100000000, seed=0):
        self.mtype, self.size, self.addr, self.seed = mtype, size, 0, seed
        self.cells = {}
        self.writes = []                 # (addr, bytes) in arrival order

    def background(self, a):
        return (a * 7 + (a >> 8) * 13 + self.seed * 31 + 5) & 0xff

    def read(self, addr, n):
        return bytes(self.cells.get(a, self.background(a)) for a in range(addr, addr + n))

    def write(self, addr, data):
        self.writes.append((addr, bytes(data)))
        for i, b in enumerate(data):
            self.cells[addr + i] = b


class SimCF:
    def __init__(self, protocol=10, log=(), params=(), mems=(), log_crc=0x11223344, param_crc=0x55667788,
                 versioning=True):
        self.protocol = protocol          # value answered on the platform port
        self.versioning = versioning      # False: link source does not answer the magic string
        self.log = list(log)
        self.params = list(params)
        self.mems = list(mems)
        self.log_crc, self.param_crc = log_crc, param_crc
        self.blocks = {}                  # id -> dict(vars=[(type byte, id)], period, started)
        self.rx = []                      # every packet received: (t, port, chan, bytes)
        self.silent_ports = set()         # ports that never answer (for C10)
        self.mem_status = {}              # (memid, 'r'|'w', addr) -> error status once
        self.mem_by_id = {}               # extra memories addressed by id (not announced in the info list)
        self.hooks = []                   # callables(port, chan, data) -> replies or None (checked first)
        self.v2 = protocol >= 4 and versioning

    # ---- helpers ---------------------------------------------------------------------------------
    @staticmethod
    def hdr(port, chan):
        return ((port & 0x0f) << 4) | (chan & 3)

    def handle(self, header, data, now=0.0):
        """One uplink packet -> list of (header, payload bytes) downlink packets."""
        port, chan = (header >> 4) & 0x0f, header & 3
        data = bytes(data)
        self.rx.append((now, port, chan, data))
        for h in self.hooks:
            r = h(port, chan, data)
            if r is not None:
                return r
        if port in self.silent_ports:
            return []
        fn = getattr(self, '_port_%d' % port, None)
        if fn is None:
            return []
        out = fn(chan, data) or []
        return [(self.hdr(port, chan) if isinstance(o, (bytes, bytearray)) else o[0],
                 bytes(o) if isinstance(o, (bytes, bytearray)) else bytes(o[1])) for o in out]

    # ---- link control (15) -----------------------------------------------------------------------
    def _port_15(self, chan, data):
        if chan == 0:           # echo
            return [data]
        if chan == 1:           # source
            if self.versioning:
                return [MAGIC + bytes(30 - len(MAGIC))]
            return [bytes(30)]
        return []

    # ---- platform (13) -----------------------------------------------------------------------------
    def _port_13(self, chan, data):
        if chan == 1 and data[:1] == b'\x00':
            return [bytes([0, self.protocol & 0xff])]
        if chan == 1 and data[:1] == b'\x01':
            return [b'\x01' + b'simcf-fw']
        if chan == 0:
            return [data]
        return []

    # ---- TOC helper ----------------------------------------------------------------------------------
    def _toc(self, data, n, crc, item):
        cmd = data[0]
        if cmd in (2, 3) and not self.v2:
            return []           # a firmware of the first protocol generation does not know the 16-bit commands
        if cmd == 1:            # info v1
            return [struct.pack('<BBIBB', 1, n & 0xff, crc, 16, 128)]
        if cmd == 3:            # info v2
            return [struct.pack('<BHIBB', 3, n, crc, 16, 128)]
        if cmd == 0:            # element v1
            idx = data[1] if len(data) > 1 else 0
            if idx < n:
                return [bytes([0, idx]) + item(idx)]
            return [bytes([0])]
        if cmd == 2:            # element v2
            idx = struct.unpack('<H', data[1:3])[0] if len(data) >= 3 else 0
            if idx < n:
                return [bytes([2]) + struct.pack('<H', idx) + item(idx)]
            return [bytes([2])]
        return []

    # ---- log (5) ---------------------------------------------------------------------------------------
    def _log_item(self, idx):
        v = self.log[idx]
        return bytes([v.tcode]) + v.group.encode('iso-8859-1') + b'\0' + v.name.encode('iso-8859-1') + b'\0'

    def _port_5(self, chan, data):
        if chan == 0:
            return self._toc(data, len(self.log), self.log_crc, self._log_item)
        if chan == 1:
            cmd = data[0]
            if cmd == 5:
                self.blocks = {}
                return [bytes([5, 0, 0])]
            bid = data[1] if len(data) > 1 else 0
            st = 0
            if cmd in (0, 6):
                if bid in self.blocks:
                    st = 17      # EEXIST
                else:
                    self.blocks[bid] = {'vars': self._log_vars(cmd, data[2:]), 'period': 0, 'started': False,
                                        'msgs': [data]}
            elif cmd in (1, 7):
                if bid not in self.blocks:
                    st = ENOENT
                else:
                    self.blocks[bid]['vars'] += self._log_vars(cmd, data[2:])
                    self.blocks[bid]['msgs'].append(data)
            elif cmd == 2:
                if self.blocks.pop(bid, None) is None:
                    st = ENOENT
            elif cmd == 3:
                if bid not in self.blocks:
                    st = ENOENT
                else:
                    self.blocks[bid]['started'] = True
                    self.blocks[bid]['period'] = data[2] if len(data) > 2 else 0
            elif cmd == 4:
                if bid not in self.blocks:
                    st = ENOENT
                else:
                    self.blocks[bid]['started'] = False
            else:
                return []
            return [bytes([cmd, bid, st])]
        return []

    @staticmethod
    def _log_vars(cmd, body):
        """Firmware rule: whole (type, id) records; a dangling partial record is ignored."""
        out = []
        rec = 3 if cmd in (6, 7) else 2
        i = 0
        while i + rec <= len(body):
            t = body[i]
            ident = body[i + 1] if rec == 2 else body[i + 1] | (body[i + 2] << 8)
            out.append((t, ident))
            i += rec
        return out

    def log_data_packet(self, bid, timestamp, payload):
        return (self.hdr(5, 2), bytes([bid, timestamp & 0xff, (timestamp >> 8) & 0xff, (timestamp >> 16) & 0xff])
                + bytes(payload))

    # ---- param (2) ---------------------------------------------------------------------------------------
    def _param_item(self, idx):
        v = self.params[idx]
        meta = v.tcode | (0x40 if v.ro else 0) | (0x10 if v.extended else 0)
        return bytes([meta]) + v.group.encode('iso-8859-1') + b'\0' + v.name.encode('iso-8859-1') + b'\0'

    def _pid(self, data, off=0):
        if self.v2:
            return struct.unpack('<H', data[off:off + 2])[0], 2
        return data[off], 1

    def _port_2(self, chan, data):
        if chan == 0:
            return self._toc(data, len(self.params), self.param_crc, self._param_item)
        if chan == 1:           # read
            pid, w = self._pid(data)
            if pid >= len(self.params):
                return [data[:w] + (bytes([ENOENT]) if self.v2 else b'')]
            v = self.params[pid]
            if self.v2:
                return [data[:w] + b'\0' + v.pack()]
            return [data[:w] + v.pack()]
        if chan == 2:           # write
            pid, w = self._pid(data)
            if pid >= len(self.params):
                return [data[:w] + bytes([ENOENT])]
            v = self.params[pid]
            sz = struct.calcsize(v.fmt)
            if not v.ro and len(data) >= w + sz:
                v.value = struct.unpack(v.fmt, data[w:w + sz])[0]
            return [data[:w] + v.pack()]
        if chan == 3:
            cmd = data[0]
            if cmd == 0:        # set by name: (0, group\0name\0, type, value) -> (0, ..., error)
                return [data + b'\0']
            pid = struct.unpack('<H', data[1:3])[0] if len(data) >= 3 else 0xffff
            v = self.params[pid] if pid < len(self.params) else None
            head = data[:3]
            if cmd == 2:
                return [head + bytes([1 if (v is not None and v.persistent) else 0])]
            if cmd == 3:
                if v is None or not v.persistent:
                    return [head + bytes([ENOENT])]
                v.stored = v.value
                return [head + b'\0']
            if cmd == 4:
                if v is None or not v.persistent:
                    return [head + bytes([ENOENT])]
                if v.stored is None:
                    return [head + b'\0' + v.pack(v.default)]
                return [head + b'\1' + v.pack(v.default) + v.pack(v.stored)]
            if cmd == 5:
                if v is None or not v.persistent:
                    return [head + bytes([ENOENT])]
                v.stored = None
                return [head + b'\0']
            if cmd == 6:
                if v is None:
                    return [head + bytes([ENOENT])]
                return [head + v.pack(v.default)]
        return []

    def value_updated_packet(self, pid):
        v = self.params[pid]
        return (self.hdr(2, 3), bytes([1]) + struct.pack('<H', pid) + v.pack())

    # ---- memory (4) ------------------------------------------------------------------------------------------
    def _port_4(self, chan, data):
        if chan == 0:
            if data[0] == 1:
                return [bytes([1, len(self.mems)])]
            if data[0] == 2:
                mid = data[1]
                if mid >= len(self.mems):
                    return [bytes([2, mid])]
                m = self.mems[mid]
                return [bytes([2, mid, m.mtype]) + struct.pack('<I', m.size) + struct.pack('<Q', m.addr)]
            if data[0] == 0:
                return [bytes([0, 1])]
            return []
        if chan == 1:
            mid, addr, ln = struct.unpack('<BIB', data[:6])
            st = self.mem_status.pop((mid, 'r', addr), 0)
            m = self.mem_by_id.get(mid) if mid in self.mem_by_id else (self.mems[mid] if mid < len(self.mems) else None)
            if m is None:
                st = st or ENOENT
            if st:
                return [data[:5] + bytes([st])]
            if isinstance(m, SparseMem):
                return [data[:5] + b'\0' + m.read(addr, ln)]
            chunk = bytes(m.image[addr:addr + ln])
            chunk += bytes(ln - len(chunk))
            return [data[:5] + b'\0' + chunk]
        if chan == 2:
            mid, addr = struct.unpack('<BI', data[:5])
            st = self.mem_status.pop((mid, 'w', addr), 0)
            m = self.mem_by_id.get(mid) if mid in self.mem_by_id else (self.mems[mid] if mid < len(self.mems) else None)
            if m is None:
                st = st or ENOENT
            if st:
                return [data[:5] + bytes([st])]
            body = data[5:]
            if isinstance(m, SparseMem):
                m.write(addr, body)
                return [data[:5] + b'\0']
            if addr + len(body) > len(m.image):
                m.image.extend(bytes(addr + len(body) - len(m.image)))
            m.image[addr:addr + len(body)] = body
            return [data[:5] + b'\0']
        return []


# =================================================================================================
class LinkError(Exception):
    pass


class SimLink:
    """CRTP driver talking to a SimCF.  Subclass of cflib's CRTPDriver is created lazily by
    make_driver_class() so that this module does not import cflib at import time."""


_cls_cache = {}

# The environment registry: the harness sets SimEnv.current before calling open_link.
ENV = None


class SimEnv:
    """Per-execution environment shared by the harness and the links it creates."""

    def __init__(self, dev, chooser, reply_menu=('once',), send_fault=False, needs_resending=True, delay=0.25,
                 uri_scheme='sim'):
        self.dev = dev
        self.chooser = chooser
        self.reply_menu = tuple(reply_menu)
        self.send_fault = send_fault        # offer "link error raised inside send_packet" at every send
        self.needs_resending = needs_resending
        self.delay = delay
        self.links = []
        self.tx = []                        # (t, link_index, header, bytes) every transmission
        self.faults = []                    # record of injected faults
        self.uri_scheme = uri_scheme
        self.fail_connect = None            # exception to raise from connect()
        self.reply_filter = None            # fn(header, payload) -> menu override or None
        self.label_fn = None                # fn(header, payload) -> label suffix
        self.on_fault = None                # fn(kind) called when a link fault is injected
        self.on_rx = None                   # fn(link_index) called when receive_packet returns a packet
        self.on_rx_wait = None              # fn(link_index) called when receive_packet is entered
        self.on_rx_pk = None                # fn(link_index, header, data) called when receive_packet returns a packet
        self.on_tx = None                   # fn(link_index, header, data, status) at every send_packet
        self.hello = False                  # True: an unsolicited console packet is queued at connect
        self.hello_packets = None           # further unsolicited (header, payload) packets queued at connect


def make_driver_class():
    if 'cls' in _cls_cache:
        return _cls_cache['cls']
    from cflib.crtp.crtpdriver import CRTPDriver
    from cflib.crtp.crtpstack import CRTPPacket
    from cflib.crtp.exceptions import WrongUriType

    class _SimLink(CRTPDriver):
        def __init__(self):
            CRTPDriver.__init__(self)
            self.env = None
            self.closed = False
            self.in_queue = vsched.VQueue()
            self.link_error_callback = None
            self.index = None
            self.errored = False
            self.sent_after_close = 0
            self._last_due = 0.0
            self._pending = []

        # ---- CRTPDriver API ----
        def connect(self, uri, radio_link_statistics_callback, link_error_callback):
            env = ENV
            if env is None or not uri.startswith(env.uri_scheme + '://'):
                raise WrongUriType('not a sim uri')
            if env.fail_connect is not None:
                raise env.fail_connect
            self.env = env
            self.uri = uri
            self.needs_resending = env.needs_resending
            self.link_error_callback = link_error_callback
            self.index = len(env.links)
            env.links.append(self)
            if env.hello:
                # a real Crazyflie talks unasked (console text): there is a packet waiting as soon as the link is up
                self.in_queue.queue.append(CRTPPacket(0x00, bytearray(b'hello')))
            for (h, payload) in (env.hello_packets or ()):
                # other unsolicited packets the firmware may have queued (e.g. a parameter value-changed notification)
                self.in_queue.queue.append(CRTPPacket(h, bytearray(payload)))

        def send_packet(self, pk):
            env = self.env
            s = vsched.S
            now = s.elapsed() if s is not None else 0.0
            data = bytes(pk.data)
            header = pk.header if isinstance(pk.header, int) else pk.get_header()
            if self.closed:
                self.sent_after_close += 1
                env.tx.append((now, self.index, header, data, 'CLOSED'))
                if env.on_tx:
                    env.on_tx(self.index, header, data, 'CLOSED')
                return False
            if env.send_fault and not self.errored:
                if env.chooser(2, 'send_fault') == 1:
                    self.errored = True
                    env.faults.append(('send', now, len(env.tx)))
                    if env.on_fault:
                        env.on_fault('send')
                    cb = self.link_error_callback
                    if cb is not None:
                        cb('SimLink: could not send packet')
                    return False
            env.tx.append((now, self.index, header, data, 'ok'))
            if env.on_tx:
                env.on_tx(self.index, header, data, 'ok')
            if self.errored:
                return False
            replies = env.dev.handle(header, data, now)
            for (h, payload) in replies:
                self._deliver(h, payload)
            return True

        def _deliver(self, h, payload):
            env = self.env
            menu = env.reply_menu
            if env.reply_filter is not None:
                m2 = env.reply_filter(h, payload)
                if m2 is not None:
                    menu = m2
            lbl = 'reply:p%dc%d:%s' % ((h >> 4) & 15, h & 3, payload[:1].hex())
            if env.label_fn is not None:
                lbl += env.label_fn(h, payload)
            k = env.chooser(len(menu), lbl) if len(menu) > 1 else 0
            mode = menu[k]
            if k:
                env.faults.append((mode, lbl))
            if mode == 'once':
                self._enqueue(h, payload, 0.0)
            elif mode == 'dup':
                self._enqueue(h, payload, 0.0)
                self._enqueue(h, payload, 0.0)
            elif mode == 'drop':
                pass
            elif mode.startswith('delay'):
                d = float(mode[5:]) if len(mode) > 5 else env.delay
                self._enqueue(h, payload, d)
            else:
                raise HarnessError('unknown reply mode %r' % (mode,))

        def _enqueue(self, h, payload, d):
            """The downlink is FIFO (as the radio link is): a delayed packet also holds back later ones."""
            s = vsched.S
            now = s.now if s is not None else 0.0
            due = max(now + d, self._last_due)
            self._last_due = due
            if due <= now and not self._pending:
                self._put(h, payload)
                return
            self._pending.append((due, h, bytes(payload)))
            link = self

            def body():
                while link._pending and link._pending[0][0] <= s.now + 1e-12:
                    _, h2, p2 = link._pending.pop(0)
                    if not link.closed:
                        link._put(h2, p2)
            s.spawn(None, body, name='delayed-reply', start_at=due, label='reply.delay')

        def _put(self, h, payload):
            """Hand a downlink packet to the host side.  The append is atomic with the device step that produced the
            packet (the device is sequential); the scheduling point comes after it."""
            self.in_queue.queue.append(CRTPPacket(h, bytearray(payload)))
            s = vsched.S
            if s is not None and s.owns_current_thread() and not s.killing:
                s.point('link.rx')

        def deliver_later(self, h, payload, d):
            self._enqueue(h, payload, d)

        def inject(self, h, payload):
            """Unsolicited downlink packet."""
            if not self.closed:
                self._enqueue(h, payload, 0.0)

        def receive_packet(self, wait=0):
            import queue
            if self.env.on_rx_wait:
                self.env.on_rx_wait(self.index)
            try:
                if wait == 0:
                    pk = self.in_queue.get(False)
                elif wait < 0:
                    pk = self.in_queue.get(True)
                else:
                    pk = self.in_queue.get(True, wait)
            except queue.Empty:
                return None
            if self.env.on_rx:
                self.env.on_rx(self.index)
            if self.env.on_rx_pk:
                self.env.on_rx_pk(self.index, pk.header, bytes(pk.data))
            return pk

        def fail_from_driver_thread(self, msg='SimLink: too many packets lost'):
            """Called on an environment thread: what RadioDriver's own thread does on link loss."""
            if self.closed or self.errored:
                return
            self.errored = True
            s = vsched.S
            self.env.faults.append(('driver', s.elapsed() if s else 0.0, len(self.env.tx)))
            if self.env.on_fault:
                self.env.on_fault('driver')
            cb = self.link_error_callback
            if cb is not None:
                cb(msg)

        def close(self):
            # Downlink packets the library has not taken yet: the model hands them over the instant the device produces
            # them, on a real link they would still be in the air when the driver is closed.  By default they are lost
            # with the link; keeping them (the library may still read them from the closed driver's queue) is an
            # environment alternative.
            env = self.env
            if not self.closed and env is not None and self.in_queue.queue:
                if env.chooser(2, 'link.close:keep_queued') == 0:
                    del self.in_queue.queue[:]
            self.closed = True
            self.link_error_callback = None

        def get_status(self):
            return 'sim'

        def get_name(self):
            return 'sim'

        def scan_interface(self, address=None):
            return []

    _cls_cache['cls'] = _SimLink
    return _SimLink


def install_driver():
    """Make SimLink the only link driver (cflib.crtp.CLASSES is a public list)."""
    import cflib.crtp
    cls = make_driver_class()
    cflib.crtp.CLASSES[:] = [cls]
    return cls
