"""setup_cmd: nothing to build (pure Python); verify the interpreter, the repo binding and imports."""
import sys


def main():
    from vf import core
    repo = core.bind_repo()
    import numpy
    import scipy
    import cflib.crazyflie  # noqa
    print('vf selftest ok: python %s, numpy %s, scipy %s, cflib from %s' % (
        sys.version.split()[0], numpy.__version__, scipy.__version__, repo))
    return 0


if __name__ == '__main__':
    sys.exit(main())
