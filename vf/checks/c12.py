"""C12 — flashing writes exactly the image, nowhere else.

The real `Bootloader` (start_bootloader, _internal_flash, flash) and the real `Cloader`
(_update_info, upload_buffer, write_flash) run against a simulated two-target bootloader device
(linear page buffer, flash pages, GET_INFO 0x10, GET_MAPPING 0x12, LOAD_BUFFER 0x14, WRITE_FLASH
0x18, READ_FLASH 0x1C, reset 0xFF/0xF0) behind a scripted link object that is handed out by a
replaced `cflib.crtp.get_link_driver`.  `time` inside cflib.bootloader / cflib.bootloader.cloader
is rebound to a virtual clock, so nothing waits.

Enumerated: geometry x target x override page x every image length (all-ok environment), and for
boundary lengths every pattern of per-flash-write-attempt environment answers with at most 2
deviations from all-ok, plus *all* patterns (no deviation bound) for small geometries.

The oracle is an independent reading of the uplink packet log and the final flash arrays; it never
calls cflib code.
"""
import json
import os
import struct
import sys
import tempfile
import zipfile

from vf.core import HarnessError
from vf.core import Partial

ID = 'C12'
LEVEL = 'exploration'

STM32, NRF51 = 0xFF, 0xFE
ADDR = {'stm32': STM32, 'nrf51': NRF51}
NAME = {STM32: 'stm32', NRF51: 'nrf51'}
FRAME_MAX_DATA = 31          # "header plus at most 31 bytes"
RETRY_BOUND = 8              # "a bounded number of times": fixed bound with slack (the code sends at most 6)
NODE_BUDGET = 3000000        # per worker job; never reached on the unchanged tree
AFTER_VIOLATION = 2000       # executions a job may still spend after its first violation
MAX_PACKETS_FACTOR = 8       # runaway guard on the total number of uplink packets

# environment letters for one flash-write attempt (one WRITE_FLASH command received/lost)
OK = 'ok'                    # executed, positive reply
NEG = 'neg'                  # not executed, reply done=0 error=2
LOSTC = 'lostc'              # command lost: not executed, no reply
LOSTR = 'lostr'              # executed, reply lost
S_OTHER = 's_other'          # executed; a positive WRITE_FLASH reply of the *other* target arrives first
S_OTHER_NEG = 's_otherneg'   # not executed (negative reply), preceded by other target's positive reply
S_SHORT = 's_short'          # executed; a 1-byte 0xFF-port packet arrives first
S_HDR = 's_hdr'              # executed; a console-port packet whose data looks like the reply arrives first
S_INFO = 's_info'            # executed; a stale GET_INFO reply of this target arrives first
LETTERS_BASIC = (NEG, LOSTR, S_OTHER)
LETTERS_MAIN = (NEG, LOSTC, LOSTR, S_OTHER)
LETTERS_ALL = (NEG, LOSTC, LOSTR, S_OTHER, S_OTHER_NEG, S_SHORT, S_HDR, S_INFO)
_EXECUTES = {OK, LOSTR, S_OTHER, S_SHORT, S_HDR, S_INFO}


class _Runaway(BaseException):
    """raised by the fake link when the library does not stop (never caught by cflib)."""


# ---------------------------------------------------------------------------------------------
# deterministic byte streams (image bytes have the high bit clear, initial flash has it set, so a
# flash byte can always be attributed)
_STREAMS = {}


def _stream(seed, hi, n):
    key = (seed, hi)
    cur = _STREAMS.get(key)
    if cur is None or len(cur[0]) < n:
        out = bytearray(cur[0]) if cur else bytearray()
        x = cur[1] if cur else (seed * 2654435761 + 97) & 0x7fffffff
        want = max(n, 2 * len(out), 4096)
        while len(out) < want:
            x = (x * 1103515245 + 12345) & 0x7fffffff
            out.append(((x >> 16) & 0x7f) | hi)
        cur = (bytes(out), x)
        _STREAMS[key] = cur
    return cur[0][:n]


def image_bytes(n, k=0):
    return _stream(11 + k, 0x00, n)


def initial_flash(addr, nbytes):
    return _stream(addr, 0x80, nbytes)


# ---------------------------------------------------------------------------------------------
# virtual clock + link factory, bound into the imported cflib modules

class _VClock:
    def __init__(self):
        self.now = 1.0e6

    def time(self):
        return self.now

    def monotonic(self):
        return self.now

    def sleep(self, s):
        if s > 0:
            self.now += s


_CLOCK = _VClock()
_CUR = {'dev': None}
_BOUND = [False]


def _fake_get_link_driver(uri, *a, **kw):
    dev = _CUR['dev']
    if dev is None:
        raise HarnessError('get_link_driver called outside a case')
    return FakeLink(dev, uri)


def _bind():
    if _BOUND[0]:
        return
    import time as real_time
    import cflib.crtp
    import cflib.bootloader as bl
    import cflib.bootloader.cloader as cl
    for m in (bl, cl):
        if getattr(m, 'time', None) is not real_time:
            raise HarnessError('module %s has no plain `time` import to rebind' % m.__name__)
        m.time = _CLOCK
    cflib.crtp.get_link_driver = _fake_get_link_driver
    _BOUND[0] = True


class _Null:
    def write(self, s):
        return len(s)

    def flush(self):
        pass


# ---------------------------------------------------------------------------------------------
# simulated device

class SimTarget:
    def __init__(self, addr, geo):
        self.addr = addr
        self.ps, self.bp, self.fp, self.sp = geo
        self.buffer = bytearray(b'\xa5' * (self.bp * self.ps))
        self.flash = bytearray(initial_flash(addr, self.fp * self.ps))
        self.flash0 = bytes(self.flash)


class SimDev:
    def __init__(self, geos, pattern, proto=0x10, packet_budget=10000):
        self.t = {a: SimTarget(a, g) for a, g in geos.items()}
        self.proto = proto
        self.pattern = tuple(pattern)
        self.attempt = 0             # WRITE_FLASH commands seen so far (== pattern cursor)
        self.down = []               # downlink queue of (header, bytes)
        self.events = []             # ('tx', hdr, data) | ('rx', hdr, data) | ('to', wait)
        self.budget = packet_budget
        self.same = [None, 0]
        self.sd_new_start = None     # start page the nRF51 bootloader reports after it has been restarted (soft-device update)

    # -- replies
    def _reply(self, hdr, data):
        self.down.append((hdr, bytes(data)))

    def _info(self, t):
        d = struct.pack('<BBHHHH', t.addr, 0x10, t.ps, t.bp, t.fp, t.sp)
        d += bytes((0x10 + i) & 0xff for i in range(12))
        d += bytes([self.proto])
        return d

    def on_packet(self, hdr, data):
        self.events.append(('tx', hdr, data))
        self.budget -= 1
        if self.budget < 0:
            raise _Runaway('more uplink packets than %d x the expected number' % MAX_PACKETS_FACTOR)
        if hdr != 0xFF or len(data) < 2:
            return
        t = self.t.get(data[0])
        if t is None:
            return
        cmd = data[1]
        if cmd == 0x10:
            self._reply(0xFF, self._info(t))
        elif cmd == 0x12 and t.addr == STM32:
            self._reply(0xFF, bytes([t.addr, 0x12, 4, 16, 1, 64, 7, 128]))
        elif cmd == 0x14 and len(data) >= 6:
            page, address = struct.unpack('<HH', data[2:6])
            base = page * t.ps + address
            for i, b in enumerate(data[6:]):
                if base + i < len(t.buffer):      # like the firmware: linear buffer, clipped at its end
                    t.buffer[base + i] = b
        elif cmd == 0x18:
            self._write_flash(t, data)
        elif cmd == 0x1C and len(data) >= 6:
            page, address = struct.unpack('<HH', data[2:6])
            off = page * t.ps + address
            self._reply(0xFF, bytes(data[0:6]) + bytes(t.flash[off:off + 25]))
        elif cmd == 0xFF:
            self._reply(0xFF, bytes([t.addr, 0xFF, 0x11, 0x22, 0x33, 0x44, 0x55, 0x66]))
        elif cmd == 0xF0 and t.addr == NRF51 and self.sd_new_start is not None:
            t.sp = self.sd_new_start          # the freshly flashed bootloader + soft device come up
        # 0xF0 (reset) and everything else: silently accepted

    def _write_flash(self, t, data):
        key = bytes(data)
        if self.same[0] == key:
            self.same[1] += 1
            if self.same[1] > RETRY_BOUND + 1:
                raise _Runaway('same flash-write command sent more than %d times' % (RETRY_BOUND + 1))
        else:
            self.same = [key, 1]
        letter = self.pattern[self.attempt] if self.attempt < len(self.pattern) else OK
        self.attempt += 1
        if letter == LOSTC:
            return
        other = NRF51 if t.addr == STM32 else STM32
        valid = len(data) >= 8
        if valid:
            bpage, fpage, count = struct.unpack('<HHH', data[2:8])
            valid = fpage + count <= t.fp and bpage + count <= t.bp
        if letter in (S_OTHER, S_OTHER_NEG):
            self._reply(0xFF, bytes([other, 0x18, 1, 0]))
        elif letter == S_SHORT:
            self._reply(0xFF, bytes([t.addr]))
        elif letter == S_HDR:
            self._reply(0x0C, bytes([t.addr, 0x18, 1, 0]))
        elif letter == S_INFO:
            self._reply(0xFF, self._info(t))
        if not valid:
            self._reply(0xFF, bytes([t.addr, 0x18, 0, 1]))   # firmware: address outside boundaries
            return
        if letter in (NEG, S_OTHER_NEG):
            self._reply(0xFF, bytes([t.addr, 0x18, 0, 2]))
            return
        for j in range(count):
            t.flash[(fpage + j) * t.ps:(fpage + j + 1) * t.ps] = t.buffer[(bpage + j) * t.ps:(bpage + j + 1) * t.ps]
        if letter != LOSTR:
            self._reply(0xFF, bytes([t.addr, 0x18, 1, 0]))


class FakeLink:
    """What Cloader needs from a CRTP link driver: send_packet / receive_packet(wait) / close."""

    def __init__(self, dev, uri):
        self.dev = dev
        self.uri = uri
        self.rx_calls = 0
        self.held = None
        dev.__dict__.setdefault('_links', []).append(self)

    def send_packet(self, pk):
        # like the radio driver's one-slot out queue, the link keeps the packet *object* and puts it on the air later
        # (here: at the next call into the link) - what goes out is what the object holds at that moment
        self.flush()
        self.held = pk

    def flush(self):
        pk, self.held = self.held, None
        if pk is not None:
            self.dev.on_packet(pk.header, bytes(pk.data))

    def receive_packet(self, wait=0):
        from cflib.crtp.crtpstack import CRTPPacket
        dev = self.dev
        self.flush()
        self.rx_calls += 1
        if self.rx_calls > 50 * (dev.budget + len(dev.events) + 100):
            raise _Runaway('receive_packet polled without end')
        if dev.down:
            hdr, data = dev.down.pop(0)
            dev.events.append(('rx', hdr, data))
            return CRTPPacket(hdr, list(data))
        if wait and wait > 0:
            _CLOCK.now += wait
        dev.events.append(('to', wait))
        return None

    def scan_selected(self, uris):
        return (uris[-1],)

    def close(self):
        self.flush()


# ---------------------------------------------------------------------------------------------
# one execution of the real code

def _expected_packets(case):
    n = 40
    for tgt, ln, ov in case['arts']:
        ps = case['geo'][tgt][0]
        n += (ln // 25 + 2 * (ln // ps + 2)) + 8 * (ln // ps + 2)
    return n * MAX_PACKETS_FACTOR


def run_case(case, tmpdir=None):
    """case: {'mode','cb','geo':{'stm32':[ps,bp,fp,sp],'nrf51':[...]},'arts':[[tgt,n,ov],..],'pat':[..]}
    Returns the observation dict handed to judge()."""
    _bind()
    from cflib.bootloader import Bootloader, FlashArtifact
    from cflib.bootloader import Target as BTarget
    geos = {ADDR[k]: tuple(v) for k, v in case['geo'].items()}
    dev = SimDev(geos, case.get('pat', ()), proto=case.get('proto', 0x10), packet_budget=_expected_packets(case))
    _CUR['dev'] = dev
    msgs = []
    saved = sys.stdout
    sys.stdout = _Null()
    result = None
    flash_begin = None
    try:
        try:
            bl = Bootloader('radio://0/80/2M/E7E7E7E7E7')
            if case.get('cb'):
                bl.progress_cb = lambda m, pct: msgs.append((m, pct))
            started = bl.start_bootloader(warm_boot=False)
            if not started:
                raise HarnessError('start_bootloader failed against the simulated device')
            flash_begin = len(dev.events)
            arts = [(tgt, image_bytes(n, k), ov) for k, (tgt, n, ov) in enumerate(case['arts'])]
            mode = case['mode']
            if mode == 'internal':
                for k, (tgt, img, ov) in enumerate(arts):
                    bl._internal_flash(FlashArtifact(img, BTarget('cf2', tgt, 'fw', [], []), None),
                                       k + 1, len(arts), page_override=ov)
            elif mode == 'bin':
                (tgt, img, ov), = arts
                path = os.path.join(tmpdir, 'image.bin')
                with open(path, 'wb') as f:
                    f.write(img)
                bl.flash(path, [BTarget('cf2', tgt, 'fw', [], [])])
            elif mode == 'zip':
                path = os.path.join(tmpdir, 'fw.zip')
                files = {}
                with zipfile.ZipFile(path, 'w') as zf:
                    for k, (tgt, img, ov) in enumerate(arts):
                        fn = '%s-%d.bin' % (tgt, k)
                        zf.writestr(fn, img)
                        files[fn] = {'platform': 'cf2', 'target': tgt, 'type': 'fw', 'release': '2099.1',
                                     'requires': ['sd-s110'] if tgt == 'nrf51' else []}
                    zf.writestr('manifest.json', json.dumps({'version': 2, 'files': files}))
                bl.flash(path, [])
            elif mode == 'internal_twice':
                # two flashings on one Bootloader object: the first one is cut short (its flash-write is refused, or
                # the terminate callback fires) while pages sit in the buffers; the second must behave like a first one
                (tgt, img_a, how), (tgt2, img_b, _) = arts
                if how == 'terminate':
                    calls = [0]

                    def term():
                        calls[0] += 1
                        return calls[0] >= case['terminate_at']
                    bl.terminate_flashing_cb = term
                try:
                    bl._internal_flash(FlashArtifact(img_a, BTarget('cf2', tgt, 'fw', [], []), None), 1, 1)
                    first = 'returned'
                except Exception as e:  # noqa
                    first = 'raised ' + type(e).__name__
                bl.terminate_flashing_cb = None
                case['_first'] = first
                dev.pattern = ()           # everything is served from here on
                dev.attempt = 0
                bl._internal_flash(FlashArtifact(img_b, BTarget('cf2', tgt2, 'fw', [], []), None), 1, 1)
            elif mode == 'zip_sd':
                # a release that updates the nRF51 soft device: bootloader+softdevice image, then the nRF51 firmware that
                # needs it (and optionally an STM32 image) - one flash() call, the bootloader restarts in between
                dev.sd_new_start = case['sd_new_start']
                path = os.path.join(tmpdir, 'fw.zip')
                files = {}
                with zipfile.ZipFile(path, 'w') as zf:
                    for k, (tgt, img, kind) in enumerate(arts):
                        fn = '%s-%d.bin' % (tgt, k)
                        zf.writestr(fn, img)
                        if kind == 'sdbl':
                            files[fn] = {'platform': 'cf2', 'target': 'nrf51', 'type': 'bootloader+softdevice',
                                         'release': '2.0', 'provides': ['sd-s130'], 'requires': []}
                        else:
                            files[fn] = {'platform': 'cf2', 'target': tgt, 'type': 'fw', 'release': '2099.1',
                                         'requires': ['sd-s130'] if tgt == 'nrf51' else []}
                    zf.writestr('manifest.json', json.dumps({'version': 2, 'files': files}))
                bl.flash(path, [])
            else:
                raise HarnessError('unknown mode %r' % mode)
            result = ('returned',)
        except _Runaway as e:
            result = ('runaway', str(e))
        except HarnessError:
            raise
        except Exception as e:  # noqa  - any exception of the library is an observation
            if flash_begin is None:
                raise HarnessError('setup against the simulated device raised %r' % (e,))
            result = ('raised', type(e).__name__, str(e)[:60])
    finally:
        sys.stdout = saved
        for lk in dev.__dict__.get('_links', []):
            try:
                lk.flush()
            except _Runaway:
                pass
        _CUR['dev'] = None
    return {'events': dev.events, 'begin': flash_begin, 'result': result, 'dev': dev,
            'attempts': dev.attempt, 'msgs': msgs}


# ---------------------------------------------------------------------------------------------
# the oracle (independent of cflib)

def _ncls(n, ps, bp):
    pages = -(-n // ps)
    return '%s,%s' % ('whole_pages' if n % ps == 0 else 'partial_last_page',
                      'one_batch' if pages <= bp else ('full_batches' if pages % bp == 0 else 'partial_last_batch'))


def judge(case, obs):
    """Returns (violations [(sig, what)], summary dict)."""
    V = []
    seen = set()

    def viol(sig, what):
        if sig not in seen:
            seen.add(sig)
            V.append((sig, what))

    geos = {ADDR[k]: tuple(v) for k, v in case['geo'].items()}
    pat = tuple(case.get('pat', ()))
    all_ok = all(x == OK for x in pat)
    exp = {}                     # addr -> dict(start, n, img, npages, fits, cls)
    order = []
    for k, (tgt, n, ov) in enumerate(case['arts']):
        a = ADDR[tgt]
        ps, bp, fp, sp = geos[a]
        start = sp if ov is None else ov
        exp[a] = {'start': start, 'n': n, 'img': image_bytes(n, k), 'npages': -(-n // ps),
                  'fits': n <= (fp - start) * ps, 'cls': _ncls(n, ps, bp), 'tgt': tgt,
                  'ovc': 'default_start' if ov is None else 'override_page'}
        order.append(a)
    first_unfit = next((i for i, a in enumerate(order) if not exp[a]['fits']), None)

    st = {a: {'cover': bytearray(g[1] * g[0]), 'buf': bytearray(g[1] * g[0]), 'after_write': False,
              'flashpk': 0} for a, g in geos.items()}
    cur = None                   # open flash-write group
    failed = None
    groups = []
    uploads = 0
    zero_len = 0
    maxlen = 0
    continued = False

    def close_group():
        nonlocal cur, failed
        if cur is not None:
            groups.append(cur)
            if not cur['pos'] and failed is None:
                failed = cur
            cur = None

    for ev in obs['events'][obs['begin']:]:
        if ev[0] == 'rx':
            hdr, d = ev[1], ev[2]
            if cur is not None and hdr == 0xFF and len(d) >= 3 and d[0] == cur['addr'] and d[1] == 0x18:
                if d[2] == 1:
                    cur['pos'] = True
                else:
                    cur['neg'] = True
            continue
        if ev[0] != 'tx':
            continue
        hdr, d = ev[1], ev[2]
        cmd = d[1] if len(d) >= 2 else None
        maxlen = max(maxlen, len(d))
        if len(d) > FRAME_MAX_DATA:
            viol('frame:too_long:cmd_%s' % ('%02x' % cmd if cmd is not None else 'none'),
                 'uplink packet with %d data bytes after the header byte (max %d): %s' % (len(d), FRAME_MAX_DATA, d.hex()))
        if hdr != 0xFF or cmd not in (0x14, 0x18):
            close_group()
            continue
        a = d[0]
        if cmd == 0x18 and cur is not None and cur['raw'] == d:
            cur['attempts'] += 1
            if cur['attempts'] > RETRY_BOUND:
                viol('retry:unbounded', 'flash-write %s sent %d times' % (d.hex(), cur['attempts']))
            continue
        close_group()
        if failed is not None and not continued:
            continued = True
            viol('abort:continued_after_%s' % ('negative_status' if failed['neg'] else 'unanswered'),
                 'after flash-write %s (%d attempts, no positive reply delivered%s) the library sent %s'
                 % (failed['raw'].hex(), failed['attempts'], ', negative reply delivered' if failed['neg'] else '', d.hex()))
        e = exp.get(a)
        if a not in geos or e is None:
            viol('%s:wrong_target' % ('upload' if cmd == 0x14 else 'write'),
                 'packet %s addressed to target 0x%02x which has no image in this run' % (d.hex(), a))
            if cmd == 0x18:
                cur = {'addr': a, 'raw': d, 'attempts': 1, 'pos': False, 'neg': False}
            continue
        ps, bp, fp, sp = geos[a]
        s = st[a]
        s['flashpk'] += 1
        if not e['fits']:
            viol('refuse:packet_sent:%s' % e['ovc'],
                 'image of %d bytes does not fit (%d pages x %d from page %d) but %s was sent'
                 % (e['n'], fp, ps, e['start'], d.hex()))
        if cmd == 0x14:
            if len(d) < 6:
                viol('upload:malformed', 'load-buffer packet %s' % d.hex())
                continue
            uploads += 1
            if s['after_write']:
                s['cover'] = bytearray(bp * ps)
                s['after_write'] = False
            page, address = struct.unpack('<HH', d[2:6])
            payload = d[6:]
            if not payload:
                zero_len += 1
            if page >= bp or address + len(payload) > ps:
                viol('upload:outside_page:%s' % e['cls'],
                     'load-buffer page %d address %d with %d bytes leaves buffer page (page size %d, %d buffer pages)'
                     % (page, address, len(payload), ps, bp))
            base = page * ps + address
            for i, b in enumerate(payload):
                if base + i < bp * ps:
                    s['buf'][base + i] = b
                    if s['cover'][base + i] < 255:
                        s['cover'][base + i] += 1
            continue
        # ---- first command of a flash-write group
        cur = {'addr': a, 'raw': d, 'attempts': 1, 'pos': False, 'neg': False}
        s['after_write'] = True
        if len(d) != 8:
            viol('write:malformed', 'flash-write packet %s' % d.hex())
            continue
        bpage, fpage, count = struct.unpack('<HHH', d[2:8])
        cur['params'] = (bpage, fpage, count)
        if count < 1 or bpage + count > bp:
            viol('write:bad_buffer_range:%s' % e['cls'], 'flash-write from buffer page %d count %d with %d buffer pages'
                 % (bpage, count, bp))
        for j in range(count):
            fpg, bpg = fpage + j, bpage + j
            idx = fpg - e['start']
            if fpg >= fp:
                viol('write:beyond_flash:%s:%s' % (e['ovc'], e['cls']),
                     'flash-write targets page %d, flash has %d pages (image %d bytes from page %d)'
                     % (fpg, fp, e['n'], e['start']))
                continue
            if not (0 <= idx < e['npages']):
                viol('write:outside_image_range:%s:%s' % (e['ovc'], e['cls']),
                     'flash-write targets page %d, image of %d bytes occupies pages [%d,%d)'
                     % (fpg, e['n'], e['start'], e['start'] + e['npages']))
                continue
            if bpg >= bp:
                continue
            chunk = e['img'][idx * ps:(idx + 1) * ps]
            lo, hi = bpg * ps, bpg * ps + len(chunk)
            cov = s['cover'][lo:hi]
            if cov != b'\x01' * len(chunk):
                for o, c in enumerate(cov):
                    if c != 1:
                        viol('upload:%s:%s' % ('missing_byte' if c == 0 else 'double_cover', e['cls']),
                             'byte %d of image page %d (flash page %d) was uploaded %d times before flash-write %s'
                             % (o, idx, fpg, c, d.hex()))
                        break
            if s['buf'][lo:hi] != chunk:
                o = next(o for o in range(len(chunk)) if s['buf'][lo + o] != chunk[o])
                viol('upload:wrong_data:%s' % e['cls'],
                     'buffer page %d offset %d holds 0x%02x when flash-write to page %d is sent; image byte %d is 0x%02x'
                     % (bpg, o, s['buf'][lo + o], fpg, idx * ps + o, chunk[o]))
    close_group()

    res = obs['result']
    if res[0] == 'runaway':
        viol('retry:unbounded', 'library did not stop: %s' % res[1])
    if res[0] == 'returned' and failed is not None:
        viol('abort:returned_normally_after_%s' % ('negative_status' if failed['neg'] else 'unanswered'),
             'flash-write %s never got a positive reply (%d attempts) but flashing returned normally'
             % (failed['raw'].hex(), failed['attempts']))
    if first_unfit is not None:
        if res[0] == 'returned':
            e = exp[order[first_unfit]]
            viol('refuse:not_refused:%s' % e['ovc'], 'image of %d bytes does not fit but flashing returned normally' % e['n'])
    elif all_ok and res[0] == 'raised':
        e = exp[order[0]]
        viol('fit:raised:%s:%s' % (res[1], e['cls']),
             'image fits and the environment answers every in-range flash-write positively, yet flashing raised %s(%s)' % (res[1], res[2]))

    # ---- final flash
    dev = obs['dev']
    for a, t in dev.t.items():
        ps, bp, fp, sp = geos[a]
        e = exp.get(a)
        if e is None or not e['fits']:
            if bytes(t.flash) != t.flash0:
                viol('flash:%s' % ('other_target_modified' if e is None else 'modified_despite_refusal'),
                     'flash of target %s changed' % NAME[a])
            continue
        lo, hi = e['start'] * ps, min((e['start'] + e['npages']) * ps, fp * ps)
        if bytes(t.flash[:lo]) != t.flash0[:lo] or bytes(t.flash[hi:]) != t.flash0[hi:]:
            pg = next(p for p in range(fp) if not (e['start'] <= p < e['start'] + e['npages']) and
                      bytes(t.flash[p * ps:(p + 1) * ps]) != t.flash0[p * ps:(p + 1) * ps])
            viol('flash:outside_range_modified:%s:%s' % (e['ovc'], e['cls']),
                 'flash page %d of %s changed; image of %d bytes occupies pages [%d,%d)'
                 % (pg, NAME[a], e['n'], e['start'], e['start'] + e['npages']))
        complete = res[0] == 'returned' and (first_unfit is None or order.index(a) < first_unfit)
        for idx in range(e['npages']):
            pg = e['start'] + idx
            if pg >= fp:
                break
            chunk = e['img'][idx * ps:(idx + 1) * ps]
            got = bytes(t.flash[pg * ps:pg * ps + len(chunk)])
            if got == chunk:
                continue
            untouched = bytes(t.flash[pg * ps:(pg + 1) * ps]) == t.flash0[pg * ps:(pg + 1) * ps]
            if untouched and not complete:
                continue
            if untouched:
                viol('flash:page_not_written:%s' % e['cls'],
                     'flashing returned normally but flash page %d (image page %d of %d) was never written'
                     % (pg, idx, e['npages']))
            else:
                o = next(o for o in range(len(chunk)) if got[o] != chunk[o])
                viol('flash:image_mismatch:%s' % e['cls'],
                     'flash page %d offset %d holds 0x%02x, image byte %d is 0x%02x (image %d bytes at page %d)'
                     % (pg, o, got[o], idx * ps + o, chunk[o], e['n'], e['start']))
    summary = {
        'result': res[0] if res[0] != 'raised' else 'raised:' + res[1],
        'groups': [(g.get('params'), g['attempts'], 'pos' if g['pos'] else ('neg' if g['neg'] else 'none')) for g in groups],
        'uploads': uploads, 'zero_len_uploads': zero_len, 'max_packet_data': maxlen,
        'aborted_despite_positive': res[0] == 'raised' and first_unfit is None and failed is None and not all_ok,
    }
    return V, summary


# ---------------------------------------------------------------------------------------------
# bookkeeping of one case

def _case_key(case):
    return (case['mode'], case.get('cb', 0), case.get('proto', 0x10), tuple(sorted((k, tuple(v)) for k, v in case['geo'].items())),
            tuple(tuple(a) for a in case['arts']), tuple(case.get('pat', ())))


def _outcome(case, summ):
    tgt, n, ov = case['arts'][0]
    ps, bp = case['geo'][tgt][0], case['geo'][tgt][1]
    return (summ['result'], len(summ['groups']), tuple(g[1] for g in summ['groups'])[-2:],
            tuple(g[2] for g in summ['groups'])[-2:], _ncls(n, ps, bp), n % 25 == 0, summ['zero_len_uploads'] > 0,
            min(summ['uploads'], 3), summ['max_packet_data'])


def do_case(p, case, tmpdir=None, sample=False):
    obs = run_case(case, tmpdir)
    V, summ = judge(case, obs)
    p.case(key=_case_key(case), outcome=_outcome(case, summ))
    p.points += obs['attempts']
    if summ['aborted_despite_positive']:
        p.add('aborted_although_a_positive_reply_was_delivered')
    if sample:
        p.sample({'mode': case['mode'], 'geometry[page_size,buffer_pages,flash_pages,start_page]': case['geo'],
                  'artifacts[target,length,override_page]': case['arts'], 'env_pattern': list(case.get('pat', ())),
                  'result': summ['result'], 'flash_writes[(buf,page,count),attempts,reply]': summ['groups'],
                  'load_buffer_packets': summ['uploads'], 'max_packet_data_bytes': summ['max_packet_data']})
    for sig, what in V:
        p.violation(sig, '%s  [case %s]' % (what, json.dumps(case, sort_keys=True)), {'case': case})
    return obs, summ


def _other_geo(ps, bp, fp, sp):
    return [ps + 7, bp % 3 + 1, fp + 2, 1]


def _mk(mode, tgt, geo, n, ov=None, pat=(), cb=0, other=None):
    otgt = 'nrf51' if tgt == 'stm32' else 'stm32'
    return {'mode': mode, 'cb': cb, 'geo': {tgt: list(geo), otgt: list(other or _other_geo(*geo))},
            'arts': [[tgt, n, ov]], 'pat': list(pat)}


def _lengths_all(ps, bp, fp, start):
    cap = (fp - start) * ps
    ls = set(range(1, 2 * bp * ps + 3))
    ls.update(x for x in (cap - 1, cap, cap + 1) if x >= 1)
    return sorted(ls)


def _lengths_boundary(ps, bp, fp, start):
    cap = (fp - start) * ps
    ls = {1, 24, 25, 26, 50, 51, ps - 1, ps, ps + 1, 2 * ps, 2 * ps + 1, bp * ps - 1, bp * ps, bp * ps + 1,
          (bp + 1) * ps, 2 * bp * ps - 1, 2 * bp * ps, 2 * bp * ps + 2, cap - ps, cap - 1, cap, cap + 1, cap + ps}
    for k in range(1, 2 * bp + 2):
        c = 25 * (-(-k * ps // 25))
        ls.update((c - 1, c, c + 1))
    return sorted(x for x in ls if x >= 1)


# ---------------------------------------------------------------------------------------------
# jobs

def job_sweep(job):
    """all-ok environment, every listed image length of one geometry/target/override."""
    _, tgt, geo, ov, cb, which = job[:6]
    p = Partial()
    start = geo[3] if ov is None else ov
    lens = (_lengths_all if which == 'all' else _lengths_boundary)(geo[0], geo[1], geo[2], start)
    for n in lens:
        case = _mk('internal', tgt, geo, n, ov, (), cb)
        if len(job) > 6:
            case['proto'] = job[6]
        do_case(p, case)
    return p


def _explore(p, base, letters, max_dev, root=(), tmpdir=None):
    """Stateless DFS over environment patterns: a child extends its parent's pattern at a position the
    parent's execution actually reached (so every distinct reachable pattern is run exactly once)."""
    stack = [tuple(root)]
    runs = 0
    budget = NODE_BUDGET
    while stack:
        pat = stack.pop()
        case = dict(base)
        case['pat'] = list(pat)
        before = p.viol_count
        obs, _ = do_case(p, case, tmpdir)
        runs += 1
        if runs >= budget:
            p.cap('a pattern tree job stopped %s' % ('%d executions after its first violation' % AFTER_VIOLATION
                                                     if budget < NODE_BUDGET else 'after %d executions' % NODE_BUDGET))
            break
        if p.viol_count != before:
            budget = min(budget, runs + AFTER_VIOLATION)
            continue                      # a violating execution is reported, not deepened
        n_att = obs['attempts']
        devs = sum(1 for x in pat if x != OK)
        if max_dev is not None and devs >= max_dev:
            continue
        for i in range(n_att - 1, len(pat) - 1, -1):
            for L in reversed(letters):
                stack.append(pat + (OK,) * (i - len(pat)) + (L,))


def job_faults(job):
    _, base, letters, max_dev, root, label = job
    p = Partial()
    with tempfile.TemporaryDirectory(prefix='c12_') as td:
        _explore(p, base, letters, max_dev, root, td)
    p.add('runs:' + label, p.evaluations)
    return p


def job_api(job):
    """flash() through a .bin file or a .zip with one image per target, all-ok, listed lengths."""
    _, mode, geo_s, geo_n, lens, cb = job
    p = Partial()
    with tempfile.TemporaryDirectory(prefix='c12_') as td:
        for n in lens:
            if mode == 'bin':
                for tgt in ('stm32', 'nrf51'):
                    case = {'mode': 'bin', 'cb': cb, 'geo': {'stm32': list(geo_s), 'nrf51': list(geo_n)},
                            'arts': [[tgt, n, None]], 'pat': []}
                    do_case(p, case, td)
            else:
                for n2 in (1, geo_n[0], geo_n[0] * geo_n[1] + 1, (geo_n[2] - geo_n[3]) * geo_n[0] + 1):
                    for order in (0, 1):
                        arts = [['stm32', n, None], ['nrf51', n2, None]]
                        if order:
                            arts.reverse()
                        case = {'mode': 'zip', 'cb': cb, 'geo': {'stm32': list(geo_s), 'nrf51': list(geo_n)},
                                'arts': arts, 'pat': []}
                        do_case(p, case, td)
    return p


def job_sd(job):
    """flash() of a release that replaces the nRF51 bootloader + soft device (start page 88 -> 108) before the firmware.
    Lengths are whole pages, so the final flash is exact: the first firmware page of the old layout erased, the
    bootloader+softdevice image at the top of the flash, the firmware at the NEW start page, nothing else touched."""
    _, cases = job
    p = Partial()
    with tempfile.TemporaryDirectory(prefix='c12_') as td:
        for (gn, npages_sd, npages_fw, with_stm, order) in cases:
            gs = [26, 3, 8, 1]
            ps, bp, fp, sp = gn
            arts = [['nrf51', npages_sd * ps, 'sdbl'], ['nrf51', npages_fw * ps, 'fw']]
            if with_stm:
                arts.append(['stm32', 52, 'fw'])
            if order:
                arts.reverse()
            case = {'mode': 'zip_sd', 'cb': 0, 'geo': {'stm32': gs, 'nrf51': list(gn)}, 'arts': arts, 'pat': [],
                    'sd_new_start': 108}
            obs = run_case(case, td)
            dev = obs['dev']
            p.case(key=('sd', tuple(gn), npages_sd, npages_fw, with_stm, order), outcome=('sd', obs['result'][:1]))
            p.points += obs['attempts']
            rp = {'case': case}
            if obs['result'] != ('returned',):
                p.violation('sd_update:did_not_complete', 'flash() of a soft-device update ended with %r  [case %s]' % (
                    obs['result'], json.dumps(case)), rp)
                continue
            imgs = {(tgt, kind): image_bytes(n, k) for k, (tgt, n, kind) in enumerate(arts)}
            t = dev.t[NRF51]
            exp = bytearray(t.flash0)
            exp[88 * ps:89 * ps] = b'\xff' * ps                         # old firmware's first page erased
            top = fp - npages_sd
            exp[top * ps:(top + npages_sd) * ps] = imgs[('nrf51', 'sdbl')]
            exp[108 * ps:(108 + npages_fw) * ps] = imgs[('nrf51', 'fw')]
            if bytes(t.flash) != bytes(exp):
                bad = [i // ps for i in range(len(exp)) if t.flash[i] != exp[i]]
                p.violation('sd_update:nrf51_flash', 'after the soft-device update (bootloader restarts with start page 108) the '
                            'nRF51 flash differs from [page 88 erased, bootloader+softdevice at pages %d.., firmware at pages '
                            '108..%d] on pages %r  [case %s]' % (top, 107 + npages_fw, sorted(set(bad))[:12], json.dumps(case)), rp)
            ts = dev.t[STM32]
            exps = bytearray(ts.flash0)
            if with_stm:
                img = imgs[('stm32', 'fw')]
                exps[gs[3] * gs[0]:gs[3] * gs[0] + len(img)] = img
                # the tail of the last page is unspecified (whole pages are written): compare the image range only
                ok = bytes(ts.flash[:gs[3] * gs[0]]) == bytes(exps[:gs[3] * gs[0]]) and \
                    bytes(ts.flash[gs[3] * gs[0]:gs[3] * gs[0] + len(img)]) == bytes(img) and \
                    bytes(ts.flash[(gs[3] + 2) * gs[0]:]) == bytes(exps[(gs[3] + 2) * gs[0]:])
            else:
                ok = bytes(ts.flash) == bytes(exps)
            if not ok:
                p.violation('sd_update:stm32_flash', 'STM32 flash after the release differs from the expected image / untouched '
                            'state  [case %s]' % json.dumps(case), rp)
    return p


def job_twice(job):
    """A flashing that is cut short while pages are buffered, then a complete one on the same Bootloader object: whole-page
    images, so the final flash is exact (second image from the start page, nothing else touched unless the first
    flashing had legitimately written whole batches before it was cut)."""
    _, cases = job
    p = Partial()
    with tempfile.TemporaryDirectory(prefix='c12_') as td:
        for (geo, tgt, na, how, at, nb) in cases:
            ps, bp, fp, sp = geo
            other = 'nrf51' if tgt == 'stm32' else 'stm32'
            case = {'mode': 'internal_twice', 'cb': 0, 'geo': {tgt: list(geo), other: _other_geo(*geo)},
                    'arts': [[tgt, na * ps, how], [tgt, nb * ps, None]], 'pat': [NEG] * 8 if how == 'neg' else [],
                    'terminate_at': at}
            obs = run_case(case, td)
            dev = obs['dev']
            p.case(key=('twice', tuple(geo), tgt, na, how, at, nb), outcome=('twice', case.get('_first'), obs['result'][:1]))
            rp = {'case': {k: v for k, v in case.items() if not k.startswith('_')}}
            if not str(case.get('_first', '')).startswith('raised'):
                continue          # the first flashing was not cut short in this combination: nothing to judge here
            if obs['result'] != ('returned',):
                p.violation('twice:second_flashing_failed', 'after a flashing that ended with %s, a fault-free flashing on the '
                            'same Bootloader object ended with %r  [case %s]' % (case['_first'], obs['result'], json.dumps(rp['case'])), rp)
                continue
            t = dev.t[ADDR[tgt]]
            img_b = image_bytes(nb * ps, 1)
            got = bytes(t.flash)
            want_b = got[sp * ps:(sp + nb) * ps] == img_b
            # pages outside [sp, sp + max(na, nb)) must be untouched; pages of the first image beyond the second one may hold
            # either their old content or the first image (whole batches written before the cut)
            lo, hi = sp * ps, (sp + max(na, nb)) * ps
            outside_ok = got[:lo] == t.flash0[:lo] and got[hi:] == t.flash0[hi:]
            if not want_b or not outside_ok:
                bad = sorted(set(i // ps for i in range(len(got)) if (i < lo or i >= hi) and got[i] != t.flash0[i]))
                p.violation('twice:flash_after_second_flashing', 'first flashing (%d pages) ended with %s, second (%d pages) returned: '
                            'image at the start page %s, pages changed outside the image range: %r  [case %s]' % (
                                na, case['_first'], nb, 'intact' if want_b else 'WRONG', bad[:10], json.dumps(rp['case'])), rp)
    return p


def _dispatch(job):
    return globals()['job_' + job[0]](job)


def _frontier(ck, base, letters, want):
    """Expand the pattern tree breadth-first in the parent until `want` open nodes exist; the visited
    nodes are recorded here, the open ones become DFS roots for the workers."""
    from collections import deque
    open_ = deque([()])
    done = 0
    while open_ and len(open_) < want and done < 4 * want:
        pat = open_.popleft()
        case = dict(base)
        case['pat'] = list(pat)
        before = ck.viol_count
        obs, _ = do_case(ck, case)
        done += 1
        if ck.viol_count != before:
            continue
        for i in range(len(pat), obs['attempts']):
            for L in letters:
                open_.append(pat + (OK,) * (i - len(pat)) + (L,))
    return list(open_)


def run(ck):
    quick = ck.quick
    ck.rule = ('each case = one execution of the real Bootloader/Cloader against a fresh simulated device; '
               'enumerated: page_size x buffer_pages x flash_pages x start_page x override page x target x every image '
               'length 1..2*buffer_pages*page_size+2 and capacity-1/capacity/capacity+1 with an all-ok environment; for '
               'boundary lengths every per-flash-write-attempt environment pattern over {ok, negative status, command '
               'lost, reply lost, stale packet first (5 kinds)} with <= 2 deviations; all patterns without deviation '
               'bound for small geometries; flash() through .bin and two-target .zip files. distinct = distinct '
               '(api mode, callback mode, both geometries, artifacts, environment pattern)')
    ck.assume('simulated device follows the Crazyflie bootloader protocol as read from cloader.py: linear page buffer '
              'written by LOAD_BUFFER (page*page_size+address, clipped at the buffer end), WRITE_FLASH copies whole '
              'buffer pages and answers [target,0x18,done,error], no reply to LOAD_BUFFER')
    ck.assume('a reply, when it comes, is in the downlink queue before the next receive_packet call; replies delayed '
              'past the 2.5 s timeout into a later flash-write (the protocol has no sequence numbers) are not modelled')
    ck.assume('time.time/time.sleep of cflib.bootloader and cflib.bootloader.cloader are a virtual clock; '
              'cflib.crtp.get_link_driver hands out the scripted link')
    ck.assume('"bounded number of times" is checked as <= %d sends of one flash-write command (the code sends at most '
              '6); image content and initial flash content are fixed pseudo-random byte streams with disjoint value '
              'ranges (image < 0x80 <= flash), the property is assumed content-independent' % RETRY_BOUND)
    jobs = []
    # ---- showcase cases with the real CF2 geometries (also the evidence samples)
    real_s, real_n = [1024, 10, 1024, 16], [1024, 1, 232, 88]
    show = [
        _mk('internal', 'stm32', real_s, 25 * 1024 + 300, None, (), 0, real_n),
        _mk('internal', 'nrf51', real_n, 3 * 1024, None, (), 1, real_s),
        _mk('internal', 'nrf51', real_n, 5000, 227, (), 0, real_s),
        _mk('internal', 'nrf51', real_n, 5 * 1024 + 1, 227, (), 0, real_s),
        _mk('internal', 'stm32', real_s, 10 * 1024 + 1, None, (OK, LOSTR, S_OTHER), 0, real_n),
        _mk('internal', 'stm32', real_s, 10 * 1024 + 1, None, (OK, NEG), 1, real_n),
        _mk('internal', 'stm32', real_s, 2048, None, (LOSTC,) * 6, 0, real_n),
        _mk('internal', 'stm32', [26, 3, 8, 1], 100, None, (), 0),
    ]
    for c in show:
        do_case(ck, c, sample=True)
    with tempfile.TemporaryDirectory(prefix='c12_') as td:
        do_case(ck, {'mode': 'zip', 'cb': 0, 'geo': {'stm32': [64, 3, 32, 4], 'nrf51': [50, 1, 96, 88]},
                     'arts': [['stm32', 500, None], ['nrf51', 175, None]], 'pat': []}, td, sample=True)
        do_case(ck, {'mode': 'bin', 'cb': 1, 'geo': {'stm32': [64, 3, 32, 4], 'nrf51': [50, 1, 96, 88]},
                     'arts': [['nrf51', 400, None]], 'pat': []}, td, sample=True)
    if not quick:
        cap = (1024 - 16) * 1024
        for n in (cap - 1, cap, cap + 1):
            jobs.append(('sweep_one', _mk('internal', 'stm32', real_s, n, None, (), 0, real_n)))
        capn = (232 - 88) * 1024
        for n in (capn, capn + 1):
            jobs.append(('sweep_one', _mk('internal', 'nrf51', real_n, n, None, (), 0, real_s)))

    # ---- A: all-ok sweep over geometry x every length
    pss = (16, 25, 26, 50, 64) if quick else (16, 24, 25, 26, 27, 49, 50, 51, 64, 75, 100)
    bps = (1, 2, 3, 10) if quick else (1, 2, 3, 4, 10)
    for ps in pss:
        for bp in bps:
            for fp in (4, 8, 128):
                for sp in (0, 1, 3):
                    for ov in (None, 2):
                        for tgt in ('stm32', 'nrf51'):
                            cb = 1 if (bp == 3 and fp == 8) else 0
                            jobs.append(('sweep', tgt, [ps, bp, fp, sp], ov, cb, 'all'))
    # Crazyflie 1 bootloader protocol versions (single target, no mapping request)
    for proto in (0x00, 0x01):
        for geo in ([16, 1, 8, 1], [26, 3, 8, 1], [50, 10, 128, 3]) if quick else (
                [16, 1, 8, 1], [26, 3, 8, 1], [50, 10, 128, 3], [25, 2, 8, 0], [64, 3, 4, 1], [1024, 10, 128, 10]):
            jobs.append(('sweep', 'stm32', geo, None, proto, 'all' if geo[0] < 1000 else 'boundary', proto))
    if not quick:
        for ps in (256, 1024):
            for bp in (1, 2, 10):
                for fp in (4, 8, 128):
                    for sp in (0, 3):
                        for ov in (None, 2):
                            for tgt in ('stm32', 'nrf51'):
                                jobs.append(('sweep', tgt, [ps, bp, fp, sp], ov, 0, 'boundary'))
        for ov in (5, 7, 8, 127):        # override at / next to the end of flash
            for ps in (16, 26):
                for bp in (1, 3):
                    jobs.append(('sweep', 'nrf51', [ps, bp, 8 if ov < 100 else 128, 1], ov, 0, 'all'))

    # ---- B: <= 2 deviations, boundary lengths
    fgeos = []
    for ps in ((16, 26, 50) if quick else (16, 25, 26, 50, 64)):
        for bp in ((1, 2, 3) if quick else (1, 2, 3, 10)):
            fgeos.append([ps, bp, 8, 1])
    for gi, geo in enumerate(fgeos):
        ps, bp, fp, sp = geo
        lens = sorted({1, ps, ps + 1, bp * ps, bp * ps + 1, 2 * bp * ps, 2 * bp * ps + 1, (fp - sp) * ps})
        lens = [n for n in lens if n <= (fp - sp) * ps]
        for n in lens:
            for tgt in ('stm32', 'nrf51'):
                cb = (gi + n) & 1
                ov = None
                jobs.append(('faults', _mk('internal', tgt, geo, n, ov, (), cb), LETTERS_ALL, 2, (), 'dev<=2'))
    # with an override page
    for n in (1, 17, 48, 49, 96):
        jobs.append(('faults', _mk('internal', 'nrf51', [16, 3, 8, 1], n, 2, (), 0), LETTERS_ALL, 2, (), 'dev<=2'))

    # ---- C: all patterns, no deviation bound
    g1 = _mk('internal', 'stm32', [16, 1, 4, 1], 10)            # one flash-write
    g1n = _mk('internal', 'nrf51', [26, 2, 4, 1], 40, None, (), 1)   # one flash-write of two pages
    g2 = _mk('internal', 'stm32', [16, 1, 4, 1], 30)            # two flash-writes
    g3 = _mk('internal', 'nrf51', [16, 2, 8, 1], 70)            # three flash-writes (2+2+1 pages)
    g4 = _mk('internal', 'stm32', [25, 1, 8, 3], 100, None, (), 1)   # four flash-writes, 25-byte pages
    if quick:
        trees = [(g1, LETTERS_ALL), (g1n, LETTERS_MAIN), (g2, LETTERS_MAIN), (g3, LETTERS_BASIC)]
    else:       # LETTERS_ALL is a superset of LETTERS_MAIN, so these trees contain the quick ones
        trees = [(g1, LETTERS_ALL), (g1n, LETTERS_ALL), (g2, LETTERS_ALL), (g3, LETTERS_BASIC), (g4, LETTERS_BASIC)]
    tree_notes = []
    for base, letters in trees:
        before = ck.evaluations
        roots = _frontier(ck, base, letters, 48 if quick else 160)
        label = 'all_patterns:%s:%dB:%s' % (','.join(map(str, base['geo'][base['arts'][0][0]])), base['arts'][0][1],
                                            '+'.join(letters))
        ck.add('runs:' + label, ck.evaluations - before)
        tree_notes.append({'label': label, 'geometry': base['geo'], 'artifacts': base['arts'],
                           'letters': list(letters)})
        for r in roots:
            jobs.append(('faults', base, letters, None, r, label))

    # ---- D: the public flash() path (.bin and two-target .zip), all-ok + <= 1 deviation
    gs, gn = [26, 3, 8, 1], [50, 2, 92, 88]
    api_lens = sorted({1, 25, 26, 27, 52, 78, 79, 156, 157, 7 * 26, 7 * 26 + 1, 50, 100, 101, 200, 201})
    jobs.append(('api', 'bin', gs, gn, api_lens, 0))
    jobs.append(('api', 'bin', gs, [50, 2, 112, 108], api_lens, 1))
    jobs.append(('api', 'zip', gs, gn, [1, 78, 79, 7 * 26, 7 * 26 + 1], 0))
    if not quick:
        jobs.append(('api', 'zip', gs, gn, list(range(1, 7 * 26 + 3)), 1))
    for arts in ([['stm32', 100, None], ['nrf51', 120, None]], [['nrf51', 101, None], ['stm32', 26, None]]):
        base = {'mode': 'zip', 'cb': 0, 'geo': {'stm32': gs, 'nrf51': gn}, 'arts': arts, 'pat': []}
        jobs.append(('faults', base, LETTERS_ALL, 1 if quick else 2, (), 'flash()_dev<=%d' % (1 if quick else 2)))
    base = {'mode': 'bin', 'cb': 1, 'geo': {'stm32': gs, 'nrf51': gn}, 'arts': [['stm32', 79, None]], 'pat': []}
    jobs.append(('faults', base, LETTERS_ALL, 2, (), 'flash()_dev<=2'))

    sd_cases = [([50, 2, 128, 88], nsd, nfw, ws, order) for nsd in (1, 2, 5) for nfw in (1, 2, 3) for ws in (0, 1)
                for order in (0, 1)]
    tw = []
    for geo in ([26, 3, 16, 4], [50, 2, 40, 10], [16, 4, 24, 6]):
        for tgt in ('stm32', 'nrf51'):
            for na in (1, 2, geo[1], geo[1] + 1, 2 * geo[1] + 1):
                for nb in (1, geo[1], geo[1] + 2):
                    tw.append((geo, tgt, na, 'neg', 0, nb))
                    for at in (1, 2, 3):
                        tw.append((geo, tgt, na, 'terminate', at, nb))
    jobs.append(('twice', tw[:len(tw) // 2]))
    jobs.append(('twice', tw[len(tw) // 2:]))
    jobs.append(('sd', sd_cases[:len(sd_cases) // 2]))
    jobs.append(('sd', sd_cases[len(sd_cases) // 2:]))
    ck.pmap(_dispatch, jobs)
    ck.exhaustive = True
    ck.note('all_pattern_trees', tree_notes)
    ck.note('page_sizes', list(pss))
    ck.note('buffer_pages', list(bps))
    ck.note('retry_bound_checked', RETRY_BOUND)
    ck.note('jobs', len(jobs))


def job_sweep_one(job):
    p = Partial()
    do_case(p, job[1])
    return p


def replay(ck, data):
    case = data['case']
    with tempfile.TemporaryDirectory(prefix='c12_') as td:
        obs = run_case(case, td)
    V, summ = judge(case, obs)
    print('case:', json.dumps(case, sort_keys=True))
    print('result:', obs['result'])
    print('flash-write groups [(buffer page, flash page, count), attempts, reply delivered]:', summ['groups'])
    print('load-buffer packets: %d (zero-length %d), longest packet data %d bytes, flash-write attempts %d'
          % (summ['uploads'], summ['zero_len_uploads'], summ['max_packet_data'], obs['attempts']))
    shown = 0
    for ev in obs['events'][obs['begin']:]:
        if shown >= 60:
            print('  ...')
            break
        if ev[0] == 'to':
            print('  rx  <timeout %s>' % ev[1])
        else:
            print('  %s  %02x %s' % (ev[0], ev[1], ev[2].hex()))
        shown += 1
    for a, t in obs['dev'].t.items():
        changed = [pg for pg in range(t.fp) if t.flash[pg * t.ps:(pg + 1) * t.ps] != t.flash0[pg * t.ps:(pg + 1) * t.ps]]
        print('target %s: flash pages changed: %s' % (NAME[a], changed))
    for sig, what in V:
        print('violated:', sig, '::', what)
        ck.violation(sig, what, data)
    if not V:
        print('no oracle clause violated')
