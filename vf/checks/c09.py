"""C09 — lighthouse geometry estimation recovers the true base-station and Crazyflie poses.

Continuous inputs cannot be enumerated.  What is enumerated completely is a stated finite *room
lattice* (see LATTICE below and `ck.rule`): number of base stations, mounting spots and heights
with generic (non axis-aligned) aim offsets, id assignments, visibility graphs (linkable ones and
unlinkable ones that must be rejected), Crazyflie pose walks x yaw x small tilt, pose counts,
sample orders, base-station order inside a sample, and time-stamp patterns around the matcher
window.  No random numbers: every "generic" offset is a literal.

The measurements are produced by an independent projector written here (numpy only):
world pose of station and Crazyflie -> the four deck sensors in the station frame -> lighthouse V1
sweep angles (horizontal = atan2(y, x), vertical = atan2(z, x), x pointing out of the station).
The real `LighthouseSampleMatcher.match` -> `LighthouseInitialEstimator.estimate` ->
`LighthouseGeometrySolver.solve` pipeline is then run on them exactly as
examples/lighthouse/multi_bs_geometry_estimation.py drives it, and compared with the generating
truth expressed in the frame of the first sample's Crazyflie pose.
"""
import itertools
import math
import os
import signal
import warnings

os.environ.setdefault('OMP_NUM_THREADS', '1')
os.environ.setdefault('OPENBLAS_NUM_THREADS', '1')

import numpy as np  # noqa: E402

from vf.core import Partial  # noqa: E402

ID = 'C09'
LEVEL = 'exploration'

TOL_POS = 1e-3        # the property's own tolerances: a millimetre ...
TOL_ANG = 1e-3        # ... and a milliradian
ROOM_TIMEOUT_S = 30   # a room that takes longer than this is reported as a hang (normal: < 1 s)
ROOM_TIMEOUT_AFTER_HANG_S = 5   # ... once a worker has seen one hang, it waits only this long
_hangs_seen = [0]

# ------------------------------------------------------------------------------------------------
# LATTICE (all literals; angles in degrees unless stated)
# ------------------------------------------------------------------------------------------------

# Mounting spots (x, y) in metres: four room corners and four wall mid-points of a room of about
# 5 m x 4.6 m, deliberately not symmetric.
SLOTS = (
    (-2.43, -2.17), (2.31, -2.26), (2.52, 2.08), (-2.24, 2.39),
    (0.13, -2.35), (2.47, 0.21), (-0.17, 2.28), (-2.38, -0.11),
)
# Stations are aimed at the volume centre plus a generic aim offset (yaw, pitch, roll) per spot.
CENTRE = (0.0, 0.0, 0.45)
AIMSETS = (
    ((6.3, -3.1, 2.9), (-7.4, 2.3, -2.2), (5.2, 3.4, 1.7), (-4.6, -2.7, -3.3),
     (3.8, 2.1, -1.4), (-5.9, -1.8, 2.6), (7.1, 1.2, 3.1), (-3.3, 2.8, -2.7)),
    ((-8.2, 4.3, -5.1), (9.1, -3.6, 4.4), (-6.7, -4.9, 6.2), (7.8, 3.2, -3.9),
     (-5.3, 4.7, 5.6), (8.4, -2.9, -6.3), (-9.3, 3.8, 4.8), (6.1, -4.4, -5.2)),
)
HEIGHTS = (1.5, 2.5, 4.0)
HEIGHT_PATTERNS = ('r0', 'r1', 'r2', 'mid', 'lo', 'hi')   # rN: station j at HEIGHTS[(j + N) % 3]

PLACEMENTS = {   # tuples of mounting spots, station index j -> spot
    2: ((0, 2), (0, 1), (4, 6), (5, 3)),
    3: ((0, 1, 2), (4, 2, 7), (3, 6, 5)),
    4: ((0, 1, 2, 3), (4, 5, 6, 7), (2, 7, 0, 5)),
    5: ((0, 1, 2, 3, 4), (6, 0, 5, 3, 1)),
    6: ((0, 1, 2, 3, 4, 6), (7, 2, 4, 0, 5, 3)),
}

IDSETS = {
    'seq': (0, 1, 2, 3, 4, 5),
    'gaps': (1, 3, 7, 8, 12, 15),
    'desc': (5, 4, 3, 2, 1, 0),          # cut to the last n values: n-1 .. 0
    'mixed': (15, 2, 9, 0, 11, 4),
}
IDSET_NAMES = ('seq', 'gaps', 'desc', 'mixed')

# Crazyflie positions: 4 x 4 x 4 lattice inside the flight volume (below the lowest station).
POS_X = (-0.9, -0.3, 0.3, 0.9)
POS_Y = (-0.9, -0.3, 0.3, 0.9)
POS_Z = (0.0, 0.3, 0.6, 0.9)
YAWS = (0.0, 37.0, 90.0, 180.0, -135.0)
TILTS = ((0.0, 0.0), (3.0, -2.0))          # (roll, pitch)
# walks through the position lattice: name -> (start, stride, modulus, z-rule)
WALKS = {
    'w21': (0, 21, 64),      # strides coprime to 64: visits all 64 positions before repeating
    'w27': (5, 27, 64),
    'w37': (17, 37, 64),
    'floor5': (3, 5, 16),    # all poses on the floor (z = 0), like the real set-up wizard
    'floor7': (8, 7, 16),
}
WALK_NAMES = ('w21', 'floor5', 'w27', 'w37', 'floor7')

VIS_LINKABLE = ('complete', 'chain', 'star', 'chain_one_all', 'mixed')

# time stamps, integer microseconds.  intra: offsets of the measurements inside one pose;
# inter: distance from the first measurement of a pose to the first measurement of the next.
# 20 000 us is the matcher window; exactly 20 000 is never generated (the property does not say
# which side the boundary belongs to), 19 000 and 21 000 are.
TIMINGS = {
    #  name: (t0_us, intra rule, inter_us, straggler)
    'same_ts_wide': (1_000_000, 'zero', 50_000, False),
    'tight_wide': (1_000_000, 3_000, 50_000, False),
    'edge19_edge21': (1_000_000, 'span19', 21_000, False),
    'zero_edge21': (250_000, 'zero', 21_000, False),
    'tight_long_epoch': (1_700_000_000_000_000, 2_000, 1_000_000, False),
    'straggler': (1_000_000, 3_000, 90_000, True),      # a single-station measurement between poses
    'split': (1_000_000, 11_000, 120_000, False),       # 0/11/22/33 ms: one pose gives several groups
    'tight_from_zero': (0, 3_000, 50_000, False),       # the recording starts at time stamp exactly 0.0
}
TIMING_NAMES = ('same_ts_wide', 'tight_wide', 'edge19_edge21', 'zero_edge21', 'tight_long_epoch',
                'straggler', 'split', 'tight_from_zero')
WINDOW_US = 20_000
INTRA_ORDERS = ('asc_station', 'desc_station', 'rot1')

# envelope: a station must see the deck from at least this elevation above the deck plane, and
# every sweep angle must be inside the station's field of view
MIN_DECK_ELEVATION_DEG = 3.0
MAX_SWEEP_DEG = 60.0


# ------------------------------------------------------------------------------------------------
# independent geometry (numpy only)
# ------------------------------------------------------------------------------------------------

def _rz(a):
    c, s = math.cos(a), math.sin(a)
    return np.array([[c, -s, 0.0], [s, c, 0.0], [0.0, 0.0, 1.0]])


def _ry(a):
    c, s = math.cos(a), math.sin(a)
    return np.array([[c, 0.0, s], [0.0, 1.0, 0.0], [-s, 0.0, c]])


def _rx(a):
    c, s = math.cos(a), math.sin(a)
    return np.array([[1.0, 0.0, 0.0], [0.0, c, -s], [0.0, s, c]])


def _station_pose(spot, height, aim):
    """Station at the mounting spot, x axis pointing at CENTRE plus the aim offset."""
    pos = np.array([SLOTS[spot][0], SLOTS[spot][1], height])
    d = np.array(CENTRE) - pos
    yaw = math.atan2(d[1], d[0]) + math.radians(aim[0])
    pitch = math.atan2(-d[2], math.hypot(d[0], d[1])) + math.radians(aim[1])   # +pitch = nose down
    return _rz(yaw) @ _ry(pitch) @ _rx(math.radians(aim[2])), pos


def _cf_pose(walk, k, yaw_off, tilt_off):
    a, s, mod = WALKS[walk]
    p = (a + k * s) % mod
    pos = np.array([POS_X[p % 4], POS_Y[(p // 4) % 4], POS_Z[p // 16]])
    yaw = math.radians(YAWS[(k + yaw_off) % len(YAWS)])
    roll, pitch = TILTS[(k + tilt_off) % len(TILTS)]
    return _rz(yaw) @ _ry(math.radians(pitch)) @ _rx(math.radians(roll)), pos


def _sensor_layout():
    """The lighthouse deck: 4 sensors, 30 mm along x, 15 mm along y, in the Crazyflie frame
    (written out here and compared with LhDeck4SensorPositions.positions in the worker)."""
    return np.array([(-0.015, 0.0075, 0.0), (-0.015, -0.0075, 0.0), (0.015, 0.0075, 0.0), (0.015, -0.0075, 0.0)])


def _project(bs, cf, sensors):
    """-> list of 4 (horizontal, vertical) V1 sweep angles, min deck elevation, max |angle|."""
    Rb, tb = bs
    Rc, tc = cf
    out = []
    for s in sensors:
        b = Rb.T @ (Rc @ s + tc - tb)
        if b[0] <= 0.05:
            return None
        out.append((math.atan2(b[1], b[0]), math.atan2(b[2], b[0])))
    to_bs = tb - tc
    elev = math.degrees(math.asin(float(Rc[:, 2] @ to_bs) / float(np.linalg.norm(to_bs))))
    return out, elev, max(abs(a) for pr in out for a in pr)


def _rel(ref, p):
    Rr, tr = ref
    R, t = p
    return Rr.T @ R, Rr.T @ (t - tr)


def _pose_err(truth, R_est, t_est):
    R, t = truth
    dp = float(np.linalg.norm(np.asarray(t_est, dtype=float) - t))
    dR = R.T @ np.asarray(R_est, dtype=float)
    c = (np.trace(dR) - 1.0) / 2.0
    s = np.linalg.norm([dR[2, 1] - dR[1, 2], dR[0, 2] - dR[2, 0], dR[1, 0] - dR[0, 1]]) / 2.0
    return dp, float(math.atan2(s, c))


# ------------------------------------------------------------------------------------------------
# room specification -> concrete room
# ------------------------------------------------------------------------------------------------

def _ids_for(name, n):
    full = IDSETS[name]
    return tuple(full[-n:]) if name == 'desc' else tuple(full[:n])


def _visibility(vis, n, m):
    """-> list (per pose k) of tuples of station indices, or None if the graph needs more poses."""
    def chain(k):
        c = k % (n - 1)
        return (c, c + 1)

    def star(k):
        return (0, 1 + k % (n - 1))
    everyone = tuple(range(n))
    if vis == 'complete':
        return [everyone] * m
    if n >= 2 and vis in ('chain', 'star', 'chain_one_all', 'mixed') and m < n - 1:
        return None
    if vis == 'chain':
        return [chain(k) for k in range(m)]
    if vis == 'star':
        return [star(k) for k in range(m)]
    if vis == 'chain_one_all':
        return [everyone if k == m // 2 else chain(k) for k in range(m)]
    if vis == 'mixed':
        # pairs of a chain, pairs of a star and triples, cycling; the first n-1 poses are the chain
        out = []
        for k in range(m):
            if k < n - 1 or k % 3 == 0:
                out.append(chain(k))
            elif k % 3 == 1:
                out.append(star(k))
            else:
                out.append(tuple(sorted({k % n, (k + 1) % n, (k + 2) % n})) if n >= 3 else everyone)
        return out
    # ---- unlinkable graphs: ('split', a, 'alt'|'blocks') / ('single',)
    if vis[0] == 'single':
        return [(0,)] * m
    if vis[0] == 'split':
        a = vis[1]
        A, B = tuple(range(a)), tuple(range(a, n))
        if vis[2] == 'alt':
            return [A if k % 2 == 0 else B for k in range(m)]
        if vis[2] == 'alt_b_first':
            return [B if k % 2 == 0 else A for k in range(m)]
        return [A if k < (m + 1) // 2 else B for k in range(m)]
    raise ValueError(vis)


def _order(spec_order, m):
    kind = spec_order[0]
    if kind == 'rot':
        r = spec_order[1] % m
        return list(range(r, m)) + list(range(r))
    if kind == 'rev':
        return list(range(m - 1, -1, -1))
    if kind == 'perm':
        return list(spec_order[1])
    raise ValueError(spec_order)


def _intra_offsets(rule, count):
    if rule == 'zero':
        return [0] * count
    if rule == 'span19':
        return [0] if count == 1 else [(19_000 * i) // (count - 1) for i in range(count)]
    return [rule * i for i in range(count)]


def build_room(spec):
    """spec (JSON-able dict) -> concrete room dict (stations, ids, poses, measurement events)."""
    n, m = spec['n'], spec['m']
    spots = PLACEMENTS[n][spec['place']]
    hp = spec['hp']
    aims = AIMSETS[spec['aim']]
    stations = []
    for j, spot in enumerate(spots):
        if hp.startswith('r'):
            h = HEIGHTS[(j + int(hp[1:])) % 3]
        else:
            h = {'lo': 1.5, 'mid': 2.5, 'hi': 4.0}[hp]
        stations.append(_station_pose(spot, h, aims[spot]))
    ids = _ids_for(spec['ids'], n)
    vis = spec['vis']
    vis_key = tuple(vis) if isinstance(vis, (list, tuple)) else vis
    visible = _visibility(vis_key, n, m)
    if visible is None:
        return None
    poses = [_cf_pose(spec['walk'], k, spec.get('yaw_off', 0), spec.get('tilt_off', 0)) for k in range(m)]
    order = _order(spec['order'], m)
    t0, intra, inter, straggler = TIMINGS[spec['timing']]
    io = spec['intra_order']
    events = []          # (ts_us, station index, pose index)
    t = t0
    for pos_in_order, k in enumerate(order):
        st = list(visible[k])
        if io == 'desc_station':
            st.reverse()
        elif io == 'rot1':
            st = st[1:] + st[:1]
        for s, off in zip(st, _intra_offsets(intra, len(st))):
            events.append((t + off, s, k))
        if straggler:
            events.append((t + 45_000, visible[k][pos_in_order % len(visible[k])], k))
        t += inter
    return {'n': n, 'm': m, 'stations': stations, 'ids': ids, 'visible': visible, 'poses': poses,
            'order': order, 'events': events}


def reference_groups(events, min_bs):
    """Greedy maximal runs whose time span (last - first) is at most the window; runs with fewer
    than min_bs distinct stations are dropped.  Integer microseconds."""
    groups = []
    cur = None
    for idx, (ts, s, k) in enumerate(events):
        if cur is None or ts - cur['t0'] > WINDOW_US:
            cur = {'t0': ts, 'members': {}, 'poses': set()}
            groups.append(cur)
        cur['members'][s] = idx
        cur['poses'].add(k)
    return [g for g in groups if len(g['members']) >= min_bs]


def stations_linked(groups):
    """True iff at least two stations occur and the graph 'share a sample' connects all of them."""
    parent = {}

    def find(x):
        while parent[x] != x:
            parent[x] = parent[parent[x]]
            x = parent[x]
        return x
    for g in groups:
        members = sorted(g['members'])
        for s in members:
            parent.setdefault(s, s)
        for s in members[1:]:
            parent[find(s)] = find(members[0])
    return len(parent) >= 2 and len({find(s) for s in parent}) == 1


def envelope_report(room, sensors):
    """-> (ok, min deck elevation, max |sweep angle|) over every (station, pose) pair that is measured."""
    min_elev, max_ang = 90.0, 0.0
    for ts, s, k in room['events']:
        pr = _project(room['stations'][s], room['poses'][k], sensors)
        if pr is None:
            return False, -90.0, 180.0
        min_elev = min(min_elev, pr[1])
        max_ang = max(max_ang, math.degrees(pr[2]))
    return (min_elev >= MIN_DECK_ELEVATION_DEG and max_ang <= MAX_SWEEP_DEG), min_elev, max_ang


# ------------------------------------------------------------------------------------------------
# lattice enumeration
# ------------------------------------------------------------------------------------------------

def _tier_sets(quick):
    if quick:
        return {
            'ns': (2, 3, 4), 'nplace': 2, 'hps': ('r0', 'mid'), 'aims': (0,),
            'vis': VIS_LINKABLE, 'walks': ('w21', 'floor5'), 'ms': (3, 5, 10),
            'ord_nm': ((2, 3), (3, 3), (4, 5)), 'unl_ms': (3, 5), 'unl_hps': ('r0',),
        }
    return {
        'ns': (2, 3, 4, 5, 6), 'nplace': 4, 'hps': HEIGHT_PATTERNS, 'aims': (0, 1),
        'vis': VIS_LINKABLE, 'walks': WALK_NAMES, 'ms': (3, 5, 10, 40),
        'ord_nm': ((2, 3), (2, 5), (2, 10), (3, 3), (3, 5), (3, 10), (4, 3), (4, 5), (4, 10),
                   (5, 3), (5, 5), (6, 3), (6, 5)),
        'unl_ms': (3, 5, 10), 'unl_hps': ('r0', 'r2', 'mid'),
    }


_BASIC_ORDERS = (('rot', 0), ('rev',), ('rot', 1), ('rot', 2))


def lattice(quick):
    """-> list of room specs (dicts).  The thorough list contains every quick spec."""
    T = _tier_sets(quick)
    specs = []
    # family 'geo': full product of the geometric dimensions; ids, order, timing and the station
    # order inside a sample are tied to the coordinates (every value of each occurs many times)
    for n in T['ns']:
        for pi in range(min(T['nplace'], len(PLACEMENTS[n]))):
            for hi, hp in enumerate(HEIGHT_PATTERNS):
                if hp not in T['hps']:
                    continue
                for ai in T['aims']:
                    for vi, vis in enumerate(VIS_LINKABLE):
                        for wi, walk in enumerate(WALK_NAMES):
                            if walk not in T['walks']:
                                continue
                            for m in T['ms']:
                                if m == 40 and not (ai == 0 and walk in ('w21', 'floor5', 'w37')):
                                    continue        # 40-pose rooms: first aim set, three walks
                                c = 13 * n + pi + 2 * hi + 3 * ai + 5 * vi + 7 * wi + 11 * (m % 7)
                                specs.append({
                                    'fam': 'geo', 'n': n, 'place': pi, 'hp': hp, 'aim': ai, 'vis': vis,
                                    'walk': walk, 'm': m, 'yaw_off': c % 5, 'tilt_off': (c // 5) % 2,
                                    'ids': IDSET_NAMES[c % 4], 'order': list(_BASIC_ORDERS[(c // 4) % 4]),
                                    'timing': TIMING_NAMES[(c // 3) % len(TIMING_NAMES)],
                                    'intra_order': INTRA_ORDERS[(c // 2) % 3]})
    # family 'ord': for one geometry per station count, the full product of ids x order x timing x
    # station order inside a sample x visibility
    for n, m in T['ord_nm']:
        orders = [('rot', r) for r in range(m)] + [('rev',)]
        if m <= 4:
            orders = [('perm', list(p)) for p in itertools.permutations(range(m))]
        for vis in ('complete', 'chain', 'mixed'):
            for ids in IDSET_NAMES:
                for order in orders:
                    for timing in TIMING_NAMES:
                        for io in INTRA_ORDERS:
                            specs.append({
                                'fam': 'ord', 'n': n, 'place': 0, 'hp': 'r1', 'aim': 0, 'vis': vis,
                                'walk': 'w27', 'm': m, 'yaw_off': 1, 'tilt_off': 1, 'ids': ids,
                                'order': list(order), 'timing': timing, 'intra_order': io})
    # family 'unl': systems that cannot be linked (must be rejected with an error).  Single-station
    # samples have to reach the estimator, so the matcher runs with its default min_nr_of_bs_in_match.
    for n in T['ns']:
        kinds = [('single',)]
        for a in range(1, n):
            kinds += [('split', a, 'alt'), ('split', a, 'alt_b_first'), ('split', a, 'blocks')]
        for pi in range(min(T['nplace'], len(PLACEMENTS[n]))):
            for hp in T['unl_hps']:
                for kind in kinds:
                    for m in T['unl_ms']:
                        for ii, ids in enumerate(IDSET_NAMES):
                            c = n + pi + m + ii
                            specs.append({
                                'fam': 'unl', 'n': n, 'place': pi, 'hp': hp, 'aim': 0, 'vis': list(kind),
                                'walk': 'w21', 'm': m, 'yaw_off': c % 5, 'tilt_off': c % 2, 'ids': ids,
                                'order': ['rot', 0], 'timing': ('tight_wide', 'same_ts_wide')[c % 2],
                                'intra_order': INTRA_ORDERS[c % 3]})
    # keep only real rooms (a chain/star over n stations needs n-1 poses) and drop specifications
    # that realise the same room (with two stations every linkable graph is the complete one)
    rooms, seen = [], set()
    for spec in specs:
        vis = spec['vis']
        visible = _visibility(tuple(vis) if isinstance(vis, list) else vis, spec['n'], spec['m'])
        if visible is None:
            continue
        k = tuple((f, repr(spec[f])) for f in sorted(spec) if f != 'vis') + (tuple(visible),)
        if k not in seen:
            seen.add(k)
            rooms.append(spec)
    # the same call after a call that failed half-way on another recording (state left behind by the failed call)
    def with_history(base, stride, cap):
        return [dict(r, prior='failed_call') for r in base if r['fam'] != 'unl'][::stride][:cap]
    if quick:
        hist = with_history(rooms, 7, 40)
    else:
        # the thorough lattice contains every room of the quick one (checked in run): the quick history rooms, then more
        hist = [r for r in lattice(True) if r.get('prior')]
        seen_h = {_spec_key(r) for r in hist}
        hist += [r for r in with_history(rooms, 3, 400) if _spec_key(r) not in seen_h]
    return rooms + hist


def _spec_key(spec):
    return tuple((k, repr(spec[k])) for k in sorted(spec))


# ------------------------------------------------------------------------------------------------
# running one room on the real pipeline
# ------------------------------------------------------------------------------------------------

class _RoomTimeout(BaseException):
    pass


def _alarm(signum, frame):
    raise _RoomTimeout()


def _vis_name(spec):
    v = spec['vis']
    return v if isinstance(v, str) else '_'.join(str(x) for x in v)


def run_room(spec, p, verbose=False):
    """Execute one room, record the case in Partial p, return a small result dict (or None if the
    spec is not a room of the lattice)."""
    from cflib.localization.lighthouse_bs_vector import LighthouseBsVector
    from cflib.localization.lighthouse_bs_vector import LighthouseBsVectors
    from cflib.localization.lighthouse_geometry_solver import LighthouseGeometrySolver
    from cflib.localization.lighthouse_initial_estimator import LighthouseInitialEstimator
    from cflib.localization.lighthouse_sample_matcher import LighthouseSampleMatcher
    from cflib.localization.lighthouse_types import LhDeck4SensorPositions
    from cflib.localization.lighthouse_types import LhMeasurement

    sensors = _sensor_layout()
    lib_sensors = np.asarray(LhDeck4SensorPositions.positions, dtype=float)
    room = build_room(spec)
    if room is None:
        return None
    through_filter = spec['fam'] != 'unl'
    vname = _vis_name(spec)
    cls = '%s:%s%s' % (vname, 'n2' if spec['n'] == 2 else 'n3plus', ':after_failed_call' if spec.get('prior') else '')
    ok_env, min_elev, max_sweep = envelope_report(room, sensors)
    if not ok_env:
        # geometric exclusion rule (stated in ck.rule): the room is not part of the lattice
        p.add('rooms_excluded_by_envelope_rule', 1)
        return None
    if lib_sensors.shape != sensors.shape or np.abs(lib_sensors - sensors).max() > 1e-12:
        p.violation('deck:sensor_positions', 'LhDeck4SensorPositions.positions = %r differs from the deck '
                    'layout of the projector %r' % (lib_sensors.tolist(), sensors.tolist()), spec)
        return None

    ids = room['ids']
    measurements = []
    vec_objs = []
    for ts, s, k in room['events']:
        pr = _project(room['stations'][s], room['poses'][k], sensors)[0]
        vecs = LighthouseBsVectors(LighthouseBsVector(h, v) for h, v in pr)
        vec_objs.append(vecs)
        measurements.append(LhMeasurement(timestamp=ts / 1e6, base_station_id=ids[s], angles=vecs))
    min_bs = 2 if through_filter else 0
    groups = reference_groups(room['events'], min_bs)
    for g in groups:
        if len(g['poses']) != 1:
            raise RuntimeError('harness: time pattern mixes two poses in one group: %r' % (spec,))
    if not groups:
        raise RuntimeError('harness: no sample survives the matcher in room %r' % (spec,))
    # linkable = what the statement calls "all base stations are linked through shared samples"
    # (a time pattern that splits one pose over several windows can unlink a complete graph)
    linkable = stations_linked(groups)
    if spec['fam'] == 'unl' and linkable:
        raise RuntimeError('harness: room of the unlinkable family is linkable: %r' % (spec,))
    if not linkable:
        vname = vname if spec['fam'] == 'unl' else vname + '_unlinked_by_' + spec['timing']
    res = {'spec': spec, 'min_deck_elevation_deg': round(min_elev, 2), 'max_sweep_deg': round(max_sweep, 2),
           'groups': len(groups)}
    key = _spec_key(spec)

    old = signal.signal(signal.SIGALRM, _alarm)
    timeout_s = ROOM_TIMEOUT_AFTER_HANG_S if _hangs_seen[0] else ROOM_TIMEOUT_S
    signal.setitimer(signal.ITIMER_REAL, timeout_s)
    try:
        with warnings.catch_warnings():
            warnings.simplefilter('ignore')
            # ---- 1. matcher -------------------------------------------------------------------
            if through_filter:
                matched = LighthouseSampleMatcher.match(measurements, min_nr_of_bs_in_match=2)
            else:
                matched = LighthouseSampleMatcher.match(measurements)
            bad = None
            if len(matched) != len(groups):
                bad = '%d samples, reference grouping has %d' % (len(matched), len(groups))
            else:
                for i, (smp, g) in enumerate(zip(matched, groups)):
                    exp = {ids[s]: vec_objs[idx] for s, idx in g['members'].items()}
                    got = smp.angles_calibrated
                    if set(got) != set(exp) or any(got[b] is not exp[b] for b in exp):
                        bad = 'sample %d holds stations %r, reference group holds %r (or other angle objects)' % (
                            i, sorted(got), sorted(exp))
                        break
                    if smp.timestamp != g['t0'] / 1e6:
                        bad = 'sample %d has timestamp %r, first measurement of the group is at %r' % (
                            i, smp.timestamp, g['t0'] / 1e6)
                        break
            if bad:
                p.case(key=key, outcome=('match_mismatch', spec['timing']))
                p.violation('match:grouping:%s' % spec['timing'],
                            'matcher output differs from the reference grouping (window 20 ms anchored at the '
                            'first measurement, min 2 stations): %s; room %r' % (bad, spec), spec)
                res['verdict'] = 'match_mismatch: ' + bad
                return res
            # ---- (history) an earlier call in the same process that failed half-way -----------------
            if spec.get('prior') == 'failed_call':
                # another recording with the same station ids (the poses in reverse order) whose last measurement is
                # corrupt (NaN sweep angle): whatever that call does - raise, reject - it must leave nothing behind
                poses_rev = room['poses'][::-1]
                meas2 = []
                for j, (ts, s_, k_) in enumerate(room['events']):
                    pr2 = _project(room['stations'][s_], poses_rev[k_], sensors)[0]
                    if j == len(room['events']) - 1:
                        pr2 = [(float('nan'), v_) for (h_, v_) in pr2]
                    vecs2 = LighthouseBsVectors(LighthouseBsVector(h_, v_) for h_, v_ in pr2)
                    meas2.append(LhMeasurement(timestamp=ts / 1e6, base_station_id=ids[s_], angles=vecs2))
                try:
                    m2 = (LighthouseSampleMatcher.match(meas2, min_nr_of_bs_in_match=2) if through_filter
                          else LighthouseSampleMatcher.match(meas2))
                    g2, c2 = LighthouseInitialEstimator.estimate(m2, LhDeck4SensorPositions.positions)
                    LighthouseGeometrySolver.solve(g2, c2, LhDeck4SensorPositions.positions)
                    p.add('prior_corrupt_recording_answered', 1)
                except _RoomTimeout:
                    raise
                except Exception:  # noqa
                    p.add('prior_corrupt_recording_raised', 1)
            # ---- 2. estimate + solve ------------------------------------------------------------
            exc = None
            try:
                guess, cleaned = LighthouseInitialEstimator.estimate(matched, LhDeck4SensorPositions.positions)
                sol = LighthouseGeometrySolver.solve(guess, cleaned, LhDeck4SensorPositions.positions)
            except Exception as e:  # noqa
                exc = e
    except _RoomTimeout:
        _hangs_seen[0] += 1
        p.case(key=key, outcome=('hang', cls))
        p.violation('pipeline:hang:%s' % ('linkable' if linkable else 'unlinkable'),
                    'pipeline did not return within %d s (neither an answer nor an error): %r' % (timeout_s, spec), spec)
        res['verdict'] = 'hang'
        return res
    finally:
        signal.setitimer(signal.ITIMER_REAL, 0)
        signal.signal(signal.SIGALRM, old)

    if not linkable:
        kind = spec['vis'][0] if spec['fam'] == 'unl' else 'split_by_timing'
        if exc is None:
            p.case(key=key, outcome=('unlinkable_answered', vname))
            p.violation('unlinkable:answered:%s' % kind,
                        'system that cannot be linked (%s, %d stations, ids %r) was answered instead of rejected: '
                        'base stations %r, success=%r; room %r' % (
                            vname, spec['n'], ids, sorted(sol.bs_poses), sol.success, spec), spec)
            res['verdict'] = 'answered'
        else:
            p.case(key=key, outcome=('rejected', type(exc).__name__, kind))
            p.add('unlinkable_rooms_rejected', 1)
            p.add('rejected_with_' + type(exc).__name__, 1)
            res['verdict'] = 'rejected with %s: %s' % (type(exc).__name__, exc)
        return res

    if exc is not None:
        p.case(key=key, outcome=('linkable_raises', type(exc).__name__))
        p.violation('linkable:raises:%s:%s' % (type(exc).__name__, cls),
                    'linkable room raised %s: %s; room %r' % (type(exc).__name__, exc, spec), spec)
        res['verdict'] = 'raised %r' % (exc,)
        return res

    # ---- 3. compare with the generating truth in the frame of the first sample -----------------
    first_pose = room['poses'][next(iter(groups[0]['poses']))]
    used_stations = sorted({s for g in groups for s in g['members']})
    problems = []
    dropped = len(cleaned) != len(matched) or any(a is not b for a, b in zip(cleaned, matched))
    if dropped:
        problems.append(('estimate:samples_dropped', 'estimator discarded %d of %d error-free samples as '
                         'outliers, their Crazyflie poses are not returned' % (len(matched) - len(cleaned),
                                                                                len(matched))))
    exp_ids = sorted(ids[s] for s in used_stations)
    # diagnostic only (goes into the signature, not into the verdict): was the estimator's initial
    # guess already far off (wrong IPPE mirror) or did the solver move away from a good guess?
    guess_err = 0.0
    for s in used_stations:
        gp = guess.bs_poses.get(ids[s])
        if gp is None:
            guess_err = float('inf')
        else:
            guess_err = max(guess_err, _pose_err(_rel(first_pose, room['stations'][s]), gp.rot_matrix,
                                                 gp.translation)[0])
    guess_state = 'guess_far_off' if guess_err > 0.05 else 'guess_close'
    worst_bs = (0.0, 0.0)
    worst_cf = (0.0, 0.0)
    if sorted(sol.bs_poses) != exp_ids:
        problems.append(('solve:bs_id_set', 'solution holds base stations %r, measured ones are %r' % (
            sorted(sol.bs_poses), exp_ids)))
    else:
        for s in used_stations:
            pose = sol.bs_poses[ids[s]]
            e = _pose_err(_rel(first_pose, room['stations'][s]), pose.rot_matrix, pose.translation)
            worst_bs = (max(worst_bs[0], e[0]), max(worst_bs[1], e[1]))
        if not (worst_bs[0] <= TOL_POS and worst_bs[1] <= TOL_ANG):
            problems.append(('solve:bs_pose_error', 'worst base-station error %.3g m / %.3g rad' % worst_bs))
    if dropped:
        pass
    elif len(sol.cf_poses) != len(groups):
        problems.append(('solve:cf_pose_count', '%d Crazyflie poses returned for %d samples' % (
            len(sol.cf_poses), len(groups))))
    else:
        for g, pose in zip(groups, sol.cf_poses):
            truth = _rel(first_pose, room['poses'][next(iter(g['poses']))])
            e = _pose_err(truth, pose.rot_matrix, pose.translation)
            worst_cf = (max(worst_cf[0], e[0]), max(worst_cf[1], e[1]))
        if not (worst_cf[0] <= TOL_POS and worst_cf[1] <= TOL_ANG):
            problems.append(('solve:cf_pose_error', 'worst Crazyflie-pose error %.3g m / %.3g rad' % worst_cf))
    if not sol.success:
        problems.append(('solve:not_success', 'solution.success = %r' % (sol.success,)))
    wp = max(worst_bs[0], worst_cf[0])
    wa = max(worst_bs[1], worst_cf[1])
    res.update({'worst_pos_err_m': wp, 'worst_ang_err_rad': wa, 'success': bool(sol.success),
                'initial_guess_worst_bs_pos_err_m': guess_err,
                'verdict': 'ok' if not problems else '; '.join(t for _, t in problems)})
    decade = lambda x: -99 if x <= 0 else int(math.floor(math.log10(x)))  # noqa: E731
    p.case(key=key, outcome=(cls, bool(sol.success), decade(wp), decade(wa), tuple(s for s, _ in problems)))
    p.add('linkable_rooms_solved', 1)
    p.add('pos_err_decade_1e%d' % decade(wp), 1)
    p.add('ang_err_decade_1e%d' % decade(wa), 1)
    if problems:
        # one violation per room: the first failing clause names it, the others are in the text
        p.violation('%s:%s:%s' % (problems[0][0], guess_state, cls),
                    '%s; initial guess was %.3g m off; %d stations, ids %r, %d samples, min deck elevation %.1f deg; '
                    'room %r' % ('; '.join(t for _, t in problems), guess_err, spec['n'], ids, len(groups),
                                 min_elev, spec), spec)
    if verbose:
        res['bs'] = {ids[s]: (sol.bs_poses[ids[s]].translation.tolist() if ids[s] in sol.bs_poses else None,
                              _rel(first_pose, room['stations'][s])[1].tolist()) for s in used_stations}
    return res


def _chunk(job):
    ci, specs = job
    p = Partial()
    wp = wa = 0.0
    min_elev, max_sweep = 90.0, 0.0
    for spec, want_sample in specs:
        r = run_room(spec, p)
        if r is None:
            continue
        min_elev = min(min_elev, r['min_deck_elevation_deg'])
        max_sweep = max(max_sweep, r['max_sweep_deg'])
        if r.get('verdict') == 'ok':
            # extrema over the rooms that satisfy the oracle (the margin to the tolerance)
            wp = max(wp, r['worst_pos_err_m'])
            wa = max(wa, r['worst_ang_err_rad'])
        elif 'worst_pos_err_m' in r:
            p.add('linkable_rooms_violating', 1)
        if want_sample:
            s = r['spec']
            p.sample({'family': s['fam'], 'stations': s['n'], 'ids': list(_ids_for(s['ids'], s['n'])),
                      'visibility': _vis_name(s), 'poses': s['m'], 'walk': s['walk'], 'heights': s['hp'],
                      'order': s['order'], 'timing': s['timing'], 'samples_after_matching': r['groups'],
                      'min_deck_elevation_deg': r['min_deck_elevation_deg'],
                      'worst_pos_err_m': r.get('worst_pos_err_m'), 'worst_ang_err_rad': r.get('worst_ang_err_rad'),
                      'verdict': r['verdict'][:80]})
    # per-chunk extrema travel through `extra` under unique names (merge adds; unique = unchanged)
    p.extra['_max_pos@%d' % ci] = wp
    p.extra['_max_ang@%d' % ci] = wa
    p.extra['_min_elev@%d' % ci] = min_elev
    p.extra['_max_sweep@%d' % ci] = max_sweep
    return p


def part_matcher(p):
    """The matcher with an explicit window argument (0 = identical time stamps only, 5 ms, the default 20 ms, 90 ms) on
    time patterns whose gaps never equal the window: samples = maximal runs anchored at their first measurement."""
    from cflib.localization.lighthouse_bs_vector import LighthouseBsVector
    from cflib.localization.lighthouse_bs_vector import LighthouseBsVectors
    from cflib.localization.lighthouse_sample_matcher import LighthouseSampleMatcher
    from cflib.localization.lighthouse_types import LhMeasurement
    vec = LighthouseBsVectors(LighthouseBsVector(0.01 * i, -0.02 * i) for i in range(4))
    patterns = {
        'same_stamp_per_pose_3ms_apart': [(1000 + 3000 * k, b) for k in range(6) for b in (0, 1)],
        'stations_2ms_apart_poses_50ms_apart': [(50000 * k + 2000 * b, b) for k in range(5) for b in (0, 1, 2)],
        'stations_7ms_apart_poses_200ms_apart': [(200000 * k + 7000 * b, b) for k in range(4) for b in (0, 1)],
        'epoch_sized_stamps': [(1700000000000000 + 31000 * k + 1000 * b, b) for k in range(4) for b in (0, 1)],
    }
    for pname, events in patterns.items():
        meas = [LhMeasurement(timestamp=ts / 1e6, base_station_id=b, angles=vec) for ts, b in events]
        for window_us, arg in ((0, 0), (0, 0.0), (5000, 0.005), (20000, None), (20000, 0.02), (90000, 0.09)):
            for min_bs in (0, 2):
                groups = []
                for ts, b in events:
                    gap = (ts - groups[-1][0]) if groups else None
                    if gap is not None and gap == window_us and window_us:
                        raise RuntimeError('harness: pattern %s puts a stamp exactly on the %d us boundary' % (pname, window_us))
                    if gap is not None and (gap < window_us or gap == window_us == 0):
                        groups[-1][1].append(b)
                    else:
                        groups.append((ts, [b]))
                want = [(t, sorted(set(bs))) for t, bs in groups if len(set(bs)) >= min_bs]
                kw = {} if arg is None else {'max_time_diff': arg}
                rp = {'part': 'matcher', 'pattern': pname, 'window': arg, 'min_bs': min_bs}
                p.case(key=('matcher', pname, repr(arg), min_bs), outcome=('matcher', len(want)))
                try:
                    got = LighthouseSampleMatcher.match(meas, min_nr_of_bs_in_match=min_bs, **kw)
                    got = [(round(s.timestamp * 1e6), sorted(s.angles_calibrated)) for s in got]
                except Exception as e:  # noqa
                    p.violation('match:raises:explicit_window', 'match(max_time_diff=%r, min_nr_of_bs_in_match=%d) on pattern %s '
                                'raised %r' % (arg, min_bs, pname, e), rp)
                    continue
                if got != want:
                    p.violation('match:grouping:explicit_window_%s' % ('zero' if window_us == 0 else 'default' if arg is None
                                                                       else 'other'),
                                'match(max_time_diff=%r, min_nr_of_bs_in_match=%d) on pattern %s: %d samples %r.., reference '
                                'grouping %d %r..' % (arg, min_bs, pname, len(got), got[:3], len(want), want[:3]), rp)


def run(ck):
    uniq = lattice(ck.quick)
    if not ck.quick:
        have = {_spec_key(s) for s in uniq}
        missing = [s for s in lattice(True) if _spec_key(s) not in have]
        if missing:
            raise RuntimeError('harness: thorough lattice does not contain quick room %r' % (missing[0],))
    ck.rule = (
        'every room of a stated finite lattice (no sampling): family geo = full product of stations n x '
        'mounting-spot tuples x height patterns over {1.5, 2.5, 4 m} x aim-offset sets (generic yaw/pitch/roll '
        'literals, never axis aligned) x visibility graphs {complete, chain, star, chain with one sample seen by '
        'all, mixed pairs/triples} x Crazyflie walks through a 4x4x4 position lattice (|x|,|y| <= 0.9 m, z 0..0.9 m, '
        'incl. floor-only walks) with yaw {0, 37, 90, 180, -135 deg} and tilt {0, (3, -2) deg} x pose counts, with '
        'ids/sample order/time pattern/station order inside a sample tied to the coordinates; family ord = for '
        'one geometry per n the full product ids {0..n-1, gaps up to 15, descending, mixed} x orders {every '
        'rotation, reversed; all permutations for 3 poses} x 7 time patterns {same stamp, 3 ms, span 19 ms then '
        'next pose 21 ms after the first stamp, epoch-sized stamps, single-station stragglers, one pose split into '
        'several windows} x 3 station orders x {complete, chain, mixed}; family unl = unlinkable systems {one '
        'station only, every split of the stations into two components incl. isolated stations, alternating or in '
        'blocks}. Rooms where a station sees the deck from less than %.0f deg above the deck plane or a sweep angle '
        'exceeds %.0f deg are outside the envelope and excluded (counted). distinct = distinct room '
        'specifications; a graph that needs more poses than the room has is not a room' % (
            MIN_DECK_ELEVATION_DEG, MAX_SWEEP_DEG))
    ck.assume('measurements come from an independent pin-hole projector written in the check (pose -> sensor in '
              'station frame -> V1 angles atan2(y,x), atan2(z,x)); error-free doubles, no calibration model')
    ck.assume('the claim covers the stated room lattice only, not the continuum of rooms; tolerances are the '
              "property's own 1 mm / 1 mrad")
    ck.assume('the pipeline is driven like examples/lighthouse/multi_bs_geometry_estimation.py: '
              'match(min_nr_of_bs_in_match=2) -> estimate -> solve(initial_guess, cleaned_samples); unlinkable '
              'systems use the default min_nr_of_bs_in_match so that single-station samples reach the estimator')
    ck.assume('exactly 20 ms between two stamps is never generated: the property does not say which side the '
              'window boundary belongs to')
    # evidence samples: four rooms of each family, evenly spaced through the family
    want = set()
    for fam in ('geo', 'ord', 'unl'):
        idx = [i for i, s in enumerate(uniq) if s['fam'] == fam]
        want.update(idx[(len(idx) * j) // 4] for j in range(4) if idx)
    tagged = [(s, i in want) for i, s in enumerate(uniq)]
    nchunks = max(1, min(len(uniq), 16 * 12))
    # heavy rooms (40 poses) are spread evenly: round-robin assignment
    jobs = [(ci, tagged[ci::nchunks]) for ci in range(nchunks)]
    ck.pmap(_chunk, jobs)
    if not ck.failing():
        part_matcher(ck)
    ext = {}
    for name in list(ck.extra):
        if name.startswith('_'):
            ext.setdefault(name.split('@')[0], []).append(ck.extra.pop(name))
    wp, wa = max(ext['_max_pos']), max(ext['_max_ang'])
    ck.note('rooms_in_lattice', len(uniq))
    ck.note('worst_position_error_m_over_passing_rooms', wp)
    ck.note('worst_angle_error_rad_over_passing_rooms', wa)
    ck.note('tolerance_margin_position', (TOL_POS / wp) if wp else None)
    ck.note('tolerance_margin_angle', (TOL_ANG / wa) if wa else None)
    ck.note('min_deck_elevation_deg_in_lattice', min(ext['_min_elev']))
    ck.note('max_sweep_angle_deg_in_lattice', max(ext['_max_sweep']))
    ck.exhaustive = True
    print('C09 rooms=%d (violating linkable rooms: %d); over the passing rooms: worst position error %.3g m '
          '(tolerance %.0e, margin x%.0f), worst angle error %.3g rad (margin x%.0f); min deck elevation %.1f deg, '
          'max sweep %.1f deg' % (
              len(uniq), ck.extra.get('linkable_rooms_violating', 0), wp, TOL_POS, TOL_POS / wp if wp else 0, wa, TOL_ANG / wa if wa else 0,
              min(ext['_min_elev']), max(ext['_max_sweep'])))


def replay(ck, data):
    if data.get('part') == 'matcher':
        part_matcher(ck)
        for v in ck.violations:
            print(' ', v['sig'], '::', v['what'])
        return
    r = run_room(data, ck, verbose=True)
    if r is None:
        print('spec is not a room of the lattice (graph needs more poses, or outside the envelope):', data)
        return
    print('room:', data)
    for k in ('groups', 'min_deck_elevation_deg', 'max_sweep_deg', 'initial_guess_worst_bs_pos_err_m',
              'worst_pos_err_m', 'worst_ang_err_rad', 'success', 'verdict'):
        if k in r:
            print('  %s: %r' % (k, r[k]))
    for bs_id, (got, exp) in sorted(r.get('bs', {}).items()):
        print('  base station %d: solved position %r, true position in first-sample frame %r' % (bs_id, got, exp))
