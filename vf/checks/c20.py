"""C20 — link URIs select the right driver and parse to the right radio settings.

Exhaustive enumeration of the radio URI grammar product (dongle id x channel 0..125 x data rate x
address strings of 1..10 hex digits in either case x omitted trailing fields x query options)
through the real ``RadioDriver.parse_uri`` against an independent parser written here; the same
URIs through the real ``get_link_driver``/``RadioDriver.connect``/``_SharedRadio``/``Crazyradio``
stack on top of a scripted USB dongle (what matters is the channel/rate/address that are in force
on the dongle when a packet is transmitted); ``scan_interface`` over scripted populations of
Crazyflies (with byte-reversed decoys); scheme dispatch for every driver list; and unknown /
malformed URIs through a real ``Crazyflie.open_link``.

No real USB, socket or serial port is ever touched: the device enumeration functions and the
transport constructors are rebound inside the imported cflib modules (the check runs in its own
process), and ``usb.core.find`` is booby-trapped.
"""
import array
import contextlib
import io
import logging
import os
import re
import threading
import time

os.environ.pop('USE_CFLINK', None)
os.environ.pop('CRTP_PCAP_LOG', None)

from vf.core import HarnessError  # noqa: E402
from vf.core import LibraryHang  # noqa: E402
from vf.core import bounded  # noqa: E402
from vf.core import HANG_LIMIT  # noqa: E402
from vf.core import Partial  # noqa: E402

ID = 'C20'
LEVEL = 'exploration'

# ---------------------------------------------------------------------------------------------
# The finite alphabet
# ---------------------------------------------------------------------------------------------

SERIALS = ('E7E7E7E701', 'ABCDEF9876', '0123456789')      # serial numbers of the three fake dongles

# (token in the URI, dongle index it names, class)
DONGLES = (
    ('0', 0, 'index'), ('1', 1, 'index'), ('2', 2, 'index'), ('9', 9, 'index'), ('12', 12, 'index'),
    ('E7E7E7E701', 0, 'serial_upper'), ('e7e7e7e701', 0, 'serial_lower'),
    ('ABCDEF9876', 1, 'serial_upper'), ('abcdef9876', 1, 'serial_lower'), ('AbCdEf9876', 1, 'serial_mixed'),
    ('0123456789', 2, 'serial_numeric'),
)
CONNECTABLE = tuple(d for d in DONGLES if d[1] < len(SERIALS))

RATES = (('250K', 0), ('1M', 1), ('2M', 2))      # wire codes of the Crazyradio USB protocol
RATE_NAME = {0: '250K', 1: '1M', 2: '2M'}
DEFAULT_CHANNEL = 2
DEFAULT_RATE = 2
DEFAULT_ADDRESS = (0xE7,) * 5

QUERIES = (
    ('', None), ('?rate_limit=100', 100), ('?safelink=0', None), ('?safelink=0&rate_limit=7', 7),
    ('?rate_limit=1000&safelink=0', 1000), ('?safelink=0&autoping=0&ackfilter=0', None),
    ('?rate_limit=1', 1), ('?autoping=0&rate_limit=250&ackfilter=0', 250),
)

_ADDR_BASES = ('123456789A', 'E7E7E7E7E7', 'E7E7E7E701', 'FFFFFFFFFF', '0000000000', 'ABCDEFABCD', '0102030405',
               'A0B0C0D0E0', '00000000FF', 'FEDCBA9876', '0A0B0C0D0E')


def _mixed(s):
    out, flip = [], False
    for ch in s:
        if ch.isalpha():
            out.append(ch.lower() if flip else ch.upper())
            flip = not flip
        else:
            out.append(ch)
    return ''.join(out)


def _address_alphabet():
    seen, out = set(), []
    for b in _ADDR_BASES:
        for n in range(1, 11):
            for s in (b[-n:], b[:n]):
                for v in (s, s.lower(), _mixed(s)):
                    if v not in seen:
                        seen.add(v)
                        out.append(v)
    return tuple(out)


ADDRESSES = _address_alphabet()
# a smaller alphabet (still every length and both cases) for the parts that run real threads
CORE_ADDRESSES = tuple(a for a in ADDRESSES if a.upper() in set(
    b[-n:] for b in ('123456789A', 'E7E7E7E701', 'ABCDEFABCD', '00000000FF') for n in range(1, 11)) | set(
    b[:n] for b in ('0A0B0C0D0E',) for n in range(1, 11)))


def addr_bytes(s):
    """Independent reading of an address field: the hex number, 5 bytes, most significant first
    (= the order of the SET_RADIO_ADDRESS data stage, i.e. as written in the URI)."""
    return tuple(int(s, 16).to_bytes(5, 'big'))


def addr_class(s):
    if s is None:
        return 'none'
    return 'len10' if len(s) == 10 else 'short'


def case_class(s):
    if s is None or not any(c.isalpha() for c in s):
        return 'nocase'
    if s == s.upper():
        return 'upper'
    if s == s.lower():
        return 'lower'
    return 'mixed'


_RADIO_RE = re.compile(r'radio://([0-9A-Za-z]+)(?:/([0-9]+)(?:/(250K|1M|2M)(?:/([0-9A-Fa-f]{1,10}))?)?)?'
                       r'(?:\?([^#]*))?')


def ref_parse(uri, serials=SERIALS):
    """Independent parser for well-formed radio URIs. None = outside the grammar this check
    classifies as well-formed."""
    m = _RADIO_RE.fullmatch(uri)
    if not m:
        return None
    dongle, ch, rate, addr, query = m.groups()
    if re.fullmatch(r'[0-9]{1,9}', dongle):
        devid = int(dongle)
    elif dongle.upper() in serials:
        devid = serials.index(dongle.upper())
    else:
        return None
    channel = DEFAULT_CHANNEL if ch is None else int(ch)
    if channel > 125:
        return None
    datarate = DEFAULT_RATE if rate is None else dict(RATES)[rate]
    address = DEFAULT_ADDRESS if addr is None else addr_bytes(addr)
    rate_limit = None
    if query:
        for kv in query.split('&'):
            k, _, v = kv.partition('=')
            if k == 'rate_limit':
                if not re.fullmatch(r'[0-9]+', v):
                    return None
                rate_limit = int(v)
    return devid, channel, datarate, address, rate_limit


def build_uri(dongle, channel=None, rate=None, addr=None, query=''):
    u = 'radio://' + dongle
    for f in (channel, rate, addr):
        if f is None:
            break
        u += '/' + str(f)
    return u + query


def shape_of(channel, rate, addr):
    return 'D' + ('C' if channel is not None else '') + ('R' if rate is not None else '') + (
        'A' if addr is not None else '')


# ---------------------------------------------------------------------------------------------
# Scripted environment (USB dongles, USB Crazyflies, sockets, serial ports, prrt)
# ---------------------------------------------------------------------------------------------

class _Ctx:
    def dispose(self, *a, **k):
        pass

    def managed_claim_interface(self, *a, **k):
        pass


class FakeDongle:
    """USB-level model of one Crazyradio (vendor requests + bulk endpoints)."""
    manufacturer = 'Bitcraze AB'
    product = 'Crazyradio PA USB Dongle'

    def __init__(self, world, index, serial):
        self.world = world
        self.index = index
        self.serial_number = serial
        self.bcdDevice = 0x0053
        self._ctx = _Ctx()
        self.channel = None
        self.rate = None
        self.address = None
        self._resp = None

    def set_configuration(self, *a, **k):
        pass

    def reset(self):
        pass

    def ctrl_transfer(self, bmRequestType, bRequest, wValue=0, wIndex=0, data_or_wLength=None, timeout=None):
        if bRequest == 0x01:
            self.channel = wValue
        elif bRequest == 0x02:
            self.address = tuple(int(b) for b in data_or_wLength)
        elif bRequest == 0x03:
            self.rate = wValue
        return 0

    def write(self, endpoint, data, timeout=None):
        pkt = tuple(int(b) for b in data)
        self._resp = self.world.transmit(self.index, self.channel, self.rate, self.address, pkt)
        return len(pkt)

    def read(self, endpoint, size, timeout=None):
        r, self._resp = self._resp, None
        if r is None:
            return array.array('B', [0])
        return array.array('B', [1] + list(r))


class FakeCfUsbDev:
    """USB-level model of a Crazyflie on a cable."""
    manufacturer = 'Bitcraze AB'
    port_number = 1

    def __init__(self, world, index):
        self.world = world
        self.index = index
        self.bcdDevice = 0x0100
        self._ctx = _Ctx()

    def set_configuration(self, *a, **k):
        pass

    def reset(self):
        pass

    def ctrl_transfer(self, *a, **k):
        self.world.io.append(('cfusb_ctrl', self.index))
        return 0

    def write(self, endpoint, data, timeout=None):
        self.world.io.append(('cfusb_write', self.index))
        return len(data)

    def read(self, endpoint, size, timeout=None):
        time.sleep(0.002)
        return array.array('B')


class _FakeSock:
    def __init__(self, world):
        self.world = world

    def connect(self, addr):
        self.world.io.append(('udp_connect', addr))

    def sendto(self, data, addr):
        self.world.io.append(('udp_sendto', addr))
        return len(data)

    def recvfrom(self, n):
        time.sleep(0.01)
        return b'', None

    def close(self):
        pass


class _FakeSocketModule:
    AF_INET = 2
    SOCK_DGRAM = 2
    SOCK_STREAM = 1
    SHUT_WR = 1

    def __init__(self, world):
        self.world = world

    def socket(self, *a, **k):
        return _FakeSock(self.world)


class _FakeTransport:
    """CPX transport (TCP socket or UART) that delivers an empty CRTP packet every 20 ms."""

    def __init__(self, world, kind, *args):
        self.world = world
        self.kind = kind
        world.io.append((kind + '_open',) + args)
        self._closed = threading.Event()

    def writePacket(self, packet):
        self.world.io.append((self.kind + '_write', bytes(packet.wireData)))

    def readPacket(self):
        from cflib.cpx import CPXFunction, CPXPacket, CPXTarget
        if self._closed.wait(0.02):
            return CPXPacket(function=CPXFunction.TEST, destination=CPXTarget.HOST, source=CPXTarget.STM32)
        return CPXPacket(function=CPXFunction.CRTP, destination=CPXTarget.HOST, source=CPXTarget.STM32,
                         data=bytearray())

    def disconnect(self):
        self._closed.set()


class _FakePort:
    def __init__(self, name, device):
        self.name = name
        self.device = device


class _FakeListPorts:
    def comports(self):
        return [_FakePort('ttyACM0', '/dev/ttyACM0'), _FakePort(None, '/dev/ttyUSB1')]


class _FakePrrtModule:
    class TimeoutException(Exception):
        pass

    def __init__(self, world):
        mod = self

        class PrrtSocket:
            def __init__(self, local, maximum_payload_size=None, target_delay=None):
                world.io.append(('prrt_open', local, target_delay))

            def connect(self, addr):
                world.io.append(('prrt_connect', addr))

            def send(self, data):
                pass

            def receive_asap(self):
                raise mod.TimeoutException()
        self.PrrtSocket = PrrtSocket


def _forbidden(name):
    def f(*a, **k):
        raise HarnessError('real I/O reached: ' + name)
    return f


class _ForbiddenModule:
    def __init__(self, name):
        self._name = name

    def __getattr__(self, attr):
        raise HarnessError('real I/O reached: %s.%s' % (self._name, attr))


def ack_all(idx, ch, rate, addr, pkt):
    return ()


class World:
    def __init__(self):
        self.dongles = [FakeDongle(self, i, s) for i, s in enumerate(SERIALS)]
        self.cfusb = [FakeCfUsbDev(self, 0), FakeCfUsbDev(self, 1)]
        self.air = ack_all          # (dongle, channel, rate, address, packet) -> ack payload or None
        self.log = []               # (dongle, channel, rate, address, packet, acked)
        self.io = []                # constructor calls of the other scripted transports
        self.cond = threading.Condition()

    def transmit(self, idx, ch, rate, addr, pkt):
        payload = self.air(idx, ch, rate, addr, pkt)
        with self.cond:
            self.log.append((idx, ch, rate, addr, pkt, payload is not None))
            self.cond.notify_all()
        return payload

    def reset_log(self):
        with self.cond:
            del self.log[:]
        del self.io[:]

    _slow_once = [False]

    def wait_writes(self, n, timeout=None):
        # real threads, real time: generous on a loaded machine (90 s); once a wait has really expired in this process the
        # tree does not transmit, and the remaining cases need not wait that long each
        if timeout is None:
            timeout = 10.0 if self._slow_once[0] else 90.0
        with self.cond:
            ok = self.cond.wait_for(lambda: len(self.log) >= n, timeout)
        if not ok:
            self._slow_once[0] = True
        return ok

    def snapshot(self):
        with self.cond:
            return list(self.log)


def install(world, serial_driver=False, prrt=True, pyserial=True):
    """Rebind the I/O entry points inside the imported cflib modules and rebuild CLASSES."""
    import usb.core
    import cflib.crtp
    import cflib.cpx.transports as tr
    import cflib.crtp.prrtdriver as pd
    import cflib.crtp.radiodriver as rd
    import cflib.crtp.serialdriver as sd
    import cflib.crtp.tcpdriver as td
    import cflib.crtp.udpdriver as ud
    import cflib.drivers.cfusb as cu
    import cflib.drivers.crazyradio as cr

    logging.disable(logging.CRITICAL)
    usb.core.find = _forbidden('usb.core.find')

    def find_radios(serial=None):
        if serial is not None:
            for d in world.dongles:
                if d.serial_number == serial:
                    return d
        return list(world.dongles)

    cr._find_devices = find_radios
    cu._find_devices = lambda: list(world.cfusb)
    tr.socket = _ForbiddenModule('cflib.cpx.transports.socket')
    td.SocketTransport = lambda host, port: _FakeTransport(world, 'tcp', host, port)
    ud.socket = _FakeSocketModule(world)
    sd.UARTTransport = lambda dev, baud: _FakeTransport(world, 'uart', dev, baud)
    sd.list_ports = _FakeListPorts()
    sd.found_serial = bool(pyserial)      # False: the optional pyserial package is not installed
    if prrt:
        pd.prrt = _FakePrrtModule(world)
        pd.prrt_installed = True
    else:
        pd.prrt_installed = False
    # forget dongles opened by earlier cases: the manager's registry is class-level private state (any list it holds)
    for _v in vars(rd.RadioManager).values():
        if isinstance(_v, list):
            del _v[:]
    del cflib.crtp.CLASSES[:]
    cflib.crtp.init_drivers(enable_serial_driver=serial_driver)
    return cflib.crtp


def drain_threads(timeout=20.0):
    """Join the non-daemon threads the library may have left (retry timers)."""
    me = threading.current_thread()
    for t in threading.enumerate():
        if t is me or t.daemon or t is threading.main_thread():
            continue
        t.join(timeout)
        if t.is_alive():
            raise HarnessError('non-daemon thread still alive at the end of a job: %r' % (t,))


# ---------------------------------------------------------------------------------------------
# Part A: parse_uri over the grammar product
# ---------------------------------------------------------------------------------------------

def _cmp_parse(got, exp):
    if not isinstance(got, (tuple, list)) or len(got) != 5:
        return ['not_5_tuple']
    bad = []
    devid, ch, dr, addr, rl = got
    if not isinstance(devid, int) or devid != exp[0]:
        bad.append('dongle')
    if not isinstance(ch, int) or ch != exp[1]:
        bad.append('channel')
    if not isinstance(dr, int) or dr != exp[2]:
        bad.append('datarate')
    try:
        a = tuple(addr)
        if len(a) != 5 or not all(isinstance(b, int) for b in a) or a != exp[3]:
            bad.append('address')
    except TypeError:
        bad.append('address')
    if exp[4] is None:
        if rl is not None:
            bad.append('rate_limit')
    elif not isinstance(rl, int) or rl != exp[4]:
        bad.append('rate_limit')
    return bad


def _sig_class(clause, shape, dkind, addr):
    """Input class that goes into a signature: only the dimensions the clause can depend on."""
    if clause == 'dongle':
        return 'dongle=' + dkind
    if clause == 'address':
        return 'shape=%s:addr=%s:case=%s' % (shape, addr_class(addr), case_class(addr))
    if clause in ('channel', 'datarate', 'rate_limit'):
        return 'shape=' + shape
    coarse = dkind if dkind in ('index', 'serial_numeric') else 'serial'
    return 'shape=%s:dongle=%s:addr=%s' % (shape, coarse, addr_class(addr))


def parse_case(p, uri, exp, shape, dkind, addr, qtext, want_sample=False):
    from cflib.crtp.radiodriver import RadioDriver
    cls = _sig_class('raises', shape, dkind, addr)
    rp = {'part': 'parse', 'uri': uri}
    try:
        got = RadioDriver.parse_uri(uri)
    except HarnessError:
        raise
    except Exception as e:  # noqa
        p.case(key=uri, outcome=('raises', shape, dkind))
        p.violation('parse:raises:' + cls,
                    'RadioDriver.parse_uri(%r) raised %s: %s; the URI is well-formed and names dongle %d, '
                    'channel %d, rate %s, address %s, rate limit %r'
                    % (uri, type(e).__name__, e, exp[0], exp[1], RATE_NAME[exp[2]],
                       bytes(exp[3]).hex().upper(), exp[4]), rp)
        return None
    p.case(key=uri, outcome=(shape, dkind, 0 if addr is None else len(addr), case_class(addr), exp[2],
                             qtext, exp[4] is not None))
    if want_sample:
        p.sample({'part': 'parse_uri', 'uri': uri, 'returned': repr(got),
                  'reference': repr(exp)})
    for clause in _cmp_parse(got, exp):
        p.violation('parse:%s:%s' % (clause, _sig_class(clause, shape, dkind, addr)),
                    'RadioDriver.parse_uri(%r) returned %r; independent parser says dongle %d, channel %d, '
                    'rate code %d (%s), address bytes %r, rate limit %r'
                    % (uri, got, exp[0], exp[1], exp[2], RATE_NAME[exp[2]], exp[3], exp[4]), rp)
    return got


def _expected(dindex, channel, ratecode, addr, rl):
    return (dindex, DEFAULT_CHANNEL if channel is None else channel,
            DEFAULT_RATE if ratecode is None else ratecode,
            DEFAULT_ADDRESS if addr is None else addr_bytes(addr), rl)


def part_parse(args):
    """One dongle token x one rate: all channels x all address strings x queries, and the three
    shorter shapes."""
    di, ri, full_queries = args
    token, dindex, dkind = DONGLES[di]
    rname, rcode = RATES[ri]
    p = Partial()
    install(World())

    def one(channel, rate, rc, addr, q, want=False):
        uri = build_uri(token, channel, rate, addr, q[0])
        exp = _expected(dindex, channel, rc, addr, q[1])
        if ref_parse(uri) != exp:
            raise HarnessError('reference parser disagrees with the generator on %r' % uri)
        parse_case(p, uri, exp, shape_of(channel, rate, addr), dkind, addr, q[0], want)

    # shorter shapes (only once per dongle token, attached to the first rate job)
    if ri == 0:
        for q in QUERIES:
            one(None, None, None, None, q, want=(q[0] == '' and di == 5))
            for ch in range(126):
                one(ch, None, None, None, q)
    for ch in range(126):
        for q in QUERIES:
            one(ch, rname, rcode, None, q)
        reduced = ch not in (0, 2, 80, 125)
        for ai, addr in enumerate(ADDRESSES):
            for q in QUERIES:
                if q[0] and not full_queries and reduced:
                    continue
                one(ch, rname, rcode, addr, q,
                    want=(ch == 80 and q[0] == '' and (di, ri) in ((0, 1), (9, 2)) and ai == (7 * di + 31 * ri) % len(ADDRESSES)))
    return p


# ---------------------------------------------------------------------------------------------
# Part B: the same URIs through get_link_driver -> settings in force on the dongle
# ---------------------------------------------------------------------------------------------

N_WRITES = 11      # 10 safelink probes + at least one null packet


def connect_case(p, world, crtp, uri, exp, shape, dkind, addr, want_sample=False, scan_between=False):
    from cflib.crtp.radiodriver import RadioDriver
    cls = _sig_class('raises', shape, dkind, addr)
    rp = {'part': 'connect', 'uri': uri, 'scan_between': scan_between}
    try:
        RadioDriver.parse_uri(uri)
    except Exception:  # noqa  (reported by the parse part, which covers a superset of these URIs)
        p.case(key=('connect', uri), outcome='parse_raises')
        return
    world.air = ack_all
    world.reset_log()
    errors = []
    try:
        link = bounded('get_link_driver', crtp.get_link_driver, uri, None, errors.append)
    except HarnessError:
        raise
    except Exception as e:  # noqa
        p.case(key=('connect', uri), outcome=('raises', shape))
        p.violation('connect:raises:' + cls, 'get_link_driver(%r) raised %s: %s although dongle %d is plugged in'
                    % (uri, type(e).__name__, e, exp[0]), rp)
        return
    if type(link) is not RadioDriver:
        p.case(key=('connect', uri), outcome=('wrong_driver', shape))
        p.violation('connect:wrong_driver:' + cls, 'get_link_driver(%r) returned %r, not a RadioDriver' % (uri, link), rp)
        if link is not None:
            bounded('close', link.close)
        return
    seen = world.wait_writes(N_WRITES)
    skip = (0, 0)
    if scan_between and seen:
        # while this link is open another driver object scans for Crazyflies (the dongle is shared and retuned by the
        # scan): the link's packets after the scan must again be on the URI's setting
        n1 = len(world.snapshot())
        try:
            bounded('scan_interface', RadioDriver().scan_interface, None)
        except HarnessError:
            raise
        except Exception as e:  # noqa
            p.violation('connect:scan_while_open_raises:' + cls, 'scan_interface() while the link for %r is open raised %s: %s'
                        % (uri, type(e).__name__, e), rp)
        n2 = len(world.snapshot())
        skip = (n1, n2)
        if not world.wait_writes(n2 + N_WRITES):
            p.violation('connect:no_transmission_after_scan:' + cls, 'link for %r transmitted only %d packets after another '
                        'driver had scanned' % (uri, len(world.snapshot()) - n2), rp)
    bounded('close', link.close)
    log = world.snapshot()
    log = log[:skip[0]] + log[skip[1]:]
    p.case(key=('connect', uri), outcome=(exp[0], exp[2], shape, 0 if addr is None else len(addr)))
    p.add('radio_packets_checked_at_least', min(len(log), N_WRITES))
    if want_sample and log:
        e = log[-1]
        p.sample({'part': 'connect', 'uri': uri, 'packets_checked_at_least': min(len(log), N_WRITES),
                  'on_air': {'dongle': e[0], 'channel': e[1], 'rate_code': e[2],
                             'address': bytes(e[3]).hex().upper() if e[3] else None}})
    if not seen:
        p.violation('connect:no_transmission:' + cls, 'link for %r transmitted only %d packets' % (uri, len(log)), rp)
    if errors:
        p.violation('connect:link_error:' + cls, 'link for %r reported %r although every packet is acked'
                    % (uri, errors[0][:80]), rp)
    for idx, ch, rate, a, pkt, acked in log:
        wrong = None
        if idx != exp[0]:
            wrong = 'dongle'
        elif ch != exp[1]:
            wrong = 'channel'
        elif rate != exp[2]:
            wrong = 'datarate'
        elif a != exp[3]:
            wrong = 'address'
        if wrong:
            p.violation('connect:wrong_%s:%s' % (wrong, _sig_class(wrong, shape, dkind, addr)),
                        'link for %r transmitted on dongle %r channel %r rate code %r address %r; the URI names dongle %d '
                        'channel %d rate code %d address %r' % (uri, idx, ch, rate, a, exp[0], exp[1], exp[2], exp[3]), rp)
            break


def connect_cases(thorough):
    """Deterministic list of (token, dindex, dkind, channel, rate, rcode, addr, query)."""
    out = []
    some_addr = (None, 'E7E7E7E701', '1', 'a0b0c0d0e0')
    for token, dindex, dkind in CONNECTABLE:
        primary = token in ('0', 'abcdef9876')
        chans = range(126) if (primary or thorough) else (0, 2, 80, 125)
        for ch in chans:
            for rname, rcode in RATES:
                for addr in some_addr:
                    out.append((token, dindex, dkind, ch, rname, rcode, addr, ''))
        # shorter shapes and queries
        out.append((token, dindex, dkind, None, None, None, None, ''))
        for ch in (0, 2, 80, 125):
            out.append((token, dindex, dkind, ch, None, None, None, ''))
            out.append((token, dindex, dkind, ch, '1M', 1, 'ABCDEF', '?rate_limit=1000&safelink=0'))
            out.append((token, dindex, dkind, ch, '250K', 0, None, '?safelink=0'))
        if primary or thorough:
            addrs = ADDRESSES if thorough else CORE_ADDRESSES
            for ch in (0, 80, 125):
                for rname, rcode in RATES:
                    for addr in addrs:
                        out.append((token, dindex, dkind, ch, rname, rcode, addr, ''))
    # de-duplicate, keep order
    seen, res = set(), []
    for c in out:
        if c not in seen:
            seen.add(c)
            res.append(c)
    return res


def part_connect(args):
    thorough, chunk, nchunks = args
    p = Partial()
    world = World()
    crtp = install(world)
    cases = connect_cases(thorough)
    for i, (token, dindex, dkind, ch, rname, rcode, addr, q) in enumerate(cases):
        if i % nchunks != chunk:
            continue
        uri = build_uri(token, ch, rname, addr, q)
        rl = dict(QUERIES)[q]
        exp = _expected(dindex, ch, rcode, addr, rl)
        if ref_parse(uri) != exp:
            raise HarnessError('reference parser disagrees with the generator on %r' % uri)
        connect_case(p, world, crtp, uri, exp, shape_of(ch, rname, addr), dkind, addr,
                     want_sample=(chunk in (0, 5) and i == chunk + nchunks * 3), scan_between=(i % 5 == 2))
    drain_threads()
    return p


# ---------------------------------------------------------------------------------------------
# Part C: scan_interface
# ---------------------------------------------------------------------------------------------

SCAN_ADDRESSES = (None, 0xE7E7E7E7E7, 0xE7E7E7E701, 0x1, 0x0, 0xFF, 0xABC, 0x0102030405, 0xFFFFFFFFFF,
                  0xA0B0C0D0E0, 0x00E7E7E7E7, 0xE7E7E7E700, 0x0A0B0C0D0E)


def scan_populations(thorough):
    """name -> set of (channel, ratecode) where a Crazyflie with the scanned address listens."""
    pops = [('empty', frozenset()), ('full', frozenset((c, r) for c in range(126) for r in range(3)))]
    for k in range(7):
        pops.append(('mod7_%d' % k, frozenset((c, r) for c in range(126) for r in range(3) if (c + 3 * r) % 7 == k)))
    singles = [(c, r) for c in range(126) for r in range(3)] if thorough else [
        (c, r) for c in (0, 1, 2, 9, 10, 80, 99, 100, 124, 125) for r in range(3)]
    for c, r in singles:
        pops.append(('single_%d_%s' % (c, RATE_NAME[r]), frozenset([(c, r)])))
    return pops


def scan_addr_class(address):
    if address is None:
        return 'none'
    if address == 0xE7E7E7E7E7:
        return 'default'
    return 'len10' if address >= 1 << 36 else 'short'


def scan_case(p, world, address, popname, present, want_sample=False):
    from cflib.crtp.radiodriver import RadioDriver
    abytes = DEFAULT_ADDRESS if address is None else tuple(address.to_bytes(5, 'big'))
    rev = tuple(reversed(abytes))
    decoys = [rev] if rev != abytes else [abytes[:4] + (abytes[4] ^ 1,)]
    if abytes != DEFAULT_ADDRESS:
        decoys.append(DEFAULT_ADDRESS)
    acls = scan_addr_class(address)
    rp = {'part': 'scan', 'address': address, 'population': popname}

    def air(idx, ch, rate, addr, pkt):
        if idx != 0:
            return None
        if (ch, rate) in present:
            return () if addr == abytes else None
        return () if addr in decoys else None      # decoys listen wherever the real ones do not

    world.air = air
    world.reset_log()
    try:
        found = bounded('scan_interface', RadioDriver().scan_interface, address)
    except HarnessError:
        raise
    except Exception as e:  # noqa
        p.case(key=('scan', address, popname), outcome='raises')
        p.violation('scan:raises:addr=' + acls, 'scan_interface(%r) raised %s: %s' % (address, type(e).__name__, e), rp)
        return
    acked = set((idx, ch, rate, a) for idx, ch, rate, a, pkt, ok in world.snapshot() if ok)
    p.case(key=('scan', address, popname), outcome=(acls, len(present), len(found)))
    reported = []
    for entry in found:
        try:
            uri = entry[0]
            assert isinstance(uri, str)
        except Exception:  # noqa
            p.violation('scan:entry_shape:addr=' + acls, 'scan_interface(%r) returned entry %r' % (address, entry), rp)
            continue
        p.add('scan_uris_checked')
        ref = ref_parse(uri)
        if ref is None:
            p.violation('scan:uri_outside_grammar:addr=' + acls, 'scan_interface(%r) reported %r' % (address, uri), rp)
            continue
        try:
            got = RadioDriver.parse_uri(uri)
        except Exception as e:  # noqa
            p.violation('scan:reported_uri_does_not_parse:addr=' + acls,
                        'scan_interface(%r) reported %r, parse_uri raises %r' % (address, uri, e), rp)
            continue
        bad = _cmp_parse(got, ref)
        if bad:
            p.violation('scan:reported_uri_parse_mismatch:%s:addr=%s' % (bad[0], acls),
                        'reported %r: parse_uri -> %r, independent parser -> %r' % (uri, got, ref), rp)
            continue
        triple = (got[0], got[1], got[2], tuple(got[3]))
        reported.append(triple)
        if triple not in acked:
            p.violation('scan:reported_uri_not_where_it_answered:addr=' + acls,
                        'scan_interface(%r) reported %r = dongle %d channel %d rate code %d address %r, but no Crazyflie '
                        'answered there (answers were seen at %r)' % (address, uri, got[0], got[1], got[2], tuple(got[3]),
                                                                     sorted(acked)[:4]), rp)
        elif tuple(got[3]) != abytes:
            p.violation('scan:reported_uri_wrong_address:addr=' + acls,
                        'scan_interface(%r) reported %r whose address is %r, scanned address is %r'
                        % (address, uri, tuple(got[3]), abytes), rp)
    expected = set((0, c, r, abytes) for c, r in present)
    missing = expected - set(reported)
    if missing:
        m = sorted(missing)[0]
        p.violation('scan:present_crazyflie_not_reported:addr=' + acls,
                    'scan_interface(%r): a Crazyflie listens on channel %d rate code %d address %r but no reported URI '
                    'parses back to it (%d reported)' % (address, m[1], m[2], m[3], len(found)), rp)
    if len(reported) != len(set(reported)):
        p.violation('scan:duplicate_report:addr=' + acls, 'scan_interface(%r) reported a setting twice' % (address,), rp)
    if want_sample:
        p.sample({'part': 'scan_interface', 'address': None if address is None else '%X' % address,
                  'population': popname, 'crazyflies_present': len(present),
                  'reported': [e[0] for e in found[:3]]})


def part_scan(args):
    thorough, ai = args
    p = Partial()
    world = World()
    install(world)
    address = SCAN_ADDRESSES[ai]
    for popname, present in scan_populations(thorough):
        scan_case(p, world, address, popname, present, want_sample=(popname == 'mod7_3' and ai == 2))
    drain_threads()
    return p


# ---------------------------------------------------------------------------------------------
# Part D: dispatch — which class claims which URI
# ---------------------------------------------------------------------------------------------

WELL_FORMED = (
    ('radio', 'radio://0/80/2M'), ('radio', 'radio://1/10/250K/E7E7E7E701'), ('radio', 'radio://2/0'),
    ('radio', 'radio://abcdef9876/5/1M/1?rate_limit=1000'), ('radio', 'radio://0123456789/125/2M/a0b0c0d0e0?safelink=0'),
    ('usb', 'usb://0'), ('usb', 'usb://1'),
    ('serial', 'serial://ttyACM0'), ('serial', 'serial:///dev/ttyUSB1'),
    ('udp', 'udp://127.0.0.1:7777'), ('udp', 'udp://192.168.0.10:1808'),
    ('prrt', 'prrt://10.8.0.208:5000'), ('prrt', 'prrt://10.8.0.208:5000/50'),
    ('tcp', 'tcp://192.168.4.1:5000'), ('tcp', 'tcp://aideck.local:5000'),
)

# (class, uri): URIs the statement classifies as "unknown scheme or malformed"
BAD = (
    ('unknown_scheme', 'foo://0/80/2M'), ('unknown_scheme', 'http://example.com/'), ('unknown_scheme', 'debug://0/0'),
    ('unknown_scheme', 'bluetooth://1'), ('unknown_scheme', 'cpx://192.168.4.1:5000'),
    ('unknown_scheme', 'radios://0/80/2M'), ('unknown_scheme', 'xradio://0/80/2M'), ('unknown_scheme', 'usbx://0'),
    ('unknown_scheme', 'tcpip://192.168.4.1:5000'), ('unknown_scheme', 'sudp://127.0.0.1:7777'),
    ('no_scheme', 'bogus'), ('no_scheme', '0/80/2M'), ('no_scheme', '://'), ('no_scheme', 'radio'), ('no_scheme', 'usb'),
    ('empty', ''),
    ('usb_bad_id', 'usb://x'), ('usb_bad_id', 'usb://'), ('usb_bad_id', 'usb://1a'), ('usb_bad_id', 'usb://zero'),
    ('radio_bad_channel', 'radio://0/x/2M'), ('radio_bad_channel', 'radio://0/8a/2M'),
    ('radio_bad_channel', 'radio://0/0x10/2M'), ('radio_bad_channel', 'radio://0/1.5/2M'),
    ('radio_bad_channel', 'radio://0//2M'), ('radio_bad_channel', 'radio://0/2M'),
    ('radio_bad_channel', 'radio://0/E7E7E7E7E7'), ('radio_bad_channel', 'radio://0/channel80/2M/E7E7E7E7E7'),
    ('radio_bad_rate', 'radio://0/80/3M'), ('radio_bad_rate', 'radio://0/80/500K/E7E7E7E7E7'),
    ('radio_bad_rate', 'radio://0/80/2'), ('radio_bad_rate', 'radio://0/80/E7E7E7E7E7'),
    ('radio_bad_rate', 'radio://0/80/1M2M/E7E7E7E7E7'), ('radio_bad_rate', 'radio://0/80/fast'),
    ('radio_addr_not_hex', 'radio://0/80/2M/XYZ'), ('radio_addr_not_hex', 'radio://0/80/2M/E7E7E7E7G7'),
    ('radio_addr_not_hex', 'radio://0/80/2M/E7-E7-E7-E7-E7'), ('radio_addr_not_hex', 'radio://0/80/1M/E7E7E7E7ZZ'),
    ('radio_addr_not_hex', 'radio://0/80/250K/g'),
    ('radio_addr_oversized', 'radio://0/80/2M/E7E7E7E7E70'), ('radio_addr_oversized', 'radio://0/80/2M/E7E7E7E7E701'),
    ('radio_addr_oversized', 'radio://0/80/2M/E7E7E7E7E7E7'), ('radio_addr_oversized', 'radio://0/80/1M/E7E7E7E7E7E7E7'),
    ('radio_addr_oversized', 'radio://0/80/2M/0123456789ABCDEF0123'),
)
BAD_NO_SERIAL = (('optional_driver_disabled', 'serial://ttyACM0'),)


def bad_uris(serial_driver):
    return BAD if serial_driver else BAD + BAD_NO_SERIAL


def _scheme_classes():
    import cflib.crtp as c
    return {'radio': c.RadioDriver, 'usb': c.UsbDriver, 'serial': c.SerialDriver, 'udp': c.UdpDriver,
            'prrt': c.PrrtDriver, 'tcp': c.TcpDriver}


def claimers(crtp, uri):
    """Classes of CLASSES whose connect() does not answer WrongUriType (the library's way to
    say 'not my scheme')."""
    from cflib.crtp.exceptions import WrongUriType
    out = []
    for cls in list(crtp.CLASSES):
        inst = cls()
        try:
            bounded('connect', inst.connect, uri, None, lambda msg: None)
        except WrongUriType:
            continue
        except HarnessError:
            raise
        except Exception:  # noqa
            out.append(cls)
            continue
        out.append(cls)
        bounded('close', inst.close)
    return out


def dispatch_case(p, world, crtp, kind, uri, cfg, want_sample=False):
    """kind: a scheme name for well-formed URIs, else a BAD class."""
    schemes = _scheme_classes()
    cfgname = ('serial' if cfg[0] else 'noserial') + ('+prrt' if cfg[1] else '')
    rp = {'part': 'dispatch', 'kind': kind, 'uri': uri, 'serial_driver': cfg[0], 'prrt': cfg[1]}
    world.air = ack_all
    world.reset_log()
    cl = claimers(crtp, uri)
    names = [c.__name__ for c in cl]
    well_formed = kind in schemes
    enabled = well_formed and schemes[kind] in crtp.CLASSES
    p.case(key=('dispatch', uri, cfgname), outcome=(kind, tuple(names)))
    sig_tail = '%s:config=%s' % (('scheme=' + kind) if well_formed else kind, 'serial' if cfg[0] else 'noserial')
    if well_formed and enabled:
        if cl != [schemes[kind]]:
            p.violation('dispatch:claimed_by:%s' % sig_tail,
                        '%r is claimed by %r with driver list %r; exactly %s must claim it'
                        % (uri, names, [c.__name__ for c in crtp.CLASSES], schemes[kind].__name__), rp)
    elif kind.startswith('radio_'):
        if [c for c in cl if c is not schemes['radio']]:
            p.violation('dispatch:claimed_by:%s' % sig_tail, 'malformed radio URI %r is claimed by %r' % (uri, names), rp)
    else:
        if cl:
            p.violation('dispatch:claimed_by:%s' % sig_tail,
                        '%r (no driver for it in %r) is claimed by %r' % (uri, [c.__name__ for c in crtp.CLASSES], names), rp)
    # what get_link_driver hands out
    world.reset_log()
    try:
        link = bounded('get_link_driver', crtp.get_link_driver, uri, None, lambda msg: None)
        res = 'none' if link is None else type(link).__name__
    except HarnessError:
        raise
    except Exception as e:  # noqa
        link = None
        res = 'raises ' + type(e).__name__
    io_seen = list(world.io[:2])
    if link is not None:
        bounded('close', link.close)
    p.case(key=('get_link_driver', uri, cfgname), outcome=(kind, res))
    if want_sample:
        p.sample({'part': 'dispatch', 'uri': uri, 'driver_list': [c.__name__ for c in crtp.CLASSES],
                  'claimed_by': names, 'get_link_driver': res, 'transport_opened': repr(io_seen)})
    if well_formed and enabled:
        if res != schemes[kind].__name__:
            p.violation('dispatch:get_link_driver:%s' % sig_tail,
                        'get_link_driver(%r) -> %s, expected an instance of %s (its device/transport is available)'
                        % (uri, res, schemes[kind].__name__), rp)
    elif not well_formed or not enabled:
        if link is not None:
            p.violation('no_driver:driver_returned:%s' % sig_tail,
                        'get_link_driver(%r) returned a %s for a URI that is %s' % (uri, res, kind), rp)


def part_replug(_):
    """Histories of parses on one process while dongles are plugged and unplugged: a serial-number id names the dongle
    that has that serial *now*."""
    from cflib.crtp.radiodriver import RadioDriver
    p = Partial()
    world = World()
    install(world)
    full = list(world.dongles)
    serial_tokens = [(tok, idx) for tok, idx, kind in DONGLES if kind.startswith('serial')]
    # every ordered pair of plug states (subsets keeping their relative order), parse in the first, then in the second
    import itertools
    subsets = [tuple(c) for k in range(1, len(full) + 1) for c in itertools.combinations(range(len(full)), k)]
    for first in subsets:
        for second in subsets:
            for tok, idx in serial_tokens:
                uri = build_uri(tok, 80, '2M', 'E7E7E7E701')
                results = []
                for state in (first, second):
                    world.dongles[:] = [full[i] for i in state]
                    exp = state.index(idx) if idx in state else None
                    try:
                        got = RadioDriver.parse_uri(uri)[0]
                    except HarnessError:
                        raise
                    except Exception as e:  # noqa
                        got = 'raises ' + type(e).__name__
                    results.append((exp, got))
                p.case(key=('replug', first, second, tok), outcome=('replug', tuple(r[0] is None for r in results)))
                for step, (exp, got) in enumerate(results):
                    ok = (got == exp) if exp is not None else (isinstance(got, str))
                    if not ok:
                        p.violation('parse:serial_id_after_replug:%s' % ('unplugged' if exp is None else 'index'),
                                    'dongles plugged %r then %r: parse_uri(%r) in state %d names dongle %r, the dongle with that '
                                    'serial is %s' % ([SERIALS[i] for i in first], [SERIALS[i] for i in second], uri, step + 1, got,
                                                      'not plugged in' if exp is None else 'number %d' % exp),
                                    {'part': 'replug', 'first': list(first), 'second': list(second), 'uri': uri})
    world.dongles[:] = full
    return p


def part_reinit(_):
    """init_drivers() called again with the optional serial driver switched on (an application that offers the option
    later): every scheme, the serial one included, is handed to a driver of the right class."""
    import cflib.crtp
    p = Partial()
    world = World()
    crtp = install(world, serial_driver=False, prrt=True)
    for second in (True, False):
        # what install() left is the list for "serial driver off"; initialise once more without clearing the list
        try:
            crtp.init_drivers(enable_serial_driver=second)
        except HarnessError:
            raise
        except Exception as e:  # noqa
            p.violation('dispatch:reinit_raises', 'init_drivers(enable_serial_driver=%r) on an initialised library raised %r'
                        % (second, e), {'part': 'reinit'})
            continue
        schemes = _scheme_classes()
        for kind, uri in WELL_FORMED:
            if kind == 'serial' and not second:
                continue
            world.air = ack_all
            world.reset_log()
            try:
                link = bounded('get_link_driver', crtp.get_link_driver, uri, None, lambda msg: None)
                res = 'none' if link is None else type(link).__name__
            except HarnessError:
                raise
            except Exception as e:  # noqa
                link, res = None, 'raises ' + type(e).__name__
            if link is not None:
                bounded('close', link.close)
            p.case(key=('reinit', second, uri), outcome=(kind, res))
            if res != schemes[kind].__name__:
                p.violation('dispatch:get_link_driver_after_reinit:scheme=%s' % kind,
                            'init_drivers() and then init_drivers(enable_serial_driver=%r): get_link_driver(%r) -> %s, expected a '
                            '%s' % (second, uri, res, schemes[kind].__name__), {'part': 'reinit'})
        del crtp.CLASSES[:]
        crtp.init_drivers(enable_serial_driver=False)
    drain_threads()
    return p


def part_dispatch(cfg):
    p = Partial()
    world = World()
    pyserial = cfg[2] if len(cfg) > 2 else True
    crtp = install(world, serial_driver=cfg[0], prrt=cfg[1], pyserial=pyserial)
    schemes = _scheme_classes()
    for i, (kind, uri) in enumerate(WELL_FORMED):
        if kind == 'serial' and (not cfg[0] or not pyserial):
            continue            # covered as 'optional_driver_disabled' below / not demanded without pyserial
        if kind == 'prrt' and not cfg[1]:
            # claimed, but get_link_driver raises 'PRRT is missing': only the claim is demanded
            cl = claimers(crtp, uri)
            p.case(key=('dispatch', uri, cfg), outcome=(kind, tuple(c.__name__ for c in cl)))
            if cl != [schemes['prrt']]:
                p.violation('dispatch:claimed_by:scheme=prrt:config=noprrt', '%r claimed by %r' % (uri, cl),
                            {'part': 'dispatch', 'kind': kind, 'uri': uri, 'serial_driver': cfg[0], 'prrt': cfg[1]})
            continue
        dispatch_case(p, world, crtp, kind, uri, cfg, want_sample=(i in (7, 13) and cfg == (True, True)))
    for i, (kind, uri) in enumerate(bad_uris(cfg[0])):
        dispatch_case(p, world, crtp, kind, uri, cfg, want_sample=(i == 16 and cfg == (False, True)))
    # every URI reported by a scan of all interfaces is claimed by exactly one driver
    world.air = ack_all_on(0, 42, 1, DEFAULT_ADDRESS)
    world.reset_log()
    try:
        scanned = bounded('scan_interfaces', crtp.scan_interfaces)
    except HarnessError:
        raise
    except Exception as e:  # noqa
        scanned = []
        p.violation('dispatch:scan_interfaces_raises', 'scan_interfaces() raised %r' % (e,),
                    {'part': 'dispatch_scan', 'serial_driver': cfg[0], 'prrt': cfg[1]})
    for entry in scanned:
        uri = entry[0]
        world.air = ack_all
        cl = claimers(crtp, uri)
        p.case(key=('scanned', uri, cfg), outcome=tuple(c.__name__ for c in cl))
        if len(cl) != 1:
            p.violation('dispatch:scanned_uri_claimed_by_%d' % len(cl), 'scan_interfaces() reported %r which is claimed by %r'
                        % (uri, cl), {'part': 'dispatch_scan', 'serial_driver': cfg[0], 'prrt': cfg[1]})
    drain_threads()
    return p


def ack_all_on(dongle, channel, rate, address):
    def air(idx, ch, r, a, pkt):
        return () if (idx, ch, r, a) == (dongle, channel, rate, address) else None
    return air


# ---------------------------------------------------------------------------------------------
# Part E: unknown / malformed URIs through a real Crazyflie.open_link, then reuse
# ---------------------------------------------------------------------------------------------

GOOD = (
    ('radio://0/80/2M', 'RadioDriver'), ('radio://1/10/250K/E7E7E7E701', 'RadioDriver'),
    ('radio://abcdef9876/125/1M/1', 'RadioDriver'), ('usb://0', 'UsbDriver'),
)


class _Recorder:
    def __init__(self, cf):
        self.events = []
        for name in ('connection_requested', 'connection_failed', 'connected', 'link_established', 'fully_connected',
                     'disconnected', 'connection_lost'):
            getattr(cf, name).add_callback(self._mk(name))

    def _mk(self, name):
        def cb(*args):
            self.events.append((name, args))
        return cb

    def count(self, name):
        return sum(1 for n, _ in self.events if n == name)

    def of(self, name):
        return [a for n, a in self.events if n == name]


def openlink_sequence(p, world, seq, good, cfg_serial, want_sample=False):
    """seq: tuple of indices into bad_uris(cfg_serial); then one good URI on the same object."""
    from cflib.crazyflie import Crazyflie
    bads = bad_uris(cfg_serial)
    cfgname = 'serial' if cfg_serial else 'noserial'
    rp = {'part': 'openlink', 'seq': list(seq), 'good': good, 'serial_driver': cfg_serial}
    cf = Crazyflie(ro_cache=None, rw_cache=None)
    rec = _Recorder(cf)
    world.air = ack_all
    trace = []
    prev_class = None
    for step, bi in enumerate(seq):
        kind, uri = bads[bi]
        del rec.events[:]
        world.reset_log()
        escaped = None
        try:
            bounded('open_link', cf.open_link, uri)
        except HarnessError:
            raise
        except Exception as e:  # noqa
            escaped = e
        nfail = rec.count('connection_failed')
        attached = cf.link is not None
        trace.append({'open_link': uri, 'connection_failed': nfail, 'connection_requested': rec.count('connection_requested'),
                      'link_after': type(cf.link).__name__, 'escaped': repr(escaped) if escaped else None})
        pos = 'first' if step == 0 else 'after_failure'
        tail = '%s:%s:config=%s' % (kind, pos, cfgname)
        if escaped is not None:
            p.violation('open_link:exception_escaped:' + tail,
                        'open_link(%r) let %s escape: %s' % (uri, type(escaped).__name__, escaped), rp)
        if attached and nfail == 0 and escaped is None:
            p.violation('open_link:accepted_as_valid:' + tail,
                        'open_link(%r): no connection_failed, a %s is attached and transmitting — the URI is %s'
                        % (uri, type(cf.link).__name__, kind), rp)
        else:
            if nfail != 1:
                p.violation('open_link:connection_failed_x%d:%s' % (min(nfail, 2), tail),
                            'open_link(%r) fired connection_failed %d times (exactly one demanded); events %r'
                            % (uri, nfail, [n for n, _ in rec.events]), rp)
            else:
                args = rec.of('connection_failed')[0]
                if len(args) != 2 or args[0] != uri or not isinstance(args[1], str):
                    p.violation('open_link:connection_failed_args:' + tail,
                                'open_link(%r) fired connection_failed%r' % (uri, tuple(str(a)[:60] for a in args)), rp)
            if attached:
                p.violation('open_link:driver_left_attached:' + tail,
                            'after the failed open_link(%r) cf.link is still %r' % (uri, cf.link), rp)
        if attached:
            try:
                bounded('close_link', cf.close_link)
            except Exception:  # noqa
                pass
        prev_class = kind
    # reuse of the same object with a valid URI
    guri, gdriver = GOOD[good]
    gexp = ref_parse(guri) if guri.startswith('radio') else None
    del rec.events[:]
    world.reset_log()
    escaped = None
    try:
        bounded('open_link', cf.open_link, guri)
    except HarnessError:
        raise
    except Exception as e:  # noqa
        escaped = e
    link = cf.link
    ok_driver = type(link).__name__ == gdriver
    seen = True
    if ok_driver and gexp is not None:
        seen = world.wait_writes(N_WRITES)
    nfail = rec.count('connection_failed')
    log = world.snapshot()
    tail = 'prev=%s:config=%s' % (prev_class, cfgname)
    trace.append({'open_link': guri, 'connection_failed': nfail, 'link_after': type(link).__name__,
                  'radio_packets_at_least': min(len(log), N_WRITES)})
    if escaped is not None:
        p.violation('open_link:reuse:exception:' + tail, 'open_link(%r) after failed attempts raised %r' % (guri, escaped), rp)
    elif not ok_driver or nfail:
        p.violation('open_link:reuse:no_link:' + tail,
                    'open_link(%r) on an object that had failed open_links: link=%r, connection_failed x%d %r'
                    % (guri, link, nfail, [str(a[1])[:80] for a in rec.of('connection_failed')]), rp)
    elif gexp is not None:
        if not seen:
            p.violation('open_link:reuse:no_transmission:' + tail, 'open_link(%r): only %d packets' % (guri, len(log)), rp)
        for idx, ch, rate, a, pkt, acked in log:
            if (idx, ch, rate, a) != gexp[:4]:
                p.violation('open_link:reuse:wrong_settings:' + tail,
                            'open_link(%r) transmits on %r, expected %r' % (guri, (idx, ch, rate, a), gexp[:4]), rp)
                break
    try:
        bounded('close_link', cf.close_link)
    except HarnessError:
        raise
    except Exception as e:  # noqa
        p.violation('open_link:reuse:close_raises:' + tail, 'close_link() after open_link(%r) raised %r' % (guri, e), rp)
    p.case(key=('openlink', tuple(seq), good, cfgname),
           outcome=(tuple(bads[b][0] for b in seq), tuple((t['connection_failed'], t['link_after']) for t in trace)))
    if want_sample:
        p.sample({'part': 'open_link', 'driver_list': cfgname, 'same_object_sequence': trace})


def openlink_sequences(thorough, cfg_serial):
    n = len(bad_uris(cfg_serial))
    seqs = []
    for i in range(n):
        seqs.append(((i,), i % len(GOOD)))
    for i in range(n):
        seqs.append(((i, (i + 1) % n), (i + 1) % len(GOOD)))
        seqs.append(((i, (i + 17) % n), (i + 2) % len(GOOD)))
        seqs.append(((i, i), (i + 3) % len(GOOD)))
    seqs.append((tuple(range(n)), 0))
    seqs.append((tuple(reversed(range(n))), 1))
    if thorough:
        for i in range(n):
            for j in range(n):
                seqs.append(((i, j), (i + j) % len(GOOD)))
        # one representative per class, all ordered triples
        reps, seen = [], set()
        for i, (kind, _) in enumerate(bad_uris(cfg_serial)):
            if kind not in seen:
                seen.add(kind)
                reps.append(i)
        for a in reps:
            for b in reps:
                for c in reps:
                    seqs.append(((a, b, c), (a + b + c) % len(GOOD)))
    out, seen = [], set()
    for s in seqs:
        if s not in seen:
            seen.add(s)
            out.append(s)
    return out


def part_openlink(args):
    thorough, cfg_serial, chunk, nchunks = args
    p = Partial()
    world = World()
    install(world, serial_driver=cfg_serial, prrt=True)
    for i, (seq, good) in enumerate(openlink_sequences(thorough, cfg_serial)):
        if i % nchunks != chunk:
            continue
        openlink_sequence(p, world, seq, good, cfg_serial, want_sample=(i in (24, 60) and not cfg_serial))
    drain_threads()
    return p


# ---------------------------------------------------------------------------------------------

def _dispatch(job):
    name, arg = job
    buf = io.StringIO()
    with contextlib.redirect_stdout(buf):
        try:
            return globals()['part_' + name](arg)
        except LibraryHang as e:
            p = Partial()
            p.case(key=('hang', name, repr(arg)), outcome=('hang', str(e)))
            p.violation('hang:%s:%s' % (name, e), 'part %s%r: the library call %s() did not return within %.0f s of real time '
                        '(its threads are blocked for good)' % (name, arg, e, HANG_LIMIT),
                        {'part': 'hang', 'job': name, 'arg': arg})
            return p


def _interleave(lists):
    out, i = [], 0
    while any(lists):
        lst = lists[i % len(lists)]
        if lst:
            out.append(lst.pop(0))
        i += 1
    return out


def run(ck):
    thorough = not ck.quick
    ck.rule = ('grammar product through the real code: %d dongle ids (indices, serials in either case, an all-digit serial) '
               'x channels 0..125 x {250K,1M,2M} x %d address strings (1..10 hex digits, upper/lower/mixed) x 4 shapes '
               '(trailing fields omitted) x %d query strings [quick: queries on the full-length shape only for channels '
               '0/2/80/125]; a subset of the same URIs through get_link_driver onto a scripted USB dongle (every fifth of them '
               'with a scan_interface by another driver object while the link is open); '
               'scan_interface for %d addresses x populations (empty, full, 7 residue classes, singles) with '
               'byte-reversed decoys; every sample URI x every driver class x 4 driver lists; %d unknown/malformed URIs '
               'in sequences of open_link calls on one Crazyflie object followed by a valid URI. distinct = distinct '
               '(part, URI / population / sequence, driver list)'
               % (len(DONGLES), len(ADDRESSES), len(QUERIES), len(SCAN_ADDRESSES), len(BAD) + 1))
    ck.assume('reference = parser and address/rate tables written in the check (regex + int.to_bytes), never urlparse or cflib code')
    ck.assume('address byte order "as the radio expects" = most significant byte first in the SET_RADIO_ADDRESS data stage '
              '(Crazyradio USB protocol), i.e. the order written in the URI; rate codes 0/1/2 = 250K/1M/2M')
    ck.assume('the scripted dongle models vendor requests 1/2/3 (channel/address/rate) and acks a packet iff a scripted '
              'Crazyflie listens on exactly the channel, rate and address in force at transmission time')
    ck.assume('a driver "claims" a URI iff its connect() does not raise WrongUriType; device enumeration and transport '
              'constructors are scripted (3 dongles, 2 USB Crazyflies, 2 serial ports, fake sockets, fake prrt module)')
    ck.assume('address alphabet is a stated finite set of %d strings (10 digit patterns, every prefix and suffix length, '
              '3 letter cases), not all 16^10 strings' % len(ADDRESSES))
    parse_jobs = [('parse', (di, ri, thorough)) for di in range(len(DONGLES)) for ri in range(len(RATES))]
    nconn = 32
    connect_jobs = [('connect', (thorough, c, nconn)) for c in range(nconn)]
    scan_jobs = [('scan', (thorough, ai)) for ai in range(len(SCAN_ADDRESSES))]
    dispatch_jobs = [('dispatch', (s, pr)) for s in (False, True) for pr in (True, False)]
    # the serial driver enabled on a machine without pyserial: it must still leave the other schemes alone
    dispatch_jobs.append(('dispatch', (True, True, False)))
    replug_jobs = [('replug', None), ('reinit', None)]
    nol = 12
    openlink_jobs = [('openlink', (thorough, s, c, nol)) for s in (False, True) for c in range(nol)]
    jobs = _interleave([parse_jobs, connect_jobs, scan_jobs, dispatch_jobs, openlink_jobs, replug_jobs])
    ck.pmap(_dispatch, jobs)
    ck.exhaustive = True
    ck.note('address_strings', len(ADDRESSES))
    ck.note('bad_uri_classes', sorted(set(k for k, _ in BAD + BAD_NO_SERIAL)))
    ck.note('connect_cases', len(connect_cases(thorough)))
    ck.note('open_link_sequences_per_driver_list', len(openlink_sequences(thorough, False)))
    ck.note('scan_populations_per_address', len(scan_populations(thorough)))
    drain_threads()


def replay(ck, data):
    part = data.get('part')
    world = World()
    if part == 'parse':
        install(world)
        uri = data['uri']
        exp = ref_parse(uri)
        from cflib.crtp.radiodriver import RadioDriver
        try:
            got = RadioDriver.parse_uri(uri)
        except Exception as e:  # noqa
            got = 'raised %s: %s' % (type(e).__name__, e)
        print('parse_uri(%r) -> %r\nindependent parser -> %r' % (uri, got, exp))
        m = _RADIO_RE.fullmatch(uri)
        parse_case(ck, uri, exp, shape_of(m.group(2), m.group(3), m.group(4)), 'replay', m.group(4), '')
    elif part == 'connect':
        crtp = install(world)
        uri = data['uri']
        exp = ref_parse(uri)
        m = _RADIO_RE.fullmatch(uri)
        with contextlib.redirect_stdout(io.StringIO()):
            connect_case(ck, world, crtp, uri, exp, shape_of(m.group(2), m.group(3), m.group(4)), 'replay', m.group(4),
                         scan_between=bool(data.get('scan_between')))
        log = world.snapshot()
        print('get_link_driver(%r): %d packets; settings on air %r; URI names %r'
              % (uri, len(log), sorted(set(e[:4] for e in log)), exp[:4]))
    elif part == 'scan':
        install(world)
        pops = dict(scan_populations(True))
        with contextlib.redirect_stdout(io.StringIO()):
            scan_case(ck, world, data['address'], data['population'], pops[data['population']])
        print('scan_interface(%r) with population %s: answers seen at %r' % (
            data['address'], data['population'], sorted(set(e[:4] for e in world.snapshot() if e[5]))[:10]))
    elif part in ('dispatch', 'dispatch_scan'):
        cfg = (data['serial_driver'], data['prrt'])
        crtp = install(world, serial_driver=cfg[0], prrt=cfg[1])
        if part == 'dispatch':
            with contextlib.redirect_stdout(io.StringIO()):
                dispatch_case(ck, world, crtp, data['kind'], data['uri'], cfg, want_sample=True)
            print(ck.samples[-1] if ck.samples else '')
        else:
            with contextlib.redirect_stdout(io.StringIO()):
                r = crtp.scan_interfaces()
            print('scan_interfaces() ->', r)
    elif part == 'openlink':
        install(world, serial_driver=data['serial_driver'], prrt=True)
        with contextlib.redirect_stdout(io.StringIO()):
            openlink_sequence(ck, world, tuple(data['seq']), data['good'], data['serial_driver'], want_sample=True)
        for s in ck.samples[-1:]:
            for step in s['same_object_sequence']:
                print(step)
    elif part == 'reinit':
        ck.merge(part_reinit(None))
        return
    elif part == 'hang':
        arg = data.get('arg')
        part_p = _dispatch((data['job'], tuple(arg) if isinstance(arg, list) else arg))
        ck.merge(part_p)
        print('job %s%r re-run: %d violations' % (data['job'], arg, part_p.viol_count))
        return
    else:
        print('unknown replay data %r' % (data,))
    drain_threads()
