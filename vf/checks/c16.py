"""C16 — system alignment is rigid and exact; scaling is uniform.

Continuous-input property, decided over a *stated finite grid* that is enumerated completely.

Aligner (LighthouseSystemAligner.align): a true, aligned world (origin sample at 0, x-axis samples on +X,
plane samples in Z=0, base stations above the floor) is expressed in a mis-aligned 'current' frame through a
generating rigid motion M = F o S and handed to the aligner:
  S: rotation axes x angles (0, +-1, +-10, +-29 deg; more in thorough) x translations up to 3 m  (< 30 deg envelope)
  F: none, or a half turn about Z / X / Y (the mirror-flipped situations the de-flip step has to correct)
  reference layouts: {1, 3} x-axis points x {1, 2, 4} plane points x {exact, fixed +-1 mm pattern}
  constellations of 2, 3 and 4 base stations
plus rotations S of 45..180 deg for the rigid-motion clauses only (outside the 30 deg envelope nothing is
demanded about where the samples end up).

Scaler (LighthouseSystemScaler.scale_fixed_point / scale_diagonals): constellations x Crazyflie pose lists x
scale factors {0.5, 1, 1.37, 10} (more in thorough) x reference points / sample structures.

No RNG anywhere; all rotations, translations, layouts and noise patterns are literals.
"""
import math
import os
import warnings

os.environ.setdefault('OPENBLAS_NUM_THREADS', '1')   # 3x3 / 6x6 algebra only: BLAS threads just add contention
os.environ.setdefault('OMP_NUM_THREADS', '1')

import numpy as np  # noqa: E402

from vf.core import Partial  # noqa: E402

ID = 'C16'
LEVEL = 'exploration'
VERBOSE = False
PI = math.pi


# ---------------------------------------------------------------------------------------------
# independent references
# ---------------------------------------------------------------------------------------------

def rodrigues(rv):
    rv = np.asarray(rv, dtype=float)
    th2 = float(rv @ rv)
    th = math.sqrt(th2)
    K = np.array([[0.0, -rv[2], rv[1]], [rv[2], 0.0, -rv[0]], [-rv[1], rv[0], 0.0]])
    if th < 1e-4:
        a = 1.0 - th2 / 6.0
        b = 0.5 - th2 / 24.0
    else:
        a = math.sin(th) / th
        b = (1.0 - math.cos(th)) / th2
    return np.identity(3) + a * K + b * (K @ K)


def hom(R, t):
    H = np.identity(4)
    H[:3, :3] = R
    H[:3, 3] = t
    return H


def apply(H, x):
    return H[:3, :3] @ np.asarray(x, dtype=float) + H[:3, 3]


class Part(Partial):
    """Partial that also tracks the worst residual/tolerance ratio per oracle clause."""

    def __init__(self):
        super().__init__()
        self.worst = {}

    def chk(self, clause, cls, err, tol, what, replay, track=None):
        err = float(err)
        ratio = err / tol if err == err else float('inf')
        track = track or clause
        if ratio > self.worst.get(track, 0.0):
            self.worst[track] = ratio
        if VERBOSE:
            print('   %-34s residual %.3g  tolerance %.3g  %s' % (clause, err, tol, 'ok' if ratio <= 1 else 'FAIL'))
        if not ratio <= 1.0:
            self.violation('%s:%s' % (clause, cls), what() + ' (residual %.3g > tolerance %.3g)' % (err, tol), replay)
            return False
        return True

    def flag(self, clause, cls, bad, what, replay):
        if VERBOSE:
            print('   %-34s %s' % (clause, 'FAIL' if bad else 'ok'))
        if bad:
            self.violation('%s:%s' % (clause, cls), what(), replay)


def _absorb_worst(ck, worst):
    orig = ck.merge

    def merge(part):
        for k, v in getattr(part, 'worst', {}).items():
            if v > worst.get(k, 0.0):
                worst[k] = v
        orig(part)
    ck.merge = merge


# ---------------------------------------------------------------------------------------------
# deep snapshots of inputs
# ---------------------------------------------------------------------------------------------

def snap(obj):
    """Deep, comparable snapshot that also records object identity of containers' members."""
    from cflib.localization.lighthouse_types import LhCfPoseSample
    from cflib.localization.lighthouse_types import Pose
    from cflib.localization.lighthouse_bs_vector import LighthouseBsVector
    if isinstance(obj, Pose):
        return ('Pose', id(obj), obj.rot_matrix.dtype.str, obj.rot_matrix.shape, obj.rot_matrix.tobytes(),
                obj.translation.dtype.str, obj.translation.shape, obj.translation.tobytes(), sorted(vars(obj)))
    if isinstance(obj, np.ndarray):
        return ('nd', id(obj), obj.dtype.str, obj.shape, obj.tobytes())
    if isinstance(obj, dict):
        return ('dict', id(obj), [(k, snap(v)) for k, v in obj.items()])
    if isinstance(obj, (list, tuple)):
        return (type(obj).__name__, id(obj), [snap(v) for v in obj])
    if isinstance(obj, LhCfPoseSample):
        return ('sample', id(obj), obj.timestamp, snap(obj.angles_calibrated), sorted(vars(obj)))
    if isinstance(obj, LighthouseBsVector):
        return ('vec', id(obj), obj.lh_v1_horiz_angle, obj.lh_v1_vert_angle)
    return ('val', repr(obj))


def snap_all(*objs):
    return [snap(o) for o in objs]


# ---------------------------------------------------------------------------------------------
# the aligner grid
# ---------------------------------------------------------------------------------------------

AXES_QUICK = ((1.0, 0.0, 0.0), (0.0, 1.0, 0.0), (0.0, 0.0, 1.0), (1.0, 1.0, 1.0), (1.0, -2.0, 0.5))
AXES_MORE = ((0.0, 1.0, 1.0), (-1.0, 1.0, 0.0), (1.0, 0.0, -1.0))
ANGLES_QUICK = (0, 1, -1, 10, -10, 29, -29)
ANGLES_MORE = (5, -5, 20, -20, 25, -25)
ANGLES_LARGE = (45, 60, 91, 120, 150, 179, 180)          # outside the envelope: rigid-motion clauses only
TRANS_QUICK = ((0.0, 0.0, 0.0), (1.0, 0.0, 0.0), (-3.0, 0.0, 0.0), (1.0, -2.0, 0.5))
TRANS_MORE = ((0.0, 3.0, 0.0), (0.0, 0.0, -3.0), (-1.7, 1.7, 1.7))
FLIPS = {'none': (0.0, 0.0, 0.0), 'flipZ': (0.0, 0.0, PI), 'flipX': (PI, 0.0, 0.0), 'flipY': (0.0, PI, 0.0)}

X_LAYOUTS = (((1.0, 0.0, 0.0),),
             ((0.5, 0.0, 0.0), (1.0, 0.0, 0.0), (2.0, 0.0, 0.0)))
P_LAYOUTS = (((1.0, 1.0, 0.0),),
             ((1.0, 1.0, 0.0), (-1.0, 2.0, 0.0)),
             ((1.0, 1.0, 0.0), (-1.0, 2.0, 0.0), (2.0, -1.5, 0.0), (-0.5, -1.0, 0.0)))
NOISE = 1e-3
_N = NOISE
NOISE_PATTERN = ((_N, -_N, _N), (-_N, _N, -_N), (_N, _N, -_N), (-_N, -_N, _N), (_N, -_N, -_N), (-_N, _N, _N),
                 (_N, _N, _N), (-_N, -_N, -_N))

# base stations in the TRUE (aligned) world: (rotation vector, position), all above the floor (z > 0);
# dict order is insertion order - the aligner's de-flip step looks at the first one.
CONSTELLATIONS = (
    {0: ((0.0, 0.0, 0.0), (-2.0, 0.0, 2.5)), 1: ((0.0, 0.4, 2.6), (2.0, 1.0, 2.2))},
    {3: ((0.3, 0.5, -0.8), (-2.0, -2.0, 3.0)), 1: ((0.2, 0.6, 0.8), (2.0, -2.0, 2.0)),
     7: ((-0.4, 0.5, 2.3), (0.0, 2.5, 0.3))},
    {0: ((0.1, 0.6, 0.4), (-3.0, -3.0, 2.0)), 1: ((0.0, 0.7, 2.0), (3.0, -3.0, 2.5)),
     2: ((-0.3, 0.6, -2.2), (3.0, 3.0, 1.5)), 3: ((0.5, 0.5, -0.9), (-3.0, 3.0, 0.05))},
)

# Rigid-motion clauses are double precision 3x3 algebra: rounding is ~1e-15 x magnitudes (<= 10 m);
# 1e-9 leaves five orders of magnitude and is far below any modelling error (a station moved or turned by
# 1e-9 m / rad is nothing), far above nothing a wrong transformation would produce on this grid.
RIGID_TOL = 1e-9
# Where the samples must land: the property's 'exact' for noise-free samples is the optimiser's termination
# accuracy. The aligner stops on ftol/xtol 1e-8 (measured worst residual on the grid 7.7e-9 m); 1e-4 m (0.1 mm,
# the resolution of the positions it is fed with) leaves four orders of magnitude. With noisy samples a
# least-squares answer cannot do worse than the generating transform M itself, whose residual vector is
# exactly the injected noise: sqrt(sum r(T)^2) <= sqrt(sum r(M)^2) = sqrt(n_residuals) x 1 mm, and every
# single residual is bounded by that norm; this is a mathematical bound (plus the same 1e-4), not an empirical
# margin.
ALIGN_TOL = 1e-4
# Mirror-flipped situations (generating transform = half turn about X/Y/Z composed with a < 30 deg motion) are
# NOT "misalignment below 30 degrees"; the statement only promises that the flipped answer is corrected. What
# is demanded there: the two sign decisions (x samples at X > 0, stations at Z > 0), the rigid-motion clauses,
# and that the samples land where they belong at the statement's own noise level (1 mm, "mild noise") rather
# than at optimiser precision - enough to expose a flip composed in the wrong order or about the wrong axis
# (errors of decimetres), while not turning the optimiser's evaluation cap into a property of the statement.
# Measured worst on the thorough grid: 2.1e-4 m (two grid points where scipy stops at max_nfev=10, see the
# 'aligner_runs_stopped_by_evaluation_cap' counters in the evidence), all other flipped points <= 1e-8 m.
FLIP_TOL = 1e-3


def unit(axis):
    a = np.asarray(axis, dtype=float)
    return a / math.sqrt(float(a @ a))


def align_cases(thorough):
    """Yield the descriptors of all aligner cases (plain JSON-able dicts)."""
    axes = AXES_QUICK + (AXES_MORE if thorough else ())
    angles = ANGLES_QUICK + (ANGLES_MORE if thorough else ())
    trans = TRANS_QUICK + (TRANS_MORE if thorough else ())
    seen = set()
    for ang in angles:
        for ax in axes:
            if ang == 0 and ax != axes[0]:
                continue
            for tr in trans:
                for flip in ('none', 'flipZ', 'flipX', 'flipY'):
                    for xi in range(len(X_LAYOUTS)):
                        for pi in range(len(P_LAYOUTS)):
                            for noise in (0, 1):
                                for ci in range(len(CONSTELLATIONS)):
                                    yield {'axis': list(ax), 'angle_deg': ang, 'trans': list(tr), 'flip': flip,
                                           'x_layout': xi, 'p_layout': pi, 'noise': noise, 'constellation': ci,
                                           'envelope': True}
                                    if ci == 0 and noise == 0 and flip in ('none', 'flipZ'):
                                        yield {'axis': list(ax), 'angle_deg': ang, 'trans': list(tr), 'flip': flip,
                                               'x_layout': xi, 'p_layout': pi, 'noise': noise, 'constellation': ci,
                                               'envelope': True, 'arrays': True}
    # corners of the envelope (close to 30 degrees about a body diagonal, 3 m along a diagonal): where the optimiser
    # needs the most iterations
    r3 = 3.0 / math.sqrt(3.0)
    for ang in (27, 29, 29.9, -29.9):
        for ax in ((1.0, 1.0, 1.0), (-1.0, -1.0, 1.0), (1.0, 1.0, 0.0), (-1.0, -1.0, 0.0)):
            for tr in ((r3, r3, -r3), (r3, r3, r3), (0.0, -3.0, 0.0), (-r3, r3, r3)):
                for xi, pi in ((0, 0), (1, 2)):
                    for ci in range(len(CONSTELLATIONS)):
                        yield {'axis': list(ax), 'angle_deg': ang, 'trans': list(tr), 'flip': 'none', 'x_layout': xi,
                               'p_layout': pi, 'noise': 0, 'constellation': ci, 'envelope': True}
    # outside the envelope: rigid-motion clauses only
    for ang in ANGLES_LARGE:
        for ax in axes:
            for tr in trans[:2] + trans[3:4]:
                for xi, pi in ((0, 0), (1, 2)):
                    for ci in range(len(CONSTELLATIONS)):
                        key = (ang, ax, tr, xi, pi, ci)
                        if key in seen:
                            continue
                        seen.add(key)
                        yield {'axis': list(ax), 'angle_deg': ang, 'trans': list(tr), 'flip': 'none',
                               'x_layout': xi, 'p_layout': pi, 'noise': 0, 'constellation': ci, 'envelope': False}


def build_align_inputs(case):
    """Express the true world in the mis-aligned current frame: current = M^-1(world), M = F o S."""
    from cflib.localization.lighthouse_types import Pose
    S = hom(rodrigues(unit(case['axis']) * math.radians(case['angle_deg'])), case['trans'])
    F = hom(rodrigues(FLIPS[case['flip']]), (0.0, 0.0, 0.0))
    M = F @ S
    Minv = np.linalg.inv(M)
    k = [0]

    def world_sample(p):
        p = np.array(p, dtype=float)
        if case['noise']:
            p = p + np.array(NOISE_PATTERN[k[0] % len(NOISE_PATTERN)])
            k[0] += 1
        return p

    w_origin = world_sample((0.0, 0.0, 0.0))
    w_x = [world_sample(q) for q in X_LAYOUTS[case['x_layout']]]
    w_p = [world_sample(q) for q in P_LAYOUTS[case['p_layout']]]
    origin = apply(Minv, w_origin)
    x_axis = [apply(Minv, q) for q in w_x]
    xy_plane = [apply(Minv, q) for q in w_p]
    bs_ref = {}
    bs_poses = {}
    for bs_id, (rv, t) in CONSTELLATIONS[case['constellation']].items():
        Hc = Minv @ hom(rodrigues(rv), t)
        bs_ref[bs_id] = Hc
        bs_poses[bs_id] = Pose(R_matrix=Hc[:3, :3].copy(), t_vec=Hc[:3, 3].copy())
    # residual vector of the generating transform = the injected noise components that count
    r_m = list(w_origin) + [c for q, n in zip(w_x, X_LAYOUTS[case['x_layout']]) for c in (q[1], q[2])]
    r_m += [q[2] for q in w_p]
    cost_m = math.sqrt(sum(c * c for c in r_m))
    return origin, x_axis, xy_plane, bs_poses, bs_ref, M, cost_m


def align_class(case):
    if not case['envelope']:
        return 'beyond_30deg'
    return '%s:%s%s' % (case['flip'], 'noisy' if case['noise'] else 'exact', ':arrays' if case.get('arrays') else '')


def case_text(case):
    return ('misalignment %s%g deg about %r + %r m, %d x-axis / %d plane points%s, %d base stations' % (
        (case['flip'] + ' o ') if case['flip'] != 'none' else '', case['angle_deg'], tuple(case['axis']),
        tuple(case['trans']), len(X_LAYOUTS[case['x_layout']]), len(P_LAYOUTS[case['p_layout']]),
        ' with +-1 mm noise' if case['noise'] else '', len(CONSTELLATIONS[case['constellation']])))


def check_align(p, case):
    from cflib.localization.lighthouse_system_aligner import LighthouseSystemAligner
    from cflib.localization.lighthouse_types import Pose
    cls = align_class(case)
    rp = dict(case, part='align')
    origin, x_axis, xy_plane, bs_poses, bs_ref, M, cost_m = build_align_inputs(case)
    if case.get('arrays'):
        # the samples as 2-D float arrays (legal ArrayLike; what a caller that collected them with numpy passes)
        x_axis = np.array(x_axis, dtype=float)
        xy_plane = np.array(xy_plane, dtype=float)
        origin = np.array(origin, dtype=float)
    before = snap_all(origin, x_axis, xy_plane, bs_poses)
    txt = case_text(case) + (' (samples as float arrays)' if case.get('arrays') else '')
    import scipy.optimize
    runs = []
    real_lsq = scipy.optimize.least_squares

    def observing_lsq(*a, **kw):
        """Pure observation (for the evidence counters only): how many evaluations scipy used."""
        r = real_lsq(*a, **kw)
        runs.append((int(r.nfev), int(r.status)))
        return r
    try:
        scipy.optimize.least_squares = observing_lsq
        with warnings.catch_warnings():
            # scipy's trust-region code emits RuntimeWarnings (0/0 in its own step-size bracket) when the
            # start point already has zero residual; the outcome is judged by the oracle below.
            warnings.simplefilter('ignore', RuntimeWarning)
            ret = LighthouseSystemAligner.align(origin, x_axis, xy_plane, bs_poses)
        result, T = ret
    except Exception as e:  # noqa
        p.violation('align:raises:' + cls, 'align raised %r for %s' % (e, txt), rp)
        return cls, None
    finally:
        scipy.optimize.least_squares = real_lsq
    if case['envelope']:
        where = 'flipped' if case['flip'] != 'none' else 'below_30deg'
        for nfev, status in runs:
            if VERBOSE:
                print('  scipy least_squares: nfev=%d status=%d (0 = stopped by the evaluation cap)' % (nfev, status))
            if status == 0:
                p.add('aligner_runs_stopped_by_evaluation_cap_' + where)
            elif nfev >= 10:
                p.add('aligner_runs_converged_on_last_allowed_evaluation_' + where)
    after = snap_all(origin, x_axis, xy_plane, bs_poses)
    p.flag('align:inputs_modified', cls, before != after, lambda: 'align modified its inputs for ' + txt, rp)
    ok_struct = isinstance(result, dict) and list(result.keys()) == list(bs_poses.keys()) and isinstance(T, Pose) \
        and all(isinstance(v, Pose) for v in result.values())
    p.flag('align:result_structure', cls, not ok_struct,
           lambda: 'align returned %r / %r for stations %r (%s)' % (type(result), type(T), list(bs_poses), txt), rp)
    if not ok_struct:
        return cls, None
    RT = np.asarray(T.rot_matrix, dtype=float)
    tT = np.asarray(T.translation, dtype=float)
    if VERBOSE:
        print('  returned transformation: rot_vec %r translation %r' % (T.rot_vec, tT))
        print('  generating transformation M: R=\n%r\n  t=%r' % (M[:3, :3], M[:3, 3]))
    # (1) one proper rigid transformation ...
    p.chk('align:transformation_proper_rigid', cls,
          max(float(np.max(np.abs(RT @ RT.T - np.identity(3)))), abs(float(np.linalg.det(RT)) - 1.0)), RIGID_TOL,
          lambda: 'returned transformation is not a proper rotation + translation: R=%r (%s)' % (RT, txt), rp)
    HT = hom(RT, tT)
    # ... applied to all base stations
    worst_apply = 0.0
    for bs_id, Hc in bs_ref.items():
        He = HT @ Hc
        got = result[bs_id]
        worst_apply = max(worst_apply, float(np.max(np.abs(np.asarray(got.rot_matrix, dtype=float) - He[:3, :3]))),
                          float(np.max(np.abs(np.asarray(got.translation, dtype=float) - He[:3, 3]))))
    p.chk('align:stations_are_T_applied', cls, worst_apply, RIGID_TOL * 10,
          lambda: 'a returned base-station pose is not the returned transformation applied to the input pose (%s)'
                  % txt, rp)
    # distances and relative orientations between stations preserved
    ids = list(bs_ref)
    worst_d = worst_r = 0.0
    for i in range(len(ids)):
        for j in range(i + 1, len(ids)):
            a, b = bs_ref[ids[i]], bs_ref[ids[j]]
            ra, rb = result[ids[i]], result[ids[j]]
            d_in = math.sqrt(float(np.sum((a[:3, 3] - b[:3, 3]) ** 2)))
            d_out = math.sqrt(float(np.sum((np.asarray(ra.translation, dtype=float) -
                                            np.asarray(rb.translation, dtype=float)) ** 2)))
            worst_d = max(worst_d, abs(d_in - d_out))
            rel_in = a[:3, :3].T @ b[:3, :3]
            rel_out = np.asarray(ra.rot_matrix, dtype=float).T @ np.asarray(rb.rot_matrix, dtype=float)
            worst_r = max(worst_r, float(np.max(np.abs(rel_in - rel_out))))
            # the position of b seen from a
            pin = a[:3, :3].T @ (b[:3, 3] - a[:3, 3])
            pout = np.asarray(ra.rot_matrix, dtype=float).T @ (
                np.asarray(rb.translation, dtype=float) - np.asarray(ra.translation, dtype=float))
            worst_r = max(worst_r, float(np.max(np.abs(pin - pout))))
    p.chk('align:distances_preserved', cls, worst_d, RIGID_TOL * 10,
          lambda: 'a distance between two base stations changed (%s)' % txt, rp)
    p.chk('align:relative_poses_preserved', cls, worst_r, RIGID_TOL * 10,
          lambda: 'the pose of one base station relative to another changed (%s)' % txt, rp)
    for bs_id, got in result.items():
        Rg = np.asarray(got.rot_matrix, dtype=float)
        p.chk('align:station_rotation_proper', cls,
              max(float(np.max(np.abs(Rg @ Rg.T - np.identity(3)))), abs(float(np.linalg.det(Rg)) - 1.0)), RIGID_TOL,
              lambda: 'aligned base station %r has an improper rotation matrix (%s)' % (bs_id, txt), rp)
    if not case['envelope']:
        return cls, None
    # (2) where the samples land (misalignment < 30 deg, modulo the mirror flip)
    flipped = case['flip'] != 'none'
    tol = cost_m + (FLIP_TOL if flipped else ALIGN_TOL)
    tr = ('|flipped' if flipped else '|below_30deg') + ('_noisy(bound)' if case['noise'] else '_exact')
    o = apply(HT, origin)
    p.chk('align:origin_to_zero', cls, float(np.max(np.abs(o))), tol,
          lambda: 'origin sample maps to %r, not (0,0,0) (%s)' % (o, txt), rp, 'align:origin_to_zero' + tr)
    xs = [apply(HT, q) for q in x_axis]
    p.chk('align:x_samples_on_x_axis', cls, max(max(abs(q[1]), abs(q[2])) for q in xs), tol,
          lambda: 'x-axis samples map to %r, off the X axis (%s)' % (xs, txt), rp, 'align:x_samples_on_x_axis' + tr)
    p.flag('align:x_samples_positive', cls, any(not q[0] > 0 for q in xs),
           lambda: 'x-axis samples map to %r, not onto the positive X axis (%s)' % (xs, txt), rp)
    ps = [apply(HT, q) for q in xy_plane]
    p.chk('align:plane_samples_in_z0', cls, max(abs(q[2]) for q in ps), tol,
          lambda: 'plane samples map to %r, not into Z=0 (%s)' % (ps, txt), rp, 'align:plane_samples_in_z0' + tr)
    zs = {bs_id: float(np.asarray(got.translation, dtype=float)[2]) for bs_id, got in result.items()}
    p.flag('align:stations_above_floor', cls, any(not z > 0 for z in zs.values()),
           lambda: 'aligned base stations at heights %r, not all above the floor (%s)' % (zs, txt), rp)
    # for the record (not a clause on its own: follows from the above up to the sample geometry): T vs M
    dev = max(float(np.max(np.abs(RT - M[:3, :3]))), float(np.max(np.abs(tT - M[:3, 3]))))
    return cls, dev


def part_align(cases):
    p = Part()
    for case in cases:
        cls, dev = check_align(p, case)
        smp = None
        if case['constellation'] == 1 and case['x_layout'] == 0 and case['p_layout'] == 0 and case['angle_deg'] in (
                29, 120) and case['axis'] == [1.0, -2.0, 0.5] and case['trans'] == [1.0, -2.0, 0.5] and case[
                    'noise'] == 0:
            smp = dict(case, part='align', transformation_minus_generating=dev)
        p.case(key=('align',) + tuple(sorted((k, repr(v)) for k, v in case.items())), outcome=cls, sample=smp)
    return p


# ---------------------------------------------------------------------------------------------
# the scaler grid
# ---------------------------------------------------------------------------------------------

SCALES_QUICK = (0.5, 1.0, 1.37, 10.0)
SCALES_MORE = (0.01, 0.9, 3.0, 100.0)
EXPECTED_POINTS = ((1.0, 0.0, 0.0), (0.0, 2.0, 0.0), (1.0, -2.0, 0.5), (0.0, 0.0, -0.3))
CF_POSES = (((0.0, 0.0, 0.0), (0.0, 0.0, 0.0)), ((0.1, -0.2, 0.8), (0.5, 0.3, 0.4)),
            ((-0.3, 0.2, -2.0), (-0.6, 0.4, 1.0)), ((0.0, 0.0, 1e-9), (1.0, -0.5, 0.0)),
            ((0.0, 0.0, PI), (-1.0, -1.0, 0.2)))
CF_LISTS = ((), (1,), (0, 1, 2, 3, 4))          # indices into CF_POSES

# Uniform scaling is a single multiplication per component: exact to 1 ulp; 1e-12 relative is double precision
# with four orders of margin.
SCALE_TOL = 1e-12
# scale_diagonals goes through LighthouseBsVector.cart, a float32 unit vector (relative 6e-8 per component); the
# intersection points are metres away while the diagonal is 3 cm, so the diagonal is good to ~1e-6 relative
# (measured 4.4e-7). 1e-5 is float32 accuracy with a > 20x margin.
DIAG_TOL = 1e-5


def make_system(ci, cf_idx):
    from cflib.localization.lighthouse_types import Pose
    bs = {bs_id: Pose.from_rot_vec(R_vec=rv, t_vec=t) for bs_id, (rv, t) in CONSTELLATIONS[ci].items()}
    cfs = [Pose.from_rot_vec(R_vec=CF_POSES[i][0], t_vec=CF_POSES[i][1]) for i in cf_idx]
    return bs, cfs


def check_scaled_system(p, cls, rp, txt, bs, cfs, out, factor_ref, rel_tol):
    """Clauses common to both entry points. Returns the factor or None."""
    from cflib.localization.lighthouse_types import Pose
    ok = isinstance(out, tuple) and len(out) == 3 and isinstance(out[0], dict) and isinstance(out[1], list) \
        and list(out[0].keys()) == list(bs.keys()) and len(out[1]) == len(cfs) \
        and all(isinstance(v, Pose) for v in list(out[0].values()) + list(out[1]))
    p.flag('scale:result_structure', cls, not ok, lambda: 'scaling returned %r (%s)' % (out, txt), rp)
    if not ok:
        return None
    bs_s, cf_s, f = out
    f = float(f)
    if VERBOSE:
        print('  returned scale factor %r, expected %r' % (f, factor_ref))
    p.chk('scale:factor', cls, abs(f - factor_ref) / abs(factor_ref), rel_tol,
          lambda: 'scale factor %r, the factor that makes the reference correct is %r (%s)' % (f, factor_ref, txt), rp)
    pairs = [(bs[k], bs_s[k], 'bs %r' % (k,)) for k in bs] + [(a, b, 'cf %d' % i) for i, (a, b) in
                                                                enumerate(zip(cfs, cf_s))]
    worst_t = 0.0
    rot_bad = []
    for a, b, name in pairs:
        ta, tb = np.asarray(a.translation, dtype=float), np.asarray(b.translation, dtype=float)
        worst_t = max(worst_t, float(np.max(np.abs(tb - ta * f))) / (abs(f) * (float(np.max(np.abs(ta))) + 1e-300))
                      if np.any(ta) else float(np.max(np.abs(tb))))
        Ra, Rb = np.asarray(a.rot_matrix), np.asarray(b.rot_matrix)
        if Ra.dtype != Rb.dtype or Ra.shape != Rb.shape or Ra.tobytes() != Rb.tobytes():
            rot_bad.append(name)
    p.chk('scale:translations_times_one_factor', cls, worst_t, SCALE_TOL,
          lambda: 'a translation is not the input translation times the returned factor %r (%s)' % (f, txt), rp)
    p.flag('scale:rotations_bit_identical', cls, bool(rot_bad),
           lambda: 'rotation of %s changed (%s)' % (', '.join(rot_bad), txt), rp)
    return f


def check_fixed_point(p, ci, li, k, ei, variant):
    from cflib.localization.lighthouse_system_scaler import LighthouseSystemScaler
    from cflib.localization.lighthouse_types import Pose
    cls = 'fixed_point'
    rp = {'part': 'fixed_point', 'constellation': ci, 'cf_list': li, 'k': k, 'expected': ei, 'variant': variant}
    bs, cfs = make_system(ci, CF_LISTS[li])
    expected = np.array(EXPECTED_POINTS[ei], dtype=float)
    if variant == 'aliased':
        # the same Pose object referenced several times (a stationary Crazyflie sampled repeatedly, two stations
        # seeded from one object): every occurrence is scaled by the factor, once
        cfs = ([cfs[0]] * 3 + list(cfs)) if cfs else cfs
        ks = list(bs)
        if len(ks) >= 2:
            bs = dict(bs)
            bs[ks[1]] = bs[ks[0]]
    if variant in ('aligned', 'aliased'):
        act_t = expected / k                      # the estimated position is the true one shrunk by k
    else:
        act_t = rodrigues((0.2, -0.1, 0.15)) @ expected / k      # same length, slightly different direction
    actual = Pose.from_rot_vec(R_vec=(0.4, 0.1, -0.7), t_vec=act_t)
    txt = 'scale_fixed_point: %d stations, %d cf poses, expected %r, actual at %r (true factor %g)' % (
        len(bs), len(cfs), tuple(expected), tuple(act_t), k)
    before = snap_all(bs, cfs, expected, actual)
    try:
        out = LighthouseSystemScaler.scale_fixed_point(bs, cfs, expected, actual)
    except Exception as e:  # noqa
        p.violation('scale:raises:' + cls, '%s raised %r' % (txt, e), rp)
        return
    p.flag('scale:inputs_modified', cls, before != snap_all(bs, cfs, expected, actual),
           lambda: txt + ' modified its inputs', rp)
    ref = math.sqrt(sum(c * c for c in expected)) / math.sqrt(sum(float(c) ** 2 for c in act_t))
    f = check_scaled_system(p, cls, rp, txt, bs, cfs, out, ref, SCALE_TOL)
    if f is None:
        return
    # 'the single factor that makes the reference distance correct'
    d_scaled = math.sqrt(sum((float(c) * f) ** 2 for c in act_t))
    d_exp = math.sqrt(sum(c * c for c in expected))
    p.chk('scale:reference_distance_correct', cls, abs(d_scaled - d_exp) / d_exp, SCALE_TOL,
          lambda: 'after scaling the reference point is at distance %r, expected %r (%s)' % (d_scaled, d_exp, txt), rp)
    p.chk('scale:factor_is_true_factor', cls, abs(f - k) / k, 1e-9,
          lambda: 'system shrunk by %r is scaled back by %r (%s)' % (k, f, txt), rp)


# --- scale_diagonals: a true room with sensors seen by look-at oriented stations ------------------

ROOM_BS = {0: ((-2.0, 0.0, 2.5), (0.0, 0.0, 0.0)), 1: ((2.0, 1.0, 2.2), (0.0, 0.0, 0.3)),
           4: ((0.0, -2.5, 1.8), (0.2, 0.0, 0.0))}            # id: (position, looks at)
SAMPLE_STRUCTURES = (                                          # list of (cf index, visible stations)
    ((0, (0, 1, 4)), (1, (0, 1)), (2, (1, 4)), (3, (4,))),
    ((1, (0,)),),
    ((0, (4, 0)), (4, (1,)), (2, (0, 1, 4))),
)


def look_at(pos, target):
    x = np.array(target, dtype=float) - np.array(pos, dtype=float)
    x /= math.sqrt(float(x @ x))
    y = np.cross(np.array((0.0, 0.0, 1.0)), x)
    y /= math.sqrt(float(y @ y))
    z = np.cross(x, y)
    return np.stack((x, y, z), axis=1)


def build_room(si, k):
    """True room -> exact V1 angles of the 4 sensors -> the same room shrunk by k (what a solver that got
    the scale wrong would deliver). Returns cflib inputs and the reference geometry."""
    from cflib.localization.lighthouse_bs_vector import LighthouseBsVector
    from cflib.localization.lighthouse_bs_vector import LighthouseBsVectors
    from cflib.localization.lighthouse_types import LhCfPoseSample
    from cflib.localization.lighthouse_types import LhDeck4SensorPositions
    from cflib.localization.lighthouse_types import Pose
    sens = np.array(LhDeck4SensorPositions.positions, dtype=float)
    struct = SAMPLE_STRUCTURES[si]
    used = []
    for _, ids in struct:
        for i in ids:
            if i not in used:
                used.append(i)
    Hbs = {i: hom(look_at(*ROOM_BS[i]), ROOM_BS[i][0]) for i in used}
    bs = {i: Pose(R_matrix=Hbs[i][:3, :3].copy(), t_vec=Hbs[i][:3, 3] / k) for i in used}
    cfs, samples = [], []
    for ci, ids in struct:
        Hc = hom(rodrigues(CF_POSES[ci][0]), CF_POSES[ci][1])
        cfs.append(Pose(R_matrix=Hc[:3, :3].copy(), t_vec=Hc[:3, 3] / k))
        angles = {}
        for i in ids:
            vecs = []
            for s in sens:
                q = apply(np.linalg.inv(Hbs[i]), apply(Hc, s))
                vecs.append(LighthouseBsVector(math.atan2(q[1], q[0]), math.atan2(q[2], q[0])))
            angles[i] = LighthouseBsVectors(vecs)
        samples.append(LhCfPoseSample(timestamp=float(ci), angles_calibrated=angles))
    return bs, cfs, samples, sens


def mean_diagonal_ref(bs, cfs, samples, scale):
    """Independent double precision ray / deck-plane intersection in the system scaled by `scale`."""
    ds = []
    for cf, sample in zip(cfs, samples):
        Rc, tc = np.asarray(cf.rot_matrix, dtype=float), np.asarray(cf.translation, dtype=float) * scale
        n = Rc[:, 2]
        for i, vecs in sample.angles_calibrated.items():
            Rb, tb = np.asarray(bs[i].rot_matrix, dtype=float), np.asarray(bs[i].translation, dtype=float) * scale
            pts = []
            for v in vecs:
                d = Rb @ np.array([1.0, math.tan(v.lh_v1_horiz_angle), math.tan(v.lh_v1_vert_angle)])
                lam = float((tc - tb) @ n) / float(d @ n)
                pts.append(tb + lam * d)
            ds.append(math.sqrt(float(np.sum((pts[0] - pts[3]) ** 2))))
            ds.append(math.sqrt(float(np.sum((pts[1] - pts[2]) ** 2))))
    return sum(ds) / len(ds)


def check_diagonals(p, si, k, which):
    from cflib.localization.lighthouse_system_scaler import LighthouseSystemScaler
    cls = 'diagonals'
    rp = {'part': 'diagonals', 'structure': si, 'k': k, 'expected': which}
    bs, cfs, samples, sens = build_room(si, k)
    true_diag = math.sqrt(float(np.sum((sens[0] - sens[3]) ** 2)))
    expected = true_diag if which == 'sensor_0_3_distance' else 0.05
    txt = 'scale_diagonals: sample structure %d (%d cf poses), room shrunk by %g, expected diagonal %r' % (
        si, len(cfs), k, expected)
    before = snap_all(bs, cfs, samples)
    try:
        out = LighthouseSystemScaler.scale_diagonals(bs, cfs, samples, expected)
    except Exception as e:  # noqa
        p.violation('scale:raises:' + cls, '%s raised %r' % (txt, e), rp)
        return
    p.flag('scale:inputs_modified', cls, before != snap_all(bs, cfs, samples), lambda: txt + ' modified its inputs', rp)
    # in the shrunk room the rays hit the deck plane at the true sensor positions / k
    ref = k * expected / true_diag
    f = check_scaled_system(p, cls, rp, txt, bs, cfs, out, ref, DIAG_TOL)
    if f is None:
        return
    got_diag = mean_diagonal_ref(bs, cfs, samples, f)
    p.chk('scale:sensor_diagonal_correct', cls, abs(got_diag - expected) / expected, DIAG_TOL,
          lambda: 'after scaling the rays intersect the deck %r m apart on the diagonals, expected %r (%s)' % (
              got_diag, expected, txt), rp)


def check_deck_constant(p):
    """The diagonal the deck type offers for scale_diagonals is the distance of the sensors it names."""
    from cflib.localization.lighthouse_system_scaler import LighthouseSystemScaler
    from cflib.localization.lighthouse_types import LhDeck4SensorPositions
    sens = np.array(LhDeck4SensorPositions.positions, dtype=float)
    d03 = math.sqrt(float(np.sum((sens[0] - sens[3]) ** 2)))
    d12 = math.sqrt(float(np.sum((sens[1] - sens[2]) ** 2)))
    const = float(LhDeck4SensorPositions.diagonal_distance)
    rp = {'part': 'deck_constant'}
    if VERBOSE:
        print('  LhDeck4SensorPositions.diagonal_distance = %r ; |p0-p3| = %r ; |p1-p2| = %r' % (const, d03, d12))
    # consequence, through the real entry point: a correctly scaled room (k = 1) is re-scaled
    bs, cfs, samples, _ = build_room(0, 1.0)
    f = float(LighthouseSystemScaler.scale_diagonals(bs, cfs, samples, const)[2])
    if VERBOSE:
        print('  scale_diagonals(correctly scaled room, expected_diagonal=diagonal_distance) -> factor %r' % f)
    p.chk('scale:deck_diagonal_constant', 'deck4', max(abs(const - d03), abs(const - d12)) / d03, SCALE_TOL,
          lambda: 'LhDeck4SensorPositions.diagonal_distance = %r but the diagonals of the sensor rectangle it '
                  'describes (sensors 0-3 and 1-2, the pairs scale_diagonals measures) are %r / %r; '
                  'scale_diagonals(expected_diagonal=diagonal_distance) re-scales a correctly scaled room by %r'
                  % (const, d03, d12, f), rp)
    return const, d03


def part_scale(job):
    kind, arg = job
    p = Part()
    if kind == 'fixed':
        scales = arg
        for ci in range(len(CONSTELLATIONS)):
            for li in range(len(CF_LISTS)):
                for k in scales:
                    for ei in range(len(EXPECTED_POINTS)):
                        for variant in ('aligned', 'off_direction', 'aliased'):
                            check_fixed_point(p, ci, li, k, ei, variant)
                            smp = None
                            if (ci, li, k, ei, variant) == (1, 2, 1.37, 2, 'aligned'):
                                smp = {'part': 'scale_fixed_point', 'stations': 3, 'cf_poses': 5, 'shrunk_by': k,
                                       'expected_point': list(EXPECTED_POINTS[ei]), 'result': 'factor 1.37 recovered'}
                            p.case(key=('fixed', ci, li, k, ei, variant), outcome=('fixed', li == 0), sample=smp)
    elif kind == 'diag':
        scales = arg
        for si in range(len(SAMPLE_STRUCTURES)):
            for k in scales:
                for which in ('sensor_0_3_distance', 'arbitrary_0.05'):
                    check_diagonals(p, si, k, which)
                    smp = None
                    if (si, k, which) == (0, 10.0, 'sensor_0_3_distance'):
                        smp = {'part': 'scale_diagonals', 'sample_structure': si, 'shrunk_by': k,
                               'expected_diagonal': which, 'result': 'factor 10 recovered to float32 accuracy'}
                    p.case(key=('diag', si, k, which), outcome=('diag', si), sample=smp)
    else:
        const, d03 = check_deck_constant(p)
        p.case(key=('deck_constant',), outcome='deck_constant',
               sample={'part': 'deck_constant', 'diagonal_distance': const, 'distance_sensor0_sensor3': d03})
    return p


# ---------------------------------------------------------------------------------------------

def _dispatch(job):
    name, arg = job
    return globals()['part_' + name](arg)


def run(ck):
    thorough = not ck.quick
    cases = list(align_cases(thorough))
    n_env = sum(1 for c in cases if c['envelope'])
    scales = SCALES_QUICK + (SCALES_MORE if thorough else ())
    ck.rule = ('complete enumeration of a stated finite grid on the real aligner/scaler: %d aligner cases inside the '
               '30 deg envelope = (rotation axes x angles %r deg, de-duplicated at 0) x %d translations x '
               '{none, flipZ, flipX, flipY} x 2 x-axis layouts x 3 plane layouts x {exact, +-1 mm} x 3 constellations '
               '(2/3/4 stations), plus %d cases with rotations %r deg for the rigid-motion clauses only; scaler: '
               'scale_fixed_point 3 constellations x 3 cf lists x %d factors x 4 reference points x 3 variants (aligned, off direction, aliased pose objects), '
               'scale_diagonals 3 sample structures x %d factors x 2 expected diagonals, and the deck diagonal '
               'constant. distinct = distinct grid points'
               % (n_env, ANGLES_QUICK + (ANGLES_MORE if thorough else ()),
                  len(TRANS_QUICK) + (len(TRANS_MORE) if thorough else 0), len(cases) - n_env, ANGLES_LARGE,
                  len(scales), len(scales)))
    ck.assume('the claim is over the stated finite grid only (continuous domain); "misalignment below 30 degrees" is '
              'read as: the rotation of the generating transform is below 30 degrees after removing a possible half '
              'turn about X, Y or Z (the mirror-flipped answers the statement says are corrected)')
    ck.assume('references are written in the check (Rodrigues, homogeneous 4x4 matrices, numpy.linalg.inv, '
              'double precision ray/plane intersection); cflib is not used by the oracle')
    ck.assume('tolerances: rigid-motion clauses 1e-9..1e-8, sample placement 1e-4 m + the norm of the injected '
              'noise (mathematical bound for a least-squares answer), scaling 1e-12 relative, scale_diagonals 1e-5 '
              'relative (float32 direction vectors)')
    worst = {}
    _absorb_worst(ck, worst)
    n = 64 if thorough else 32
    jobs = [('align', cases[i::n]) for i in range(n)]
    jobs += [('scale', ('fixed', scales)), ('scale', ('diag', scales)), ('scale', ('deck', None))]
    ck.pmap(_dispatch, jobs)
    ck.exhaustive = True
    ck.note('worst_residual_over_tolerance_per_clause', {k: float('%.3g' % v) for k, v in sorted(worst.items())})
    ck.note('aligner_cases_inside_envelope', n_env)
    ck.note('aligner_cases_beyond_envelope', len(cases) - n_env)


def replay(ck, data):
    global VERBOSE
    VERBOSE = True
    p = Part()
    part = data.get('part')
    print('replaying %r' % (data,))
    if part == 'align':
        case = {k: v for k, v in data.items() if k != 'part'}
        print('  ' + case_text(case))
        check_align(p, case)
    elif part == 'fixed_point':
        check_fixed_point(p, data['constellation'], data['cf_list'], float(data['k']), data['expected'],
                          data['variant'])
    elif part == 'diagonals':
        check_diagonals(p, data['structure'], float(data['k']), data['expected'])
    elif part == 'deck_constant':
        check_deck_constant(p)
    else:
        print('unknown part %r' % (part,))
    ck.merge(p)
