"""C08 — every command packet decodes to the caller's arguments under the firmware layout.

Seam: a real ``cflib.crazyflie.Crazyflie()`` whose ``link`` is a recording fake
(``needs_resending = False``); ``platform._protocolVersion`` is set to the version under test.
Every public command of Commander, HighLevelCommander, Localization, Extpos, PlatformService
(continuous wave, arming, crash recovery) and LoPoAnchor is called through the real object, so
``Crazyflie.send_packet`` (30-byte check) is in the path.  What the link driver would put on the
air (``pk.header`` + ``pk.data``) is decoded by the reference table below, which is an independent
transcription of the firmware structs (crtp_commander_rpyt.c, crtp_commander_generic.c,
crtp_commander_high_level.c, crtp_localization_service.c, platformservice.c, quatcompress.h,
lpp.h) - no cflib encoder, constant or struct format is imported.

Enumeration (no sampling): one-argument-at-a-time over the full alphabets, full cross product over
the reduced alphabets, all pairs of arguments over the full alphabets, (thorough) the full cross
product of the float alphabet for the 3/4-float commands, the 3^12 reduced cross for full state, the
9^4 quaternion lattice and every protocol version -1..255; protocol versions on both sides of each
switch; X-mode never set / off / on; all 16 x 4 headers through the constructor, set_header and
the port/channel setters from every previous state.

Not demanded (statement silent or behaviour documented): sign of a float zero; reserved header bits
3..2; ports > 15 / channels > 3; spiral angle beyond +/-2 pi and negative radii (documented limits:
raw value, documented clamp or an exception are all accepted); spiral on protocol < 8 (command does
not exist there: sending nothing is accepted); go_to(linear=True) on protocol < 8 (flag does not
exist in that layout); float thrust (docstring says integer: exception or value within one unit);
values whose truncation fits int16 but whose rounding does not (either); yaw field when
useCurrentYaw is set; physical units of the full-state rates (only value*1000 is checked).
"""
import itertools
import math
import struct
import sys
import warnings

import numpy as np

from vf.core import Partial

ID = 'C08'
LEVEL = 'exploration'


# ================================================================================================
# helpers
# ================================================================================================

class _Def:
    """Sentinel: 'do not pass this keyword argument' (the documented default applies)."""

    def __repr__(self):
        return 'DEF'


DEF = _Def()
INF = float('inf')
NAN = float('nan')
F32_MAX = (2.0 - 2.0 ** -23) * 2.0 ** 127          # largest finite binary32
F32_OVF = (2.0 - 2.0 ** -24) * 2.0 ** 127          # smallest double that rounds to +inf in binary32
TWO_PI = 2.0 * math.pi


def f32(x):
    """IEEE binary32 rounding of a python number (independent of struct): returns a python float."""
    with np.errstate(all='ignore'):
        return float(np.float32(x))


def _isnum(x):
    return isinstance(x, (int, float)) and not isinstance(x, bool)


class _Null:
    def write(self, s):
        return len(s)

    def flush(self):
        pass


# ================================================================================================
# alphabets
# ================================================================================================

F_FULL = [0.0, -0.0, 1.0, -1.0, 0.1, -123.456, 2.5, -2.5, 1.0 / 3.0, math.pi, 1e-3, 16777217.0,
          1e-45, 1e-46, 6.02e23, F32_MAX, -F32_MAX, math.nextafter(F32_OVF, 0.0), F32_OVF, 1e39, -1e39,
          INF, -INF, NAN]
F_RED = [0.0, 1.0, -2.5]
# fixed point (int16, 1/1000 unit): boundary, truncation, wrap-around candidates
X_FULL = [0.0, -0.0, 1.0, -1.0, 0.1, -2.5, 0.0005, -0.0005, 0.0015, 32.767, -32.768, 32.7675, -32.7685,
          32.768, -32.769, 32.7679, 40.0, -123.456, 65.536, 65.537, -65.536, 131.072, F32_MAX, 1e39, INF,
          -INF, NAN]
X_RED = [0.0, 1.0, -2.5]
U8_FULL = [-1, 0, 1, 2, 127, 128, 255, 256]
U8_RED = [0, 1, 255]
U32_FULL = [-1, 0, 1, 255, 256, 65535, 65536, 2 ** 32 - 1, 2 ** 32]
U32_RED = [0, 1, 2 ** 32 - 1]
THRUST_FULL = [-1, 0, 1, 10001, 60000, 65535, 65536, 2 ** 16 + 10001, 2 ** 32, -65536, 1000.5, -0.5,
               65535.5, 65535.0, NAN, INF, -INF]
THRUST_RED = [0, 1, 65535, -1, 65536]
BOOLS = [False, True]
BYTES_FULL = [bytes(range(1, n + 1)) for n in range(0, 31)] + [bytearray(b'\xff\x00\x80')]
BYTES_RED = [b'', b'\x01\x02', bytes(range(28)), bytes(range(29))]
BS_FULL = [[], [0], [1], [15], [0, 15], [3, 1], [14, 2, 7], list(range(16)), list(range(15, -1, -1)),
           [16], [-1], [0, 16], [-1, 3], [255], [1, 1], [0, 0], [15, 15], [2, 5, 2]]
BS_RED = [[], [0], [15], [3, 1], list(range(16)), [16], [-1], [1, 1]]


def _quat_lattice(levels, scales):
    out = []
    for q in itertools.product(levels, repeat=4):
        if any(q):
            for s in scales:
                out.append([c * s for c in q])
    return out


Q_BAD = [[0.0, 0.0, 0.0, 0.0], [NAN, 0.0, 0.0, 1.0], [0.0, INF, 0.0, 1.0], [0.0, 0.0, -INF, 0.0]]
Q_RED = [[0.0, 0.0, 0.0, 1.0], [1.0, 0.0, 0.0, 0.0], [0.5, -0.5, 0.5, -0.5], [0.1, -0.2, 0.3, 0.9]]
Q_QUICK = _quat_lattice((-1.0, -0.5, 0.0, 0.5, 1.0), (1.0, 0.1, 10.0)) + Q_BAD + Q_RED
Q_THOROUGH = _quat_lattice((-1.0, -0.75, -0.5, -0.25, 0.0, 0.25, 0.5, 0.75, 1.0), (1.0, 0.1, 10.0)) + Q_BAD + Q_RED

# distinct, exactly-representable base values so that a swapped pair of fields is visible
BASES_F = [1.25, -2.5, 3.75, -4.5, 5.125, -6.25, 7.5, -8.75, 9.0, -10.5, 11.25, -12.0, 13.5, -14.25, 15.75]


class P:
    """One argument of a command: name, kind (selects alphabet + reference handling), base value."""

    def __init__(self, name, kind, base, has_default=False):
        self.name, self.kind, self.base, self.has_default = name, kind, base, has_default

    def full(self, tier):
        k = self.kind
        a = {'f': F_FULL, 'x': X_FULL, 'u8': U8_FULL, 'u32': U32_FULL, 'thrust': THRUST_FULL, 'bool': BOOLS,
             'bytes': BYTES_FULL, 'bs': BS_FULL, 'yawopt': F_FULL + [None],
             'quat': Q_QUICK if tier == 'quick' else Q_THOROUGH}[k]
        a = list(a)
        if self.has_default:
            a.append(DEF)
        return a

    def reduced(self):
        k = self.kind
        return list({'f': F_RED, 'x': X_RED, 'u8': U8_RED, 'u32': U32_RED, 'thrust': THRUST_RED, 'bool': BOOLS,
                     'bytes': BYTES_RED, 'bs': BS_RED, 'yawopt': F_RED + [None], 'quat': Q_RED}[k])


# ================================================================================================
# reference wire table (independent transcription of the firmware layouts)
# ================================================================================================
# field descriptors:
#   ('c', name, fmt, value)          constant / type byte
#   ('f', name, value)               float32, exact after binary32 rounding
#   ('fa', name, value, rel)         float32, value computed by the client (X-mode), relative tol
#   ('fany', name)                   float32, ignored by the firmware in this configuration
#   ('fset', name, [values])         float32, any of the listed values (documented clamp or raw)
#   ('u', name, fmt, value)          unsigned integer of struct format fmt
#   ('b', name, value)               bool in one byte (0/1)
#   ('x', name, value_in_units)      int16 fixed point, 1/1000 unit, value given in units
#   ('q', name, [x, y, z, w])        32-bit compressed quaternion (quatcompress.h)
#   ('raw', name, bytes)             opaque tail

PORT_COMMANDER = 3          # crtp_commander_rpyt
PORT_LOCALIZATION = 6
PORT_GENERIC_SETPOINT = 7   # crtp_commander_generic: channel 0 setpoints, channel 1 meta commands
PORT_HL = 8                 # crtp_commander_high_level
PORT_PLATFORM = 13          # platformservice: channel 0 commands


class Exp:
    def __init__(self, port, chan, fields, vclass='any', none_ok=False, may_raise=False, one_sig=None):
        self.port, self.chan, self.fields, self.vclass = port, chan, fields, vclass
        self.one_sig = one_sig          # all findings of this input class share one signature (one defect)
        self.none_ok = none_ok          # sending nothing is acceptable (command unknown to that firmware)
        self.may_raise = may_raise      # an exception is acceptable although a packet would be too


def _d(v, default):
    return default if v is DEF else v


def ref_rpyt(a, v, xm):
    roll, pitch, yawrate, thrust = a
    # struct CommanderCrtpLegacyValues {float roll; float pitch; float yaw; uint16_t thrust;}
    # wire pitch has the opposite sign of the client's pitch (legacy frame of port 3)
    if xm:
        # client X-mode: 45 degree rotation of (roll, pitch) before the sign flip
        r = 0.707 * (roll - pitch)
        p = 0.707 * (roll + pitch)
        return Exp(PORT_COMMANDER, 0, [('fa', 'roll', r, 2e-4), ('fa', 'pitch', -p, 2e-4), ('f', 'yawrate', yawrate),
                                       ('u', 'thrust', 'H', thrust)], 'xmode')
    return Exp(PORT_COMMANDER, 0, [('f', 'roll', roll), ('f', 'pitch', -pitch), ('f', 'yawrate', yawrate),
                                   ('u', 'thrust', 'H', thrust)], 'plus')


def ref_notify_stop(a, v, xm):
    ms = _d(a[0], 0)
    # channel 1 (meta), metaCommand 0 = notifySetpointsStop {uint32_t remainValidMillisecs}
    return Exp(PORT_GENERIC_SETPOINT, 1, [('c', 'meta_type', 'B', 0), ('u', 'remain_valid_ms', 'I', ms)])


def ref_stop_setpoint(a, v, xm):
    return Exp(PORT_GENERIC_SETPOINT, 0, [('c', 'type', 'B', 0)])


def _legacy(v):
    # protocol versions up to and including 8 only know the legacy types whose yaw rate has the
    # opposite sign; from 9 on the new type numbers carry the yaw rate unchanged
    return v <= 8


def ref_velocity_world(a, v, xm):
    vx, vy, vz, yr = a
    if _legacy(v):
        return Exp(PORT_GENERIC_SETPOINT, 0, [('c', 'type', 'B', 1), ('f', 'vx', vx), ('f', 'vy', vy), ('f', 'vz', vz),
                                              ('f', 'yawrate', -yr)], 'legacy')
    return Exp(PORT_GENERIC_SETPOINT, 0, [('c', 'type', 'B', 8), ('f', 'vx', vx), ('f', 'vy', vy), ('f', 'vz', vz),
                                          ('f', 'yawrate', yr)], 'new')


def ref_zdistance(a, v, xm):
    roll, pitch, yr, zd = a
    if _legacy(v):
        return Exp(PORT_GENERIC_SETPOINT, 0, [('c', 'type', 'B', 2), ('f', 'roll', roll), ('f', 'pitch', pitch),
                                              ('f', 'yawrate', -yr), ('f', 'zdistance', zd)], 'legacy')
    return Exp(PORT_GENERIC_SETPOINT, 0, [('c', 'type', 'B', 9), ('f', 'roll', roll), ('f', 'pitch', pitch),
                                          ('f', 'yawrate', yr), ('f', 'zdistance', zd)], 'new')


def ref_hover(a, v, xm):
    vx, vy, yr, zd = a
    if _legacy(v):
        return Exp(PORT_GENERIC_SETPOINT, 0, [('c', 'type', 'B', 5), ('f', 'vx', vx), ('f', 'vy', vy),
                                              ('f', 'yawrate', -yr), ('f', 'zdistance', zd)], 'legacy')
    return Exp(PORT_GENERIC_SETPOINT, 0, [('c', 'type', 'B', 10), ('f', 'vx', vx), ('f', 'vy', vy),
                                          ('f', 'yawrate', yr), ('f', 'zdistance', zd)], 'new')


def ref_position(a, v, xm):
    x, y, z, yaw = a
    return Exp(PORT_GENERIC_SETPOINT, 0, [('c', 'type', 'B', 7), ('f', 'x', x), ('f', 'y', y), ('f', 'z', z),
                                          ('f', 'yaw', yaw)])


def ref_full_state(a, v, xm):
    (px, py, pz, vx, vy, vz, ax, ay, az, q, rr, pr, yr) = a
    # struct fullStatePacket_s: int16 mm x3, int16 mm/s x3, int16 mm/s^2 x3, uint32 quat, int16 milli-unit/s x3
    return Exp(PORT_GENERIC_SETPOINT, 0,
               [('c', 'type', 'B', 6),
                ('x', 'x', px), ('x', 'y', py), ('x', 'z', pz),
                ('x', 'vx', vx), ('x', 'vy', vy), ('x', 'vz', vz),
                ('x', 'ax', ax), ('x', 'ay', ay), ('x', 'az', az),
                ('q', 'quat', q),
                ('x', 'rollrate', rr), ('x', 'pitchrate', pr), ('x', 'yawrate', yr)])


# ---- high level commander ------------------------------------------------------------------------

def ref_hl_group_mask(a, v, xm):
    return Exp(PORT_HL, 0, [('c', 'cmd', 'B', 0), ('u', 'group_mask', 'B', _d(a[0], 0))])


def _ref_takeoff_land(cmd, a):
    h, dur, gm, yaw = a
    gm = _d(gm, 0)
    yaw = _d(yaw, 0.0)
    # struct data_takeoff_2 / data_land_2 {u8 groupMask; float height; float yaw; bool useCurrentYaw; float duration}
    if yaw is None:
        yf = [('fany', 'yaw'), ('b', 'useCurrentYaw', True)]
    else:
        yf = [('f', 'yaw', yaw), ('b', 'useCurrentYaw', False)]
    return Exp(PORT_HL, 0, [('c', 'cmd', 'B', cmd), ('u', 'group_mask', 'B', gm), ('f', 'height', h)] + yf +
               [('f', 'duration', dur)])


def ref_hl_takeoff(a, v, xm):
    return _ref_takeoff_land(7, a)


def ref_hl_land(a, v, xm):
    return _ref_takeoff_land(8, a)


def ref_hl_stop(a, v, xm):
    return Exp(PORT_HL, 0, [('c', 'cmd', 'B', 3), ('u', 'group_mask', 'B', _d(a[0], 0))])


def ref_hl_go_to(a, v, xm):
    x, y, z, yaw, dur, rel, lin, gm = a
    rel, lin, gm = _d(rel, False), _d(lin, False), _d(gm, 0)
    tail = [('f', 'x', x), ('f', 'y', y), ('f', 'z', z), ('f', 'yaw', yaw), ('f', 'duration', dur)]
    if v < 8:
        # struct data_go_to {u8 groupMask; u8 relative; float x, y, z, yaw, duration}; no linear flag exists
        return Exp(PORT_HL, 0, [('c', 'cmd', 'B', 4), ('u', 'group_mask', 'B', gm), ('b', 'relative', rel)] + tail, 'pre8')
    # struct data_go_to_2 {u8 groupMask; u8 relative; u8 linear; float x, y, z, yaw, duration}
    return Exp(PORT_HL, 0, [('c', 'cmd', 'B', 12), ('u', 'group_mask', 'B', gm), ('b', 'relative', rel),
                            ('b', 'linear', lin)] + tail, 'v8plus')


def ref_hl_spiral(a, v, xm):
    ang, r0, rf, asc, dur, side, cw, gm = a
    side, cw, gm = _d(side, False), _d(cw, False), _d(gm, 0)
    may = False
    if _isnum(ang) and ang == ang and abs(ang) > TWO_PI:
        fa = ('fset', 'angle', [ang, math.copysign(TWO_PI, ang)])     # documented: limited to +/- 2 pi
        may = True
    else:
        fa = ('f', 'angle', ang)
    rad = []
    for name, r in (('r0', r0), ('rF', rf)):
        if _isnum(r) and r < 0:
            rad.append(('fset', name, [r, 0.0]))                        # documented: must be positive
            may = True
        else:
            rad.append(('f', name, r))
    # struct data_spiral {u8 groupMask; u8 sideways; u8 clockwise; float phi, r0, rf, dz, duration}
    return Exp(PORT_HL, 0, [('c', 'cmd', 'B', 11), ('u', 'group_mask', 'B', gm), ('b', 'sideways', side),
                            ('b', 'clockwise', cw), fa] + rad + [('f', 'ascent', asc), ('f', 'duration', dur)],
               'pre8' if v < 8 else 'v8plus', none_ok=(v < 8), may_raise=may)


def ref_hl_start_trajectory(a, v, xm):
    tid, ts, rel, rev, gm = a
    ts, rel, rev, gm = _d(ts, 1.0), _d(rel, False), _d(rev, False), _d(gm, 0)
    # struct data_start_trajectory {u8 groupMask; u8 relative; u8 reversed; u8 trajectoryId; float timescale}
    return Exp(PORT_HL, 0, [('c', 'cmd', 'B', 5), ('u', 'group_mask', 'B', gm), ('b', 'relative', rel),
                            ('b', 'reversed', rev), ('u', 'trajectory_id', 'B', tid), ('f', 'time_scale', ts)])


def ref_hl_define_trajectory(a, v, xm):
    tid, off, n, typ = a
    typ = _d(typ, 0)
    # struct data_define_trajectory {u8 trajectoryId; u8 location (1 = MEM); u8 type; u32 offset; u8 n_pieces}
    return Exp(PORT_HL, 0, [('c', 'cmd', 'B', 6), ('u', 'trajectory_id', 'B', tid), ('c', 'location', 'B', 1),
                            ('u', 'type', 'B', typ), ('u', 'offset', 'I', off), ('u', 'n_pieces', 'B', n)])


# ---- localization / extpos / LPP -------------------------------------------------------------------

def ref_extpos(a, v, xm):
    x, y, z = a
    # channel 0: struct CrtpExtPosition {float x, y, z}
    return Exp(PORT_LOCALIZATION, 0, [('f', 'x', x), ('f', 'y', y), ('f', 'z', z)])


def ref_extpose(a, v, xm):
    x, y, z, qx, qy, qz, qw = a
    # channel 1 (generic), type 8: struct CrtpExtPose {float x, y, z, qx, qy, qz, qw}
    return Exp(PORT_LOCALIZATION, 1, [('c', 'type', 'B', 8), ('f', 'x', x), ('f', 'y', y), ('f', 'z', z),
                                      ('f', 'qx', qx), ('f', 'qy', qy), ('f', 'qz', qz), ('f', 'qw', qw)])


def ref_short_lpp(a, v, xm):
    dest, data = a
    return Exp(PORT_LOCALIZATION, 1, [('c', 'type', 'B', 2), ('u', 'dest_id', 'B', dest), ('raw', 'lpp', bytes(data))])


def ref_emergency_stop(a, v, xm):
    return Exp(PORT_LOCALIZATION, 1, [('c', 'type', 'B', 3)])


def ref_emergency_watchdog(a, v, xm):
    return Exp(PORT_LOCALIZATION, 1, [('c', 'type', 'B', 4)])


def _bs_mask(name, ids):
    """uint16 bit field, bit n = base station n; ids outside 0..15 cannot be represented."""
    m = 0
    bad = None
    for i in ids:
        if isinstance(i, int) and 0 <= i <= 15:
            m |= 1 << i
        else:
            bad = i
    if bad is not None:
        return ('u', name, 'H', -1 if (isinstance(bad, int) and bad < 0) else 1 << 16)
    return ('u', name, 'H', m)


def ref_lh_persist(a, v, xm):
    geo, calib = a
    # channel 1, type 11: {uint16 geoDataBsField; uint16 calibrationDataBsField}
    return Exp(PORT_LOCALIZATION, 1, [('c', 'type', 'B', 11), _bs_mask('mask_geo', geo), _bs_mask('mask_calib', calib)],
               one_sig='duplicate_base_station_id' if (len(set(geo)) != len(geo) or len(set(calib)) != len(calib))
               else None)


def ref_lopo_position(a, v, xm):
    aid, x, y, z = a
    # short LPP to anchor: LPP_SHORT_ANCHOR_POSITION (1) {float x, y, z}
    return Exp(PORT_LOCALIZATION, 1, [('c', 'type', 'B', 2), ('u', 'anchor_id', 'B', aid), ('c', 'lpp_type', 'B', 1),
                                      ('f', 'x', x), ('f', 'y', y), ('f', 'z', z)])


def ref_lopo_reboot(a, v, xm):
    aid, mode = a
    return Exp(PORT_LOCALIZATION, 1, [('c', 'type', 'B', 2), ('u', 'anchor_id', 'B', aid), ('c', 'lpp_type', 'B', 2),
                                      ('u', 'mode', 'B', mode)])


def ref_lopo_mode(a, v, xm):
    aid, mode = a
    return Exp(PORT_LOCALIZATION, 1, [('c', 'type', 'B', 2), ('u', 'anchor_id', 'B', aid), ('c', 'lpp_type', 'B', 3),
                                      ('u', 'mode', 'B', mode)])


# ---- platform service ------------------------------------------------------------------------------

def ref_cont_wave(a, v, xm):
    return Exp(PORT_PLATFORM, 0, [('c', 'cmd', 'B', 0), ('b', 'enabled', a[0])])


def ref_arming(a, v, xm):
    return Exp(PORT_PLATFORM, 0, [('c', 'cmd', 'B', 1), ('b', 'do_arm', a[0])])


def ref_crash_recovery(a, v, xm):
    return Exp(PORT_PLATFORM, 0, [('c', 'cmd', 'B', 2)])


# ================================================================================================
# command table: name -> (parameters, caller on the real objects, reference)
# ================================================================================================

def _kw(**kw):
    return {k: val for k, val in kw.items() if val is not DEF}


def _fp(names, start=0):
    return [P(n, 'f', BASES_F[start + i]) for i, n in enumerate(names)]


def _xp(names, start=0):
    return [P(n, 'x', BASES_F[start + i]) for i, n in enumerate(names)]


def _lopo(cf):
    from lpslib.lopoanchor import LoPoAnchor
    return LoPoAnchor(cf)


COMMANDS = {
    'commander.send_setpoint': (
        _fp(['roll', 'pitch', 'yawrate']) + [P('thrust', 'thrust', 40000)],
        lambda cf, r, p, y, t: cf.commander.send_setpoint(r, p, y, t), ref_rpyt),
    'commander.send_notify_setpoint_stop': (
        [P('remain_valid_milliseconds', 'u32', 1234, True)],
        lambda cf, ms: cf.commander.send_notify_setpoint_stop(**_kw(remain_valid_milliseconds=ms)), ref_notify_stop),
    'commander.send_stop_setpoint': ([], lambda cf: cf.commander.send_stop_setpoint(), ref_stop_setpoint),
    'commander.send_velocity_world_setpoint': (
        _fp(['vx', 'vy', 'vz', 'yawrate']),
        lambda cf, *a: cf.commander.send_velocity_world_setpoint(*a), ref_velocity_world),
    'commander.send_zdistance_setpoint': (
        _fp(['roll', 'pitch', 'yawrate', 'zdistance']),
        lambda cf, *a: cf.commander.send_zdistance_setpoint(*a), ref_zdistance),
    'commander.send_hover_setpoint': (
        _fp(['vx', 'vy', 'yawrate', 'zdistance']),
        lambda cf, *a: cf.commander.send_hover_setpoint(*a), ref_hover),
    'commander.send_position_setpoint': (
        _fp(['x', 'y', 'z', 'yaw']),
        lambda cf, *a: cf.commander.send_position_setpoint(*a), ref_position),
    'commander.send_full_state_setpoint': (
        _xp(['x', 'y', 'z', 'vx', 'vy', 'vz', 'ax', 'ay', 'az']) + [P('orientation', 'quat', [0.1, -0.2, 0.3, 0.9])] +
        _xp(['rollrate', 'pitchrate', 'yawrate'], 9),
        lambda cf, px, py, pz, vx, vy, vz, ax, ay, az, q, rr, pr, yr: cf.commander.send_full_state_setpoint(
            [px, py, pz], [vx, vy, vz], [ax, ay, az], list(q), rr, pr, yr), ref_full_state),
    'hl.set_group_mask': (
        [P('group_mask', 'u8', 5, True)],
        lambda cf, gm: cf.high_level_commander.set_group_mask(**_kw(group_mask=gm)), ref_hl_group_mask),
    'hl.takeoff': (
        _fp(['absolute_height_m', 'duration_s']) + [P('group_mask', 'u8', 5, True), P('yaw', 'yawopt', 0.75, True)],
        lambda cf, h, d, gm, yaw: cf.high_level_commander.takeoff(h, d, **_kw(group_mask=gm, yaw=yaw)), ref_hl_takeoff),
    'hl.land': (
        _fp(['absolute_height_m', 'duration_s']) + [P('group_mask', 'u8', 5, True), P('yaw', 'yawopt', 0.75, True)],
        lambda cf, h, d, gm, yaw: cf.high_level_commander.land(h, d, **_kw(group_mask=gm, yaw=yaw)), ref_hl_land),
    'hl.stop': (
        [P('group_mask', 'u8', 5, True)],
        lambda cf, gm: cf.high_level_commander.stop(**_kw(group_mask=gm)), ref_hl_stop),
    'hl.go_to': (
        _fp(['x', 'y', 'z', 'yaw', 'duration_s']) + [P('relative', 'bool', True, True), P('linear', 'bool', False, True),
                                                     P('group_mask', 'u8', 5, True)],
        lambda cf, x, y, z, yaw, d, rel, lin, gm: cf.high_level_commander.go_to(
            x, y, z, yaw, d, **_kw(relative=rel, linear=lin, group_mask=gm)), ref_hl_go_to),
    'hl.spiral': (
        [P('angle', 'f', 1.25), P('r0', 'f', 2.5), P('rF', 'f', 3.75), P('ascent', 'f', -4.5), P('duration_s', 'f', 5.125),
         P('sideways', 'bool', True, True), P('clockwise', 'bool', False, True), P('group_mask', 'u8', 5, True)],
        lambda cf, an, r0, rf, asc, d, side, cw, gm: cf.high_level_commander.spiral(
            an, r0, rf, asc, d, **_kw(sideways=side, clockwise=cw, group_mask=gm)), ref_hl_spiral),
    'hl.start_trajectory': (
        [P('trajectory_id', 'u8', 7), P('time_scale', 'f', 1.25, True), P('relative', 'bool', True, True),
         P('reversed', 'bool', False, True), P('group_mask', 'u8', 5, True)],
        lambda cf, tid, ts, rel, rev, gm: cf.high_level_commander.start_trajectory(
            tid, **_kw(time_scale=ts, relative=rel, reversed=rev, group_mask=gm)), ref_hl_start_trajectory),
    'hl.define_trajectory': (
        [P('trajectory_id', 'u8', 7), P('offset', 'u32', 0x01020304), P('n_pieces', 'u8', 9), P('type', 'u8', 1, True)],
        lambda cf, tid, off, n, typ: cf.high_level_commander.define_trajectory(tid, off, n, **_kw(type=typ)),
        ref_hl_define_trajectory),
    'loc.send_extpos': (_fp(['x', 'y', 'z']), lambda cf, x, y, z: cf.loc.send_extpos([x, y, z]), ref_extpos),
    'extpos.send_extpos': (_fp(['x', 'y', 'z']), lambda cf, x, y, z: cf.extpos.send_extpos(x, y, z), ref_extpos),
    'loc.send_extpose': (
        _fp(['x', 'y', 'z', 'qx', 'qy', 'qz', 'qw']),
        lambda cf, x, y, z, qx, qy, qz, qw: cf.loc.send_extpose([x, y, z], [qx, qy, qz, qw]), ref_extpose),
    'extpos.send_extpose': (
        _fp(['x', 'y', 'z', 'qx', 'qy', 'qz', 'qw']),
        lambda cf, *a: cf.extpos.send_extpose(*a), ref_extpose),
    'loc.send_short_lpp_packet': (
        [P('dest_id', 'u8', 7), P('data', 'bytes', b'\xaa\xbb\xcc')],
        lambda cf, d, data: cf.loc.send_short_lpp_packet(d, data), ref_short_lpp),
    'loc.send_emergency_stop': ([], lambda cf: cf.loc.send_emergency_stop(), ref_emergency_stop),
    'loc.send_emergency_stop_watchdog': ([], lambda cf: cf.loc.send_emergency_stop_watchdog(), ref_emergency_watchdog),
    'loc.send_lh_persist_data_packet': (
        [P('geo_list', 'bs', [2, 0]), P('calib_list', 'bs', [1, 15])],
        lambda cf, g, c: cf.loc.send_lh_persist_data_packet(list(g), list(c)), ref_lh_persist),
    'lopo.set_position': (
        [P('anchor_id', 'u8', 7)] + _fp(['x', 'y', 'z']),
        lambda cf, aid, x, y, z: _lopo(cf).set_position(aid, (x, y, z)), ref_lopo_position),
    'lopo.reboot': ([P('anchor_id', 'u8', 7), P('mode', 'u8', 1)],
                    lambda cf, aid, m: _lopo(cf).reboot(aid, m), ref_lopo_reboot),
    'lopo.set_mode': ([P('anchor_id', 'u8', 7), P('mode', 'u8', 2)],
                      lambda cf, aid, m: _lopo(cf).set_mode(aid, m), ref_lopo_mode),
    'platform.set_continous_wave': ([P('enabled', 'bool', True)],
                                    lambda cf, e: cf.platform.set_continous_wave(e), ref_cont_wave),
    'platform.send_arming_request': ([P('do_arm', 'bool', True)],
                                     lambda cf, e: cf.platform.send_arming_request(e), ref_arming),
    'platform.send_crash_recovery_request': ([], lambda cf: cf.platform.send_crash_recovery_request(),
                                             ref_crash_recovery),
}

VERSION_DEPENDENT = ('commander.send_velocity_world_setpoint', 'commander.send_zdistance_setpoint',
                     'commander.send_hover_setpoint', 'hl.go_to', 'hl.spiral')


# ================================================================================================
# the environment: real Crazyflie + recording link
# ================================================================================================

class RecLink:
    """Records what a link driver would transmit: header byte and payload."""
    needs_resending = False

    def __init__(self):
        self.sent = []
        self.objs = []          # the packet objects themselves: a driver queues the object, not a copy

    def send_packet(self, pk):
        h1 = pk.header
        self.sent.append((h1, pk.get_header(), bytes(pk.data)))
        self.objs.append(pk)
        return True


class Env:
    def __init__(self):
        from cflib.crazyflie import Crazyflie
        self.cf = Crazyflie()
        self.link = RecLink()
        self.cf.link = self.link
        self.xm_state = None        # X-mode never set on this Commander

    def fresh_commander(self):
        from cflib.crazyflie.commander import Commander
        self.cf.commander = Commander(self.cf)
        self.xm_state = None

    def configure(self, version, xm):
        plat = self.cf.platform
        if hasattr(plat, '_protocolVersion'):
            plat._protocolVersion = version
        if plat.get_protocol_version() != version:
            # the private field has another name: answer through the public getter instead
            plat.get_protocol_version = lambda v=version: v
        if xm is None:
            if self.xm_state is not None:
                self.fresh_commander()
        else:
            self.cf.commander.set_client_xmode(xm)
            self.xm_state = xm

    def execute(self, cmd, args):
        del self.link.sent[:]
        del self.link.objs[:]
        try:
            COMMANDS[cmd][1](self.cf, *args)
            exc = None
        except Exception as e:  # noqa
            exc = e
        return exc, list(self.link.sent)


_ENVS = {}


def get_env():
    """One real Crazyflie per process (its constructor starts one daemon thread, the param updater)."""
    import os
    pid = os.getpid()
    if pid not in _ENVS:
        _ENVS.clear()
        _ENVS[pid] = Env()
    return _ENVS[pid]


# ================================================================================================
# the oracle
# ================================================================================================

def _field_size(f):
    k = f[0]
    if k in ('c', 'u'):
        return struct.calcsize('<' + f[2])
    if k in ('f', 'fa', 'fany', 'fset', 'q'):
        return 4
    if k == 'b':
        return 1
    if k == 'x':
        return 2
    if k == 'raw':
        return len(f[2])
    raise ValueError(k)


def _f_repr(val):
    """'ok' | 'may' | ('must', reason) for a value that has to travel as binary32."""
    if not _isnum(val):
        return ('must', 'not_a_number_type')
    if isinstance(val, int):
        try:
            val = float(val)
        except OverflowError:
            return ('must', 'f32_overflow')
    if val == val and abs(val) != INF and abs(f32(val)) == INF:
        return ('must', 'f32_overflow')
    return 'ok'


def representable(f):
    k = f[0]
    if k in ('c', 'fany', 'raw'):
        return 'ok'
    if k == 'b':
        return 'ok' if isinstance(f[2], bool) else ('must', 'not_bool')
    if k == 'f':
        return _f_repr(f[2])
    if k == 'fa':
        val, rel = f[2], f[3]
        if val != val or abs(val) == INF:
            return 'ok'
        if abs(val) * (1 - rel) >= F32_OVF:
            return ('must', 'f32_overflow')
        if abs(val) * (1 + rel) >= F32_OVF:
            return 'may'
        return 'ok'
    if k == 'fset':
        rs = [_f_repr(c) for c in f[2]]
        return 'ok' if 'ok' in rs else rs[0]
    if k == 'u':
        val = f[3]
        hi = (1 << (8 * struct.calcsize('<' + f[2]))) - 1
        if isinstance(val, int):            # bool is an int: True == 1
            if val < 0:
                return ('must', 'below_min')
            if val > hi:
                return ('must', 'above_max')
            return 'ok'
        if isinstance(val, float):
            if val != val or abs(val) == INF:
                return ('must', 'not_finite')
            if val < 0:
                return ('must', 'below_min')
            if val > hi:
                return ('must', 'above_max')
            return 'may'                   # a float for an integer field: raising is fine
        return ('must', 'not_a_number_type')
    if k == 'x':
        val = f[2]
        if not _isnum(val):
            return ('must', 'not_a_number_type')
        if val != val or abs(val) == INF:
            return ('must', 'not_finite')
        s = val * 1000.0
        if -32768.0 <= s <= 32767.0:
            return 'ok'
        if -32769.0 < s < 32768.0:
            return 'may'                   # truncation fits, rounding does not: either is fine
        return ('must', 'above_max' if s > 0 else 'below_min')
    if k == 'q':
        q = f[2]
        if len(q) != 4 or not all(_isnum(c) and c == c and abs(c) != INF for c in q):
            return ('must', 'quat_not_normalisable')
        n = math.sqrt(sum(c * c for c in q))
        if n == 0 or n == INF:
            return ('must', 'quat_not_normalisable')
        return 'ok'
    raise ValueError(k)


QUAT_STEP = 1.0 / 511.0 / math.sqrt(2.0)


def ref_quat_decompress(word):
    """quatcompress.h: top 2 bits = index of the dropped (largest, made positive) component; three 10-bit groups
    (sign bit + 9-bit magnitude scaled by 511*sqrt(2)) for the remaining components in ascending index order,
    the first of them in the most significant group."""
    dropped = (word >> 30) & 3
    others = [i for i in range(4) if i != dropped]
    q = [0.0] * 4
    for pos, idx in enumerate(others):
        grp = (word >> (10 * (2 - pos))) & 0x3ff
        mag = (grp & 0x1ff) / 511.0 / math.sqrt(2.0)
        q[idx] = -mag if grp & 0x200 else mag
    q[dropped] = math.sqrt(max(0.0, 1.0 - sum(c * c for c in q)))
    return q


def _f32_eq(got, want):
    e = f32(want)
    if e != e:
        return got != got
    return got == e          # the sign of zero is not demanded


def check_field(f, chunk):
    """Returns (decoded value, None | 'reason')."""
    k = f[0]
    if k == 'c':
        got = struct.unpack('<' + f[2], chunk)[0]
        return got, (None if got == f[3] else 'expected constant %r' % (f[3],))
    if k == 'raw':
        return chunk.hex(), (None if chunk == f[2] else 'expected bytes %s' % f[2].hex())
    if k == 'b':
        got = chunk[0]
        return got, (None if got == int(f[2]) else 'expected %d' % int(f[2]))
    if k == 'u':
        got = struct.unpack('<' + f[2], chunk)[0]
        val = f[3]
        if isinstance(val, int):
            return got, (None if got == int(val) else 'expected %d' % int(val))
        return got, (None if abs(got - val) < 1 else 'expected %r within 1 unit' % (val,))
    if k == 'fany':
        return struct.unpack('<f', chunk)[0], None
    if k == 'f':
        got = struct.unpack('<f', chunk)[0]
        return got, (None if _f32_eq(got, f[2]) else 'expected float32(%r) = %r' % (f[2], f32(f[2])))
    if k == 'fset':
        got = struct.unpack('<f', chunk)[0]
        ok = any(_f_repr(c) == 'ok' and _f32_eq(got, c) for c in f[2])
        return got, (None if ok else 'expected one of %r' % ([f32(c) for c in f[2]],))
    if k == 'fa':
        got = struct.unpack('<f', chunk)[0]
        val, rel = f[2], f[3]
        if val != val:
            return got, (None if got != got else 'expected nan')
        if abs(val) == INF:
            return got, (None if got == val else 'expected %r' % val)
        with np.errstate(all='ignore'):
            ulp = abs(float(np.spacing(np.float32(val)))) if abs(f32(val)) != INF else 2.0 ** 104
        ok = got == got and abs(got - val) <= rel * abs(val) + ulp
        return got, (None if ok else 'expected %r (rel %g)' % (val, rel))
    if k == 'x':
        got = struct.unpack('<h', chunk)[0]
        s = f[2] * 1000.0
        return got, (None if abs(got - s) < 1.0 + 1e-9 else 'expected %r/1000 units within one unit' % s)
    if k == 'q':
        word = struct.unpack('<I', chunk)[0]
        dq = ref_quat_decompress(word)
        q = [float(c) for c in f[2]]
        n = math.sqrt(sum(c * c for c in q))
        qn = [c / n for c in q]
        err = min(max(abs(a - b) for a, b in zip(dq, qn)), max(abs(a + b) for a, b in zip(dq, qn)))
        return [round(c, 5) for c in dq], (None if err <= 2 * QUAT_STEP + 1e-12 else
                                          'expected +/-%r, component error %.3g > %.3g' % (qn, err, 2 * QUAT_STEP))
    raise ValueError(k)


def judge(cmd, args, v, xm, exc, pkts):
    """-> (problems [(sig, what)], outcome token, decoded dict or None)."""
    exp = COMMANDS[cmd][2](args, v, bool(xm))
    probs, outcome, decoded = _judge(cmd, exp, args, v, xm, exc, pkts)
    if exp.one_sig and probs:
        probs = [('%s:%s' % (cmd, exp.one_sig), what) for _, what in probs]
    return probs, outcome, decoded


def _judge(cmd, exp, args, v, xm, exc, pkts):
    probs = []
    ctx = '%s%r protocol=%r xmode=%r' % (cmd, tuple(args), v, xm)
    musts, may = [], exp.may_raise
    for f in exp.fields:
        r = representable(f)
        if r == 'may':
            may = True
        elif r != 'ok':
            musts.append((f[1], r[1]))
    size = sum(_field_size(f) for f in exp.fields)
    if size > 30 and not musts:
        musts.append(('payload', 'over_30_bytes'))
    if exc is not None and pkts:
        probs.append(('%s:packet_sent_and_exception' % cmd, '%s raised %r after transmitting %d packet(s)'
                      % (ctx, exc, len(pkts))))
    if musts:
        fname, reason = musts[0]
        reason = {'above_max': 'out_of_range', 'below_min': 'out_of_range'}.get(reason, reason)
        if pkts:
            h, _, data = pkts[0]
            probs.append(('%s:unrepresentable_sent:%s:%s' % (cmd, fname, reason),
                          '%s: argument %s cannot be represented (%s) but a packet was sent: header 0x%02x data %s'
                          % (ctx, fname, reason, h, data.hex())))
        elif exc is None:
            if not exp.none_ok:
                probs.append(('%s:unrepresentable_no_exception:%s:%s' % (cmd, fname, reason),
                              '%s: argument %s cannot be represented (%s); nothing was sent but nothing was raised'
                              % (ctx, fname, reason)))
        return probs, ('raise', type(exc).__name__ if exc else None, exp.vclass, fname, reason), None
    if not pkts:
        if exp.none_ok or (exc is not None and may):
            return probs, ('none', type(exc).__name__ if exc else None, exp.vclass), None
        if exc is not None:
            probs.append(('%s:raises_on_representable:%s' % (cmd, exp.vclass),
                          '%s raised %r although every argument is representable' % (ctx, exc)))
        else:
            probs.append(('%s:no_packet:%s' % (cmd, exp.vclass), '%s sent nothing' % ctx))
        return probs, ('none', type(exc).__name__ if exc else None, exp.vclass), None
    if len(pkts) != 1:
        probs.append(('%s:packet_count:%s' % (cmd, exp.vclass), '%s sent %d packets' % (ctx, len(pkts))))
    h, h2, data = pkts[0]
    if h != h2 or not (isinstance(h, int) and 0 <= h <= 255):
        probs.append(('%s:header_inconsistent' % cmd, '%s: pk.header=%r, get_header()=%r' % (ctx, h, h2)))
    if not isinstance(h, int) or (h >> 4) != exp.port or (h & 3) != exp.chan:
        probs.append(('%s:wrong_port_channel:%s' % (cmd, exp.vclass),
                      '%s: header 0x%02x is port %d channel %d, firmware expects port %d channel %d'
                      % (ctx, h, h >> 4, h & 3, exp.port, exp.chan)))
    if len(data) > 30:
        probs.append(('%s:payload_over_30' % cmd, '%s: payload of %d bytes transmitted' % (ctx, len(data))))
    decoded = {}
    if len(data) != size:
        probs.append(('%s:wrong_length:%s' % (cmd, exp.vclass),
                      '%s: payload %s has %d bytes, the firmware struct has %d' % (ctx, data.hex(), len(data), size)))
        return probs, ('pkt', h, len(data), exp.vclass), None
    off = 0
    for f in exp.fields:
        n = _field_size(f)
        got, bad = check_field(f, data[off:off + n])
        off += n
        decoded[f[1]] = got
        if bad:
            sig = '%s:field:%s:%s' % (cmd, f[1], exp.vclass)
            probs.append((sig, '%s: field %s decodes to %r, %s (payload %s)' % (ctx, f[1], got, bad, data.hex())))
    return probs, ('pkt', h, data[0] if data else None, len(data), exp.vclass), decoded


# ================================================================================================
# enumeration
# ================================================================================================

def gen_cases(cmd, mode, tier):
    params = COMMANDS[cmd][0]
    base = [p.base for p in params]
    if mode == 'base':
        yield tuple(base)
    elif mode == 'oaat':
        if not params:
            yield ()
        for i, p in enumerate(params):
            for val in p.full(tier):
                a = list(base)
                a[i] = val
                yield tuple(a)
    elif mode == 'cross':
        for a in itertools.product(*[p.reduced() for p in params]):
            yield a
    elif mode == 'cross_noquat':
        for a in itertools.product(*[p.reduced() if p.kind != 'quat' else [p.base] for p in params]):
            yield a
    elif mode == 'pairs_red':
        for i, j in itertools.combinations(range(len(params)), 2):
            for vi in params[i].reduced():
                for vj in params[j].reduced():
                    a = list(base)
                    a[i], a[j] = vi, vj
                    yield tuple(a)
    elif mode == 'triples_red':
        for idx in itertools.combinations(range(len(params)), 3):
            for vals in itertools.product(*[params[i].reduced() for i in idx]):
                a = list(base)
                for i, val in zip(idx, vals):
                    a[i] = val
                yield tuple(a)
    elif mode == 'pairs':
        for i, j in itertools.combinations(range(len(params)), 2):
            fi, fj = params[i].full(tier), params[j].full(tier)
            if params[i].kind == 'quat' or params[j].kind == 'quat':
                fi = fi if params[i].kind != 'quat' else params[i].reduced() + Q_BAD
                fj = fj if params[j].kind != 'quat' else params[j].reduced() + Q_BAD
            for vi in fi:
                for vj in fj:
                    a = list(base)
                    a[i], a[j] = vi, vj
                    yield tuple(a)
    elif mode == 'full':
        for a in itertools.product(*[p.full(tier) if p.kind in ('f', 'thrust', 'yawopt', 'bool') else [p.base]
                                     for p in params]):
            yield a
    else:
        raise ValueError(mode)


def count_mode(cmd, mode, tier):
    params = COMMANDS[cmd][0]
    if mode in ('cross', 'cross_noquat'):
        n = 1
        for p in params:
            n *= len(p.reduced()) if (mode == 'cross' or p.kind != 'quat') else 1
        return n
    if mode == 'full':
        n = 1
        for p in params:
            n *= len(p.full(tier)) if p.kind in ('f', 'thrust', 'yawopt', 'bool') else 1
        return n
    return sum(1 for _ in gen_cases(cmd, mode, tier))


# (command, index in the one-at-a-time enumeration, protocol version, xmode) shown as samples in the evidence file
_SAMPLES = {
    ('commander.send_setpoint', 2, 9, True),            # roll=1.0 in client X-mode
    ('commander.send_setpoint', 78, 9, False),          # thrust=65536 -> must raise
    ('commander.send_hover_setpoint', 54, 8, False),    # yawrate=2.5, legacy type 5, sign flipped
    ('commander.send_hover_setpoint', 54, 9, False),    # yawrate=2.5, type 10
    ('commander.send_full_state_setpoint', 9, 9, False),    # x = 32.767 m -> 0x7fff
    ('commander.send_full_state_setpoint', 13, 9, False),   # x = 32.768 m -> must raise
    ('hl.go_to', 124, 7, False),                        # linear=True, GO_TO (4) without the flag
    ('hl.go_to', 124, 8, False),                        # linear=True, GO_TO_2 (12)
    ('hl.takeoff', 81, 9, False),                       # yaw=None -> useCurrentYaw
}


def part_cmd(job):
    cmd, mode, versions, xmodes, shard, nshards, tier = job
    p = Partial()
    env = get_env()
    old_stdout = sys.stdout
    sys.stdout = _Null()
    try:
        with warnings.catch_warnings(), np.errstate(all='ignore'):
            warnings.simplefilter('ignore')
            idx = -1
            for args in gen_cases(cmd, mode, tier):
                idx += 1
                if idx % nshards != shard:
                    continue
                for v in versions:
                    for xm in xmodes:
                        env.configure(v, xm)
                        exc, pkts = env.execute(cmd, args)
                        probs, outcome, decoded = judge(cmd, args, v, xm, exc, pkts)
                        p.case(key=(cmd, v, xm, repr(args)), outcome=(cmd, outcome))
                        if mode == 'oaat' and len(versions) < 20 and (cmd, idx, v, xm) in _SAMPLES:
                            p.sample({'command': cmd, 'args': repr(args), 'protocol': v, 'xmode': xm,
                                      'raised': repr(exc) if exc else None,
                                      'packet': ['0x%02x' % pkts[0][0], pkts[0][2].hex()] if pkts else None,
                                      'decoded_by_reference': decoded})
                        for sig, what in probs:
                            p.violation(sig, what, {'part': 'cmd', 'cmd': cmd, 'args': repr(args), 'version': v,
                                                    'xmode': xm})
    finally:
        sys.stdout = old_stdout
    return p


# ---- sequences of commands on one object -------------------------------------------------------------

def base_args(cmd):
    return tuple(prm.base for prm in COMMANDS[cmd][0])


def seq_case(p, env, seq, v, xm):
    """Run the commands of seq (base arguments) one after the other on one Crazyflie; every one of them is judged like
    a command issued alone, and a packet handed to the link earlier is not rewritten by a later command."""
    env.fresh_commander()
    env.configure(v, xm)
    held = []
    rp = {'part': 'seq', 'seq': list(seq), 'version': v, 'xmode': xm}
    names = '+'.join(c.split('.', 1)[1] for c in seq)
    for i, cmd in enumerate(seq):
        args = base_args(cmd)
        exc, pkts = env.execute(cmd, args)
        objs = list(env.link.objs)
        probs, outcome, _ = judge(cmd, args, v, xm, exc, pkts)
        if i == len(seq) - 1:
            p.case(key=('seq', seq, v, xm), outcome=('seq', cmd, outcome))
        for sig, what in probs:
            p.violation('seq:after_%s:%s' % ('first' if i == 0 else seq[i - 1].split('.', 1)[1], sig),
                        'sequence %s on one object, step %d: %s' % (names, i + 1, what), rp)
        for cmd0, snaps, objs0 in held:
            for snap, o in zip(snaps, objs0):
                try:
                    now = (o.header, o.get_header(), bytes(o.data))
                except Exception as e:  # noqa
                    now = repr(e)
                if now != snap:
                    p.violation('seq:queued_packet_rewritten:%s' % cmd0,
                                'sequence %s on one object: the packet handed to the link by %s (header 0x%02x data %s) reads %r '
                                'after %s was issued - a link driver that has not transmitted it yet sends the wrong command'
                                % (names, cmd0, snap[0], snap[2].hex(), now, cmd), rp)
        held.append((cmd, pkts, objs))


def seq_jobs(tier):
    cmds = list(COMMANDS)
    seqs = [(a, b) for a in cmds for b in cmds]
    if tier != 'quick':
        gen = [c for c in cmds if c.startswith('commander.') or c.startswith('hl.')]
        seqs += [(a, b, c) for a in gen for b in gen for c in gen]
    nsh = 8 if tier == 'quick' else 32
    return [(tier, s, nsh) for s in range(nsh)], len(seqs), seqs


def part_seq(job):
    tier, shard, nsh = job
    p = Partial()
    env = get_env()
    old_stdout = sys.stdout
    sys.stdout = _Null()
    try:
        with warnings.catch_warnings(), np.errstate(all='ignore'):
            warnings.simplefilter('ignore')
            for i, seq in enumerate(seq_jobs(tier)[2]):
                if i % nsh != shard:
                    continue
                for v in V_SWITCH:
                    for xm in ((None, True) if 'commander.send_setpoint' in seq else (None,)):
                        seq_case(p, env, seq, v, xm)
    finally:
        sys.stdout = old_stdout
    return p


# ---- caller-owned array arguments ---------------------------------------------------------------------

def part_alias(_):
    """Commands that take vectors are given float64 numpy arrays (legal array-likes) which the caller keeps and passes
    again: the arrays are the caller's (unchanged by the call) and the second packet decodes like the first."""
    p = Partial()
    env = get_env()
    old_stdout = sys.stdout
    sys.stdout = _Null()
    try:
        with warnings.catch_warnings(), np.errstate(all='ignore'):
            warnings.simplefilter('ignore')
            fs = base_args('commander.send_full_state_setpoint')
            pos, vel, acc = (np.array(fs[0:3], dtype=np.float64), np.array(fs[3:6], dtype=np.float64),
                             np.array(fs[6:9], dtype=np.float64))
            quat = np.array(fs[9], dtype=np.float64)
            ep = base_args('loc.send_extpose')
            calls = [
                ('commander.send_full_state_setpoint', fs, (pos, vel, acc, quat),
                 lambda cf: cf.commander.send_full_state_setpoint(pos, vel, acc, quat, fs[10], fs[11], fs[12])),
                ('loc.send_extpos', base_args('loc.send_extpos'), (np.array(base_args('loc.send_extpos'), dtype=np.float64),),
                 None),
                ('loc.send_extpose', ep, (np.array(ep[0:3], dtype=np.float64), np.array(ep[3:7], dtype=np.float64)), None),
            ]
            for cmd, args, arrays, call in calls:
                if call is None:
                    if cmd == 'loc.send_extpos':
                        call = (lambda cf, a=arrays: cf.loc.send_extpos(a[0]))
                    else:
                        call = (lambda cf, a=arrays: cf.loc.send_extpose(a[0], a[1]))
                snaps = [a.copy() for a in arrays]
                for rnd in (1, 2, 3):
                    env.fresh_commander()
                    env.configure(9, None)
                    del env.link.sent[:]
                    del env.link.objs[:]
                    try:
                        call(env.cf)
                        exc = None
                    except Exception as e:  # noqa
                        exc = e
                    pkts = list(env.link.sent)
                    probs, outcome, _ = judge(cmd, args, 9, None, exc, pkts)
                    p.case(key=('alias', cmd, rnd), outcome=('alias', cmd, outcome))
                    rp = {'part': 'alias', 'cmd': cmd}
                    for sig, what in probs:
                        p.violation('alias:call_%d_with_the_same_arrays:%s' % (min(rnd, 2), sig),
                                    'call %d with the same float64 arrays: %s' % (rnd, what), rp)
                    if any(not np.array_equal(a, b0) for a, b0 in zip(arrays, snaps)):
                        p.violation('alias:caller_array_modified:%s' % cmd,
                                    '%s was given float64 arrays %r; after the call they read %r' % (
                                        cmd, [b0.tolist() for b0 in snaps], [a.tolist() for a in arrays]), rp)
                        break
    finally:
        sys.stdout = old_stdout
    return p


# ---- headers ---------------------------------------------------------------------------------------

def _hdr_ok(h, port, chan):
    return isinstance(h, int) and 0 <= h <= 255 and (h >> 4) == port and (h & 3) == chan


def _hdr_case(p, env, how, prev, port, chan):
    from cflib.crtp.crtpstack import CRTPPacket
    rp = {'part': 'header', 'how': how, 'prev': prev, 'port': port, 'chan': chan}
    try:
        if how == 'constructor':
            pk = CRTPPacket(header=(port << 4) | chan | (prev or 0))     # prev = value of the two reserved bits
        elif how == 'constructor_data':
            pk = CRTPPacket((port << 4) | chan, data=[1, 2, 3])
        else:
            pk = CRTPPacket()
            if prev is not None:
                pk.set_header(prev[0], prev[1])
            if how == 'set_header':
                pk.set_header(port, chan)
            elif how == 'port_then_channel':
                pk.port = port
                pk.channel = chan
            elif how == 'channel_then_port':
                pk.channel = chan
                pk.port = port
            elif how == 'port_only':                  # channel must stay what it was
                pk.port = port
                chan = prev[1] if prev is not None else 0
            elif how == 'channel_only':               # port must stay what it was
                pk.channel = chan
                port = prev[0] if prev is not None else 0
            else:
                raise ValueError(how)
        if how != 'constructor_data':
            pk.data = b'\x55\xaa'
        del env.link.sent[:]
        env.cf.send_packet(pk)
        sent = list(env.link.sent)
        obs = (pk.port, pk.channel, sent)
        exc = None
    except Exception as e:  # noqa
        exc, obs, sent = e, None, []
    p.case(key=('hdr', how, repr(prev), port, chan), outcome=('hdr', how, port >= 8, chan, exc is None))
    if exc is not None:
        p.violation('header:%s:raises' % how, 'header %s port=%d channel=%d (previous %r) raised %r'
                    % (how, port, chan, prev, exc), rp)
        return
    want_data = b'\x01\x02\x03' if how == 'constructor_data' else b'\x55\xaa'
    ok = (len(sent) == 1 and _hdr_ok(sent[0][0], port, chan) and sent[0][0] == sent[0][1] and sent[0][2] == want_data
          and obs[0] == port and obs[1] == chan)
    if not ok:
        h = sent[0][0] if len(sent) == 1 and isinstance(sent[0][0], int) else None
        if h is None:
            cls = 'packet_count'
        elif sent[0][2] != want_data:
            cls = 'data_lost'
        elif sent[0][0] != sent[0][1]:
            cls = 'header_attribute_vs_get_header'
        else:
            cls = '+'.join(n for n, bad in (('port_lost', (h >> 4) != port or obs[0] != port),
                                            ('channel_lost', (h & 3) != chan or obs[1] != chan)) if bad) or 'header_range'
        p.violation('header:%s:%s' % (how, cls),
                    'header via %s port=%d channel=%d (previous state %r): transmitted %r, packet says port=%r channel=%r; '
                    'expected header byte with port in bits 7..4 and channel in bits 1..0'
                    % (how, port, chan, prev, [('0x%02x' % s[0] if isinstance(s[0], int) else s[0], s[2].hex())
                                               for s in sent], obs[0], obs[1]), rp)
    elif how == 'set_header' and prev is None and (port, chan) in ((3, 0), (13, 1), (15, 3)):
        p.sample({'header_via': how, 'port': port, 'channel': chan, 'header_byte': '0x%02x' % sent[0][0]})


def part_header(job):
    how, prevs = job
    p = Partial()
    env = get_env()
    if how == 'constructor':
        for res in (0, 4, 8, 12):
            for port in range(16):
                for chan in range(4):
                    _hdr_case(p, env, how, res, port, chan)
        return p
    for prev in prevs:
        for port in range(16):
            for chan in range(4):
                _hdr_case(p, env, how, prev, port, chan)
    return p


# ================================================================================================
# run / replay
# ================================================================================================

V_QUICK = (-1, 0, 3, 7, 8, 9, 10, 255)
V_SWITCH = (7, 8, 9)
V_ALL = tuple(range(-1, 256))
XM_ALL = (None, False, True)


def _jobs(tier):
    jobs = []
    notes = {}

    def add(cmd, mode, versions, xms, per_job=150000, atier=tier):
        # atier selects the quaternion lattice of the full-state command (5^4 or 9^4 levels)
        n = count_mode(cmd, mode, atier)
        total = n * len(versions) * len(xms)
        nsh = max(1, min(n, 64, -(-total // per_job)))
        for s in range(nsh):
            jobs.append((cmd, mode, tuple(versions), tuple(xms), s, nsh, atier))
        notes.setdefault(cmd, {})[mode if len(versions) < 20 else mode + '_all_versions'] = n
        return n

    for cmd in COMMANDS:
        n_cross = count_mode(cmd, 'cross', tier)
        vv = V_SWITCH if cmd in VERSION_DEPENDENT else (9,)
        xx = (False, True) if cmd == 'commander.send_setpoint' else (False,)
        # quick -----------------------------------------------------------------------------------
        add(cmd, 'oaat', V_QUICK, XM_ALL)
        if n_cross <= 40000:
            add(cmd, 'cross', V_QUICK, XM_ALL)
        else:
            add(cmd, 'pairs_red', V_QUICK, XM_ALL)
            add(cmd, 'triples_red', (9,), (False,))
        add(cmd, 'pairs', vv, xx, 60000)
        # thorough --------------------------------------------------------------------------------
        if tier != 'quick':
            xa = XM_ALL if cmd == 'commander.send_setpoint' else (False,)
            add(cmd, 'oaat', V_ALL, xa, atier='quick')
            add(cmd, 'pairs_red', V_ALL, xa, atier='quick')
            if n_cross > 40000:
                add(cmd, 'cross_noquat', (9,), (False,), 40000)
            if 1 < count_mode(cmd, 'full', tier) <= 400000:
                add(cmd, 'full', (8, 9) if cmd in VERSION_DEPENDENT else (9,), xx)
    return jobs, notes


def _header_jobs():
    states = [(a, b) for a in range(16) for b in range(4)]
    jobs = [('constructor', None), ('constructor_data', [None])]
    for how in ('set_header', 'port_then_channel', 'channel_then_port', 'port_only', 'channel_only'):
        jobs.append((how, [None] + states))
    return jobs


def _dispatch(job):
    kind, arg = job
    return (part_cmd(arg) if kind == 'cmd' else part_seq(arg) if kind == 'seq' else part_alias(arg) if kind == 'alias'
            else part_header(arg))


def run(ck):
    ck.rule = ('per command (%d public commands of Commander, HighLevelCommander, Localization, Extpos, PlatformService, '
               'LoPoAnchor on a real Crazyflie with a recording link): [oaat] one argument at a time over the full alphabets '
               '(%d floats incl. -0.0, float32 max, the exact float32 overflow threshold, 1e39, +/-inf, nan; %d fixed-point '
               'values around +/-32.767 and the 65.536 wrap points; integers min-1..max+1; %d thrust values; None and '
               'omitted for optional arguments; payload lengths 0..30; %d base-station lists; quaternion lattice 5^4 x 3 '
               'scales) x versions %r x X-mode never-set/off/on; [cross] full cross product over the reduced alphabets '
               '{0,1,-2.5}/{0,1,max}/bools/{0,1,65535,-1,65536} (full state: all pairs and triples) x the same versions '
               'and X-modes; [pairs] every pair of arguments over the full alphabets at versions 7,8,9 (version-dependent '
               'commands) or 9. thorough adds: oaat and reduced pairs at every version -1..255, the full float cross product '
               '(24^3..24^4, versions 8 and 9) for every command with <= 400k combinations, the 3^12 reduced cross and the '
               '9^4 x 3 quaternion lattice for full state. Headers: 16 ports x 4 channels through the constructor (all 256 '
               'header bytes), constructor with data, set_header, port/channel setters in both orders and singly, from a '
               'fresh packet and from each of the 64 previous states. distinct = distinct (command, version, xmode, args) '
               'or (header route, previous state, port, channel) tuples. Sequences: every ordered pair of the %d commands '
               '(thorough: every ordered triple of the Commander / HighLevelCommander commands) with base arguments on one '
               'Crazyflie at the versions around each switch: each command judged as if issued alone, packets handed to '
               'the link earlier not rewritten'
               % (len(COMMANDS), len(F_FULL), len(X_FULL), len(THRUST_FULL), len(BS_FULL), V_QUICK, len(COMMANDS)))
    ck.assume('reference wire table (port, channel, type byte, struct layout, scale, sign, version switch) is an '
              'independent transcription of the firmware structs written in this check; the firmware itself is not run')
    ck.assume('legacy generic setpoint types 1/2/5 (yaw rate negated) are what protocol versions <= 8 understand, new '
              'types 8/9/10 from version 9; GO_TO_2 (12) and SPIRAL (11) exist from version 8, GO_TO (4) before')
    ck.assume('the recording link stands for every link driver: all drivers transmit pk.header (prrt: get_header()) '
              'followed by pk.data; both are recorded and must agree')
    ck.assume('float32 rounding reference is numpy.float32 (round to nearest even, overflow -> unrepresentable); the '
              'quaternion field is decoded by an independent decompressor, tolerance 2 steps of 1/511/sqrt(2)')
    ck.assume('fixed-point fields: |wire - value*1000| < 1 unit; physical unit of the full-state rates is not judged')
    jobs, notes = _jobs(ck.tier)
    sjobs, nseq, _ = seq_jobs(ck.tier)
    alljobs = ([('cmd', j) for j in jobs] + [('hdr', j) for j in _header_jobs()] + [('seq', j) for j in sjobs]
               + [('alias', None)])
    ck.note('command_sequences_on_one_object', nseq)
    ck.pmap(_dispatch, alljobs)
    ck.exhaustive = True
    ck.note('commands', sorted(COMMANDS))
    ck.note('per_command_case_counts', notes)
    ck.note('protocol_versions', list(V_QUICK) if ck.quick else 'every value -1..255')
    ck.note('float_alphabet', [repr(x) for x in F_FULL])
    ck.note('fixed_point_alphabet', [repr(x) for x in X_FULL])
    ck.note('not_demanded', ['sign of float zero', 'reserved header bits 3..2', 'ports > 15 / channels > 3',
                             'spiral angle beyond 2pi / negative radii: raw, documented clamp or exception accepted',
                             'spiral on protocol < 8: nothing sent accepted', 'go_to linear flag on protocol < 8',
                             'float thrust: exception or within one unit', 'int16 border where truncation fits but '
                             'rounding does not', 'yaw field when useCurrentYaw', 'unit of full-state rates'])
    ck.note('jobs', len(alljobs))


def replay(ck, data):
    if data.get('part') == 'header':
        p = Partial()
        prev = data['prev']
        if isinstance(prev, list):
            prev = tuple(prev)
        _hdr_case(p, Env(), data['how'], prev, data['port'], data['chan'])
        print('header case %r -> %s' % (data, 'ok' if not p.violations else p.violations[0]['what']))
        for v in p.violations:
            ck.violation(v['sig'], v['what'], data)
        return
    if data.get('part') == 'alias':
        p = part_alias(None)
        for v in p.violations:
            print('  VIOLATES %s: %s' % (v['sig'], v['what']))
            ck.violation(v['sig'], v['what'], data)
        return
    if data.get('part') == 'seq':
        p = Partial()
        old = sys.stdout
        sys.stdout = _Null()
        try:
            with warnings.catch_warnings(), np.errstate(all='ignore'):
                warnings.simplefilter('ignore')
                seq_case(p, Env(), tuple(data['seq']), data['version'], data['xmode'])
        finally:
            sys.stdout = old
        print('sequence %r protocol=%r xmode=%r -> %s' % (data['seq'], data['version'], data['xmode'],
                                                         'conforms' if not p.violations else ''))
        for v in p.violations:
            print('  VIOLATES %s: %s' % (v['sig'], v['what']))
            ck.violation(v['sig'], v['what'], data)
        return
    cmd, v, xm = data['cmd'], data['version'], data['xmode']
    args = eval(data['args'], {'__builtins__': {}}, {'nan': NAN, 'inf': INF, 'DEF': DEF, 'bytearray': bytearray})
    env = Env()
    old = sys.stdout
    sys.stdout = _Null()
    try:
        with warnings.catch_warnings(), np.errstate(all='ignore'):
            warnings.simplefilter('ignore')
            env.configure(v, xm)
            exc, pkts = env.execute(cmd, args)
    finally:
        sys.stdout = old
    probs, outcome, decoded = judge(cmd, args, v, xm, exc, pkts)
    print('%s%r protocol=%r xmode=%r' % (cmd, tuple(args), v, xm))
    print('  raised : %r' % (exc,))
    print('  packets: %r' % ([('0x%02x' % h, d.hex()) for h, _, d in pkts],))
    print('  decoded by the reference table: %r' % (decoded,))
    for sig, what in probs:
        print('  VIOLATES %s: %s' % (sig, what))
        ck.violation(sig, what, data)
    if not probs:
        print('  conforms')
