"""C05 — log blocks are created as configured and log data decodes to device values.

Sequential parts (thread-free harness vf/seqcf.py: real Crazyflie, real dispatcher loop pumped on
the calling thread, SimCF as device):
  accept  - every variable list / period of the alphabet through Log.add_config + LogConfig.start:
            acceptance rule, nothing sent when rejected, create/append messages decoded by the
            device model, flags after the acknowledgements;
  decode  - for every accepted list, data packets with extreme values and 24-bit timestamps;
  life    - explicit-state BFS over add / start / stop / delete / ack (status 0, EEXIST, ENOENT,
            ENOMEM) / duplicate ack / disconnect+reconnect histories against a flag model.
Scheduled part (E3): SyncLogger consumer thread vs dispatcher vs disconnect.
"""
import itertools
import struct

import numpy as np

from vf import simcf
from vf.core import HarnessError, Partial

ID = 'C05'
LEVEL = 'model_checking'

TYPES = {1: ('uint8_t', '<B', 1), 2: ('uint16_t', '<H', 2), 3: ('uint32_t', '<L', 4), 4: ('int8_t', '<b', 1),
         5: ('int16_t', '<h', 2), 6: ('int32_t', '<i', 4), 7: ('float', '<f', 4), 8: ('FP16', '<e', 2)}
CNAME = {v[0]: k for k, v in TYPES.items()}
EEXIST, ENOENT, ENOMEM = 17, 2, 12


def _toc():
    """8 typed variables, 27 one-byte ones, fillers, and typed variables with ids above 255."""
    v = []
    for t in range(1, 9):
        v.append(simcf.LogVar('t', TYPES[t][0].replace('_t', ''), t))          # ids 0..7
    for i in range(27):
        v.append(simcf.LogVar('u', 'b%d' % i, 1))                                # ids 8..34
    for i in range(225):
        v.append(simcf.LogVar('fill%d' % (i // 30), 'x%d' % i, 1 + i % 8))
    v.append(simcf.LogVar('hi', 'f', 7))                                         # id 260
    v.append(simcf.LogVar('hi', 'b', 1))                                         # id 261
    v.append(simcf.LogVar('hi', 'h', 8))                                         # id 262
    return v


def _dev(proto=10, small=False):
    log = _toc() if not small else [simcf.LogVar('t', 'a', 7), simcf.LogVar('t', 'b', 1), simcf.LogVar('t', 'c', 5)]
    return simcf.SimCF(protocol=proto, log=log, params=())


def _id_of(dev, name):
    for i, v in enumerate(dev.log):
        if v.group + '.' + v.name == name:
            return i, v.tcode
    return None, None


# ---- variable lists ----------------------------------------------------------------------------
# entry: ('toc', name, fetch_as or None) | ('mem', name, fetch_as, stored_as, address)
def variable_lists():
    out = []
    tn = ['t.uint8', 't.uint16', 't.uint32', 't.int8', 't.int16', 't.int32', 't.float', 't.FP16']
    out.append(('empty', []))
    for name in tn:                                     # default fetch type
        out.append(('default:' + name, [('toc', name, None)]))
    for name in tn:                                     # every stored x fetch combination
        for f in TYPES.values():
            out.append(('fetch:%s:%s' % (name, f[0]), [('toc', name, f[0])]))
    for n in range(1, 28):                              # counts 1..27 of 1-byte variables
        out.append(('count:%d' % n, [('toc', 'u.b%d' % i, 'uint8_t') for i in range(n)]))
    for k in range(0, 5):                               # payload 24..28: six floats + k bytes
        out.append(('floats6+%d' % k, [('toc', 't.float', 'float')] * 0 + [('toc', 'fill%d.x%d' % (i // 30, i), 'float')
                                                                            for i in (6, 14, 22, 30, 38, 46)]
                    + [('toc', 'u.b%d' % i, 'uint8_t') for i in range(k)]))
    for n in (12, 13, 14):                              # 24 / 26 / 28 bytes of uint16
        out.append(('u16x%d' % n, [('toc', 'fill%d.x%d' % (i // 30, i), 'uint16_t') for i in range(1, 1 + 8 * n, 8)]))
    out.append(('u16x13+b', [('toc', 'fill%d.x%d' % (i // 30, i), 'uint16_t') for i in range(1, 105, 8)] + [('toc', 'u.b0', 'uint8_t')]))
    out.append(('hi-ids', [('toc', 'hi.f', None), ('toc', 'hi.b', 'uint16_t'), ('toc', 'hi.h', None), ('toc', 't.float', 'FP16')]))
    out.append(('hi-ids-9+1', [('toc', 'u.b%d' % i, 'uint8_t') for i in range(8)] + [('toc', 'hi.b', None), ('toc', 'hi.f', 'float')]))
    out.append(('mixed-default', [('toc', 't.int16', None), ('toc', 't.float', 'float'), ('toc', 't.FP16', None), ('toc', 'u.b3', None)]))
    for pos in range(3):                                # one missing name at each position
        lst = [('toc', 't.uint8', 'uint8_t'), ('toc', 't.float', None), ('toc', 't.int16', 'int16_t')]
        lst[pos] = ('toc', 'no.such', lst[pos][2])
        out.append(('missing@%d' % pos, lst))
    out.append(('missing-group', [('toc', 'nogroup.uint8', 'uint8_t')]))
    # raw memory variables
    out.append(('mem1', [('mem', 'm0', 'float', 'uint32_t', 0x20001000)]))
    out.append(('mem+toc', [('toc', 't.float', None), ('mem', 'm1', 'uint8_t', 'uint8_t', 0xE000ED00), ('toc', 'u.b1', None)]))
    out.append(('mem-many', [('mem', 'm%d' % i, 'uint8_t', 'uint16_t', 0x1000 + 4 * i) for i in range(7)]))
    # payload limit with raw-memory variables counted: 26 table bytes + 1 memory byte, 6 floats + uint32, 7 float memories
    out.append(('count26+mem1', [('toc', 'u.b%d' % i, 'uint8_t') for i in range(26)] + [('mem', 'mx', 'uint8_t', 'uint8_t', 0x100)]))
    out.append(('count25+mem1', [('toc', 'u.b%d' % i, 'uint8_t') for i in range(25)] + [('mem', 'mx', 'uint8_t', 'uint8_t', 0x100)]))
    out.append(('floats6+mem_u32', [('toc', 'fill%d.x%d' % (i // 30, i), 'float') for i in (6, 14, 22, 30, 38, 46)]
                + [('mem', 'my', 'uint32_t', 'uint32_t', 0x200)]))
    out.append(('mem7float', [('mem', 'f%d' % i, 'float', 'float', 0x300 + 4 * i) for i in range(7)]))
    # the payload is made of the *fetch* types: stored and fetch type of different sizes on both sides of the limit
    out.append(('mem7:u8_fetched_as_float', [('mem', 'g%d' % i, 'float', 'uint8_t', 0x600 + i) for i in range(7)]))      # 28
    out.append(('mem7:float_fetched_as_fp16', [('mem', 'g%d' % i, 'FP16', 'float', 0x700 + 4 * i) for i in range(7)]))   # 14
    out.append(('mem26:u32_fetched_as_u8', [('mem', 'g%d' % i, 'uint8_t', 'uint32_t', 0x800 + 4 * i) for i in range(26)]))  # 26
    out.append(('mem13:u8_fetched_as_u16', [('mem', 'g%d' % i, 'uint16_t', 'uint8_t', 0x900 + i) for i in range(13)]))   # 26
    out.append(('mem14:u8_fetched_as_u16', [('mem', 'g%d' % i, 'uint16_t', 'uint8_t', 0xa00 + i) for i in range(14)]))   # 28
    # every sequence of table ('T') and raw-memory ('M') one-byte variables up to a length: every way the 3-byte and
    # 5-byte records can fall on the 30-byte message boundary
    for L in range(1, (13 if _MIX_DEEP else 11)):
        for pat in itertools.product('TM', repeat=L):
            if 'M' not in pat or 'T' not in pat:
                continue
            lst = []
            for i, ch in enumerate(pat):
                lst.append(('toc', 'u.b%d' % i, 'uint8_t') if ch == 'T' else ('mem', 'q%d' % i, 'uint8_t', 'uint8_t', 0x500 + i))
            out.append(('mix:' + ''.join(pat), lst))
    out.append(('mem6float+u16', [('mem', 'f%d' % i, 'float', 'float', 0x300 + 4 * i) for i in range(6)] + [('mem', 'h', 'uint16_t', 'uint16_t', 0x400)]))
    return out


_MIX_DEEP = False
PERIODS = (0, 9, 10, 19, 20, 100, 1000, 2540, 2549, 2550, 2560, 10.5, 99.9)


def _build_conf(lst, period):
    from cflib.crazyflie.log import LogConfig
    conf = LogConfig('c', period)
    for e in lst:
        if e[0] == 'toc':
            conf.add_variable(e[1], e[2])
        else:
            conf.add_memory(e[1], e[2], e[3], e[4])
    return conf


def _expected_vars(dev, lst):
    """Reference: [(kind, ident-or-address, fetch type id, stored type id or None)] or None if a name is missing."""
    out = []
    # the library resolves default-fetch variables at add_config time and appends them after the explicit ones
    explicit = [e for e in lst if not (e[0] == 'toc' and e[2] is None)]
    defaults = [e for e in lst if e[0] == 'toc' and e[2] is None]
    for e in explicit + defaults:
        if e[0] == 'toc':
            ident, tcode = _id_of(dev, e[1])
            if ident is None:
                return None
            out.append(('toc', ident, CNAME[e[2]] if e[2] else tcode, None, e[1]))
        else:
            out.append(('mem', e[4], CNAME[e[2]], CNAME[e[3]], e[1]))
    return out


def part_accept(job):
    from vf import seqcf
    lists, periods = job
    p = Partial()
    dev = _dev()
    cf, link = seqcf.connect_log(dev)
    cbs = []
    for lname, lst in lists:
        for period in periods:
            rp = {'part': 'accept', 'list': lname, 'period': period}
            exp_vars = _expected_vars(dev, lst)
            size = sum(TYPES[v[2]][2] for v in exp_vars) if exp_vars is not None else None
            per_ok = 1 <= int(period / 10) <= 254
            per_amb = 2540 < period < 2550          # statement says "2.54 s", the wire field allows up to 2549
            should = exp_vars is not None and size <= 26 and per_ok
            conf = _build_conf(lst, period)
            del cbs[:]
            conf.added_cb.add_callback(lambda c, a: cbs.append(('added', a)))
            conf.started_cb.add_callback(lambda c, s_: cbs.append(('started', s_)))
            tx0 = len(link.tx)
            nblocks0 = len(cf.log.log_blocks)
            try:
                cf.log.add_config(conf)
                raised = None
            except Exception as e:  # noqa
                raised = e
            cls = 'missing_name' if exp_vars is None else 'size>26' if size > 26 else 'period' if not per_ok else 'ok'
            p.case(key=(lname, period), outcome=(cls, raised is None),
                   sample={'list': lname, 'period_ms': period, 'payload_bytes': size, 'accepted': raised is None}
                   if lname in ('count:26', 'count:27', 'floats6+2', 'hi-ids') and period in (10, 2550) else None)
            p.states += 1
            if per_amb and exp_vars is not None and size <= 26:
                should = raised is None
            if should and raised is not None:
                p.violation('accept:rejected_valid:%s' % (lname.split(':')[0]), 'add_config(list %s, period %r ms, payload %r bytes) '
                            'raised %r' % (lname, period, size, raised), rp)
                continue
            if not should:
                sent = link.tx[tx0:]
                if raised is None:
                    try:
                        conf.start()
                        seqcf.pump(cf)
                    except Exception:  # noqa
                        pass
                    sent = link.tx[tx0:]
                if raised is None or sent or conf.valid:
                    p.violation('accept:invalid_not_rejected:%s' % cls, 'add_config(list %s, period %r ms, payload %r bytes): '
                                'raised=%r valid=%r packets sent=%r' % (lname, period, size, raised, conf.valid,
                                                                        [d.hex() for _, d in sent][:3]), rp)
                    cf.log.log_blocks[:] = cf.log.log_blocks[:nblocks0]
                elif cls == 'period' and exp_vars is not None and size <= 26:
                    # the application corrects the period of the refused configuration and adds the same object again:
                    # it must then list exactly its variables, once each
                    conf.period_in_ms = 100
                    conf.period = 10
                    try:
                        cf.log.add_config(conf)
                        got_names = [(v.name if v.is_toc_variable() else 'mem') for v in conf.variables]
                        want_names = [(v[4] if v[0] == 'toc' else 'mem') for v in exp_vars]
                        p.case(key=('readd_after_refusal', lname, period), outcome=('readd', len(got_names)))
                        if not conf.valid or sorted(got_names) != sorted(want_names):
                            p.violation('accept:variable_list_after_refused_add', 'list %s refused for its period (%r ms), period '
                                        'corrected, added again: valid=%r, variables %r, requested %r' % (
                                            lname, period, conf.valid, got_names, want_names), rp)
                    except Exception as e:  # noqa
                        p.violation('accept:readd_after_refusal_raises', 'list %s refused for its period, corrected, added '
                                    'again: raised %r' % (lname, e), rp)
                    cf.log.log_blocks[:] = cf.log.log_blocks[:nblocks0]
                continue
            if not conf.valid or link.tx[tx0:]:
                p.violation('accept:state_after_add', 'accepted list %s: valid=%r, packets sent by add_config=%r' % (
                    lname, conf.valid, link.tx[tx0:]), rp)
            # ---- create / append ----
            try:
                conf.start()
            except Exception as e:  # noqa
                kind = 'mem' if any(e2[0] == 'mem' for e2 in lst) else 'toc'
                p.violation('create:raises:%s:%s' % (kind, type(e).__name__), 'start() of accepted list %s raised %r' % (lname, e), rp)
                cf.log.log_blocks[:] = cf.log.log_blocks[:nblocks0]
                continue
            msgs = [d for h, d in link.tx[tx0:] if (h >> 4) == 5 and (h & 3) == 1]
            p.transitions += len(msgs)
            _check_create(p, rp, lname, conf, msgs, exp_vars, dev)
            rw = link.rewritten(tx0)
            if rw:
                p.violation('create:queued_message_rewritten', 'list %s: message %d of the creation (%s) reads %r once the later '
                            'messages have been handed to the link - a driver that queues packet objects transmits the wrong '
                            'bytes' % (lname, rw[0][0], rw[0][1][1].hex(), rw[0][2]), rp)
            seqcf.pump(cf)
            after = [d for h, d in link.tx[tx0:] if (h >> 4) == 5 and (h & 3) == 1][len(msgs):]
            if not conf.added or not conf.started or cbs != [('added', True), ('started', True)]:
                p.violation('create:flags_after_ack', 'list %s: added=%r started=%r callbacks=%r after the device acknowledged; '
                            'device blocks=%r' % (lname, conf.added, conf.started, cbs, {k: (len(v['vars']), v['started']) for k, v in dev.blocks.items()}), rp)
            elif after != [bytes([3, conf.id, int(period / 10)])]:
                p.violation('create:start_message', 'list %s: after the create ack the library sent %r, expected start(id, period)'
                            % (lname, [a.hex() for a in after]), rp)
            # ---- data decode ----
            if exp_vars is not None:
                _check_decode(p, rp, lname, conf, cf, link, exp_vars, dev)     # an empty block sends time stamps only
            # clean up so that block / variable limits are never reached
            conf.delete()
            seqcf.pump(cf)
            cf.log.log_blocks[:] = cf.log.log_blocks[:nblocks0]
            dev.blocks.clear()
    return p


def _check_create(p, rp, lname, conf, msgs, exp_vars, dev):
    if not msgs:
        p.violation('create:no_message', 'list %s: start() sent nothing' % lname, rp)
        return
    has_mem = any(v[0] == 'mem' for v in exp_vars)
    kind = 'mem' if has_mem else 'toc'
    for i, m in enumerate(msgs):
        if len(m) > 30:
            p.violation('create:message_too_long:%s' % kind, 'list %s: message %d has %d bytes' % (lname, i, len(m)), rp)
            return
        want_cmd = 6 if i == 0 else 7
        if m[0] != want_cmd or m[1] != conf.id:
            p.violation('create:command_sequence:%s' % kind, 'list %s: message %d starts with %r, expected cmd %d id %d' % (
                lname, i, list(m[:2]), want_cmd, conf.id), rp)
            return
    # decode with the firmware rule
    got = []
    for i, m in enumerate(msgs):
        body = m[2:]
        j = 0
        while j < len(body):
            t = body[j]
            stored = t >> 4
            if has_mem and _is_mem_record(exp_vars, len(got)):
                if j + 5 > len(body):
                    break
                got.append(('mem', struct.unpack('<I', body[j + 1:j + 5])[0], t & 0x0f, stored))
                j += 5
            else:
                if j + 3 > len(body):
                    break               # dangling partial record: ignored by the firmware
                got.append(('toc', body[j + 1] | (body[j + 2] << 8), t & 0x0f, None))
                j += 3
        # split rule: a message may only end early if the next record would not have fitted
    exp = [(v[0], v[1], v[2], v[3]) for v in exp_vars]
    if got != exp:
        miss = 'duplicated' if len(got) > len(exp) else 'missing' if len(got) < len(exp) else 'different'
        p.violation('create:variables_%s:%s' % (miss, kind), 'list %s: the device decodes the create/append messages to %r, '
                    'the configuration is %r (messages %r)' % (lname, got[:12], exp[:12], [m.hex() for m in msgs]), rp)
        return
    if not has_mem:
        # splits exactly where the next triple would not fit: every message but the last carries 9 records
        for i, m in enumerate(msgs[:-1]):
            if (len(m) - 2) // 3 != 9:
                p.violation('create:split_position', 'list %s: message %d carries %d records although more would fit' % (
                    lname, i, (len(m) - 2) // 3), rp)


def _is_mem_record(exp_vars, idx):
    return idx < len(exp_vars) and exp_vars[idx][0] == 'mem'


_EXTREMES = {
    1: [0, 1, 255], 2: [0, 258, 65535], 3: [0, 0x01020304, 2 ** 32 - 1], 4: [-128, -1, 127], 5: [-32768, -2, 32767],
    6: [-2 ** 31, -3, 2 ** 31 - 1], 7: [0.0, -0.0, 0.1, 3.4028234663852886e38, float('inf'), float('nan'), 1e-45],
    8: [0.0, -0.0, 1.0, 65504.0, 6e-8, float('inf'), float('nan'), -2.5],
}


def _check_decode(p, rp, lname, conf, cf, link, exp_vars, dev):
    got = []
    held = []       # the dictionaries as delivered (a consumer such as SyncLogger queues them) with their content at delivery
    conf.data_received_cb.add_callback(lambda ts, data, c: (got.append((ts, dict(data), c)), held.append((ts, data, dict(data)))))
    rounds = max([len(_EXTREMES[v[2]]) for v in exp_vars] + [4])
    names = [v[4] for v in exp_vars]
    if len(set(names)) != len(names):
        return          # duplicate names in one configuration: the value dictionary cannot hold both (not demanded)
    for r in range(rounds):
        for ts in ((0, 1, 0xFFFFFF, 0x123456)[r % 4],):
            payload = b''
            expd = {}
            for v in exp_vars:
                ft = v[2]
                val = _EXTREMES[ft][r % len(_EXTREMES[ft])]
                b = struct.pack(TYPES[ft][1], val)
                payload += b
                if ft == 8:
                    ev = float(np.frombuffer(b, dtype='<f2')[0])
                elif ft == 7:
                    ev = float(np.frombuffer(b, dtype='<f4')[0])
                else:
                    ev = val
                expd[v[4]] = ev
            del got[:]
            link.rxq.append(dev.log_data_packet(conf.id, ts, payload))
            from vf import seqcf
            seqcf.pump(cf)
            p.transitions += 1
            ok = len(got) == 1 and got[0][0] == ts and got[0][2] is conf and set(got[0][1]) == set(expd)
            if ok:
                for k, ev in expd.items():
                    g = got[0][1][k]
                    if isinstance(ev, float):
                        if ev != ev:
                            ok = ok and g != g
                        else:
                            ok = ok and g == ev and np.copysign(1, g) == np.copysign(1, ev)
                    else:
                        ok = ok and g == ev and not isinstance(g, float)
            if not ok:
                p.violation('decode:mismatch:%s' % ('timestamp' if got and got[0][0] != ts else 'values'),
                            'list %s: data packet ts=%#x values %r decoded as %r' % (lname, ts, expd, [(g[0], g[1]) for g in got]), rp)
                return
    for k, (ts, obj, snap) in enumerate(held):
        same = set(obj) == set(snap) and all((obj[n] == snap[n]) or (obj[n] != obj[n] and snap[n] != snap[n]) for n in snap)
        if not same:
            p.violation('decode:earlier_sample_changed', 'list %s: the values delivered for data packet %d (ts=%#x) read %r after '
                        'later packets were decoded, they were %r at delivery' % (lname, k, ts, obj, snap), rp)
            return


# ---------------------------------------------------------------------------------------------
# life cycle BFS
# ---------------------------------------------------------------------------------------------
EVENTS = ('add', 'start', 'stop', 'delete', 'ack', 'ack:EEXIST', 'ack:ENOENT', 'ack:ENOMEM', 'dup', 'reconnect')


class _Life:
    """Builds the implementation state reached by a history, together with the reference model."""

    def __init__(self, nvars):
        from vf import seqcf
        self.seqcf = seqcf
        self.dev = _dev(small=True)
        self.cf, self.link = seqcf.connect_log(self.dev)
        self.link.manual = lambda h, d: (h >> 4) == 5 and (h & 3) == 1 and d[0] != 5
        from cflib.crazyflie.log import LogConfig
        self.conf = LogConfig('c', 100)
        names = ['t.a', 't.b', 't.c']
        for i in range(nvars):
            if i % 2 == 0:
                self.conf.add_variable(names[i % 3], None)          # default fetch type
            else:
                self.conf.add_variable(names[i % 3], 'uint8_t')
        self.nvars = nvars
        self.cbs = []
        # state-change notifications are (config, value); the library also reports refused create/start requests through
        # the same Callers with other argument shapes - those are error notifications and not judged
        self.conf.added_cb.add_callback(lambda *a: self.cbs.append(('added', a[1])) if (
            len(a) == 2 and a[0] is self.conf) else None)
        self.conf.started_cb.add_callback(lambda *a: self.cbs.append(('started', a[1])) if (
            len(a) == 2 and a[0] is self.conf) else None)
        # model
        self.m_added = False
        self.m_started = False
        self.m_cbs = []
        self.m_in_log = False          # configuration known to the Log object (add_config succeeded this session)
        self.last_ack = None
        self.errors = []
        self.adds = 0

    def enabled(self, ev):
        if ev.startswith('ack'):
            return bool(self.link.held)
        if ev == 'dup':
            return self.last_ack is not None
        if ev in ('start', 'stop', 'delete'):
            return self.m_in_log
        return True

    def step(self, ev):
        cf, link, conf = self.cf, self.link, self.conf
        tx0 = len(link.tx)
        try:
            if ev == 'add':
                cf.log.add_config(conf)
                self.m_in_log = True
                self.adds += 1
            elif ev == 'start':
                conf.start()
            elif ev == 'stop':
                conf.stop()
            elif ev == 'delete':
                conf.delete()
            elif ev.startswith('ack') or ev == 'dup':
                if ev == 'dup':
                    h, payload = self.last_ack
                else:
                    h, payload = link.held.pop(0)
                    if ':' in ev:
                        st = {'EEXIST': EEXIST, 'ENOENT': ENOENT, 'ENOMEM': ENOMEM}[ev.split(':')[1]]
                        payload = payload[:2] + bytes([st])
                self.last_ack = (h, payload)
                self._model_ack(payload)
                link.rxq.append((h, payload))
                self.seqcf.pump(cf)
            elif ev == 'reconnect':
                # link lost and a new session: the log subsystem is reset by the TOC refresh
                link.held[:] = []
                self.dev.blocks.clear()
                # the Crazyflie that answers now has another firmware build: same variables, another table order (and
                # checksum), so every identifier changes
                self.dev.log = self.dev.log[1:] + self.dev.log[:1]
                self.dev.log_crc = (self.dev.log_crc + 1) & 0xffffffff
                cf.link = None
                cf.disconnected.call('sim://0')
                cf.connection_requested.call('sim://0')
                cf.link = link
                done = []
                cf.platform.fetch_platform_informations(lambda: cf.log.refresh_toc(lambda: done.append(1), self.seqcf._toc_cache_of(cf)))
                self.seqcf.pump(cf)
                if not done:
                    self.errors.append(('reconnect', 'TOC refresh did not finish'))
                self.m_in_log = False
                self.last_ack = None
                # flags of the old block are not demanded to change at reconnect; follow the implementation
                self.m_added = conf.added
                self.m_started = conf.started
                self.m_cbs = list(self.cbs)
        except Exception as e:  # noqa
            self.errors.append((ev, repr(e)))
        self.sent = [d for h, d in link.tx[tx0:] if (h >> 4) == 5 and (h & 3) == 1 and d[0] != 5]
        if ev in ('add', 'start') and self.sent and self.sent[0][:1] == b'\x06' and not self.errors:
            # the create request names the variables by their identifiers in the table of the device connected NOW
            body = self.sent[0][2:]
            got = [body[j + 1] | (body[j + 2] << 8) for j in range(0, len(body) - 2, 3)]
            exp = [_id_of(self.dev, v.name)[0] for v in conf.variables]
            # (a long list continues in append requests once this one is acknowledged: compare what this one carries)
            if got != exp[:len(got)] or not got:
                self.errors.append(('add:stale_ids', 'create request carries variable ids %r, in the connected device\'s table '
                                    '%r have the ids %r' % (got, [v.name for v in conf.variables], exp)))

    def _model_ack(self, payload):
        cmd, bid, st = payload[0], payload[1], payload[2]
        known = self.m_in_log and bid == self.conf.id
        self.expect_start = False
        if not known:
            return
        if cmd in (0, 6):
            if st in (0, EEXIST) and not self.m_added:
                self.m_added = True
                self.m_cbs.append(('added', True))
                self.expect_start = True
        elif cmd == 3:
            if st == 0 and not self.m_started:
                self.m_started = True
                self.m_cbs.append(('started', True))
        elif cmd == 4:
            if st == 0 and self.m_started:
                self.m_started = False
                self.m_cbs.append(('started', False))
        elif cmd == 2:
            if st in (0, ENOENT):
                if self.m_started:
                    self.m_started = False
                    self.m_cbs.append(('started', False))
                if self.m_added:
                    self.m_added = False
                    self.m_cbs.append(('added', False))

    def canon(self):
        c = self.conf
        return (self.m_in_log, c.added, c.started, bool(c.pending), c.valid, len(c.variables), len(c.default_fetch_as),
                tuple(self.link.held), tuple(sorted((k, len(v['vars']), v['started']) for k, v in self.dev.blocks.items())),
                self.m_added, self.m_started, self.last_ack, len(self.cf.log.log_blocks),
                tuple(x for x in self.cbs if len(x) == 2)[-3:], c.id if self.m_in_log else None)

    def check(self, p, hist):
        c = self.conf
        rp = {'part': 'life', 'nvars': self.nvars, 'history': list(hist)}
        last = hist[-1]
        kind = 'reconnect' if 'reconnect' in hist else 'single_session'
        if self.errors:
            ev, err = self.errors[-1]
            if ev == 'add:stale_ids':
                p.violation('life:create_request_ids:%s' % kind, 'history %r: %s' % (hist, err), rp)
                return False
            p.violation('life:operation_raised:%s:%s' % (ev.split(':')[0], err.split('(')[0]),
                        'history %r: %s raised %s' % (hist, ev, err), rp)
            return False
        # notifications that merely repeat the value the flag already has (the library reports a refused create /
        # start that way) are not demanded either way: drop them from both sides
        def changes(seq):
            cur = {'added': False, 'started': False}
            out = []
            for name, val in seq:
                if cur[name] != val:
                    out.append((name, val))
                    cur[name] = val
            return out
        flags_cbs = changes([x for x in self.cbs if len(x) == 2])
        self_m = changes(self.m_cbs)
        if (c.added, c.started) != (self.m_added, self.m_started):
            p.violation('life:flags_differ_from_acks:%s:after_%s' % (kind, last.split(':')[0]),
                        'history %r: added=%r started=%r, the acknowledgements imply added=%r started=%r' % (
                            hist, c.added, c.started, self.m_added, self.m_started), rp)
            return False
        if flags_cbs != self_m:
            p.violation('life:callbacks_differ_from_acks:%s:after_%s' % (kind, last.split(':')[0]),
                        'history %r: added/started callbacks %r, the acknowledgements imply %r' % (hist, flags_cbs, self_m), rp)
            return False
        if (last.startswith('ack') or last == 'dup') and getattr(self, 'expect_start', False):
            if self.sent != [bytes([3, c.id, 10])]:
                p.violation('life:no_start_after_create_ack', 'history %r: create acknowledged, library sent %r' % (
                    hist, [s.hex() for s in self.sent]), rp)
                return False
        names = [v.name for v in c.variables]
        if self.adds >= 1:
            exp = [['t.a', 't.b', 't.c'][i % 3] for i in range(self.nvars) if i % 2 == 1] + \
                  [['t.a', 't.b', 't.c'][i % 3] for i in range(self.nvars) if i % 2 == 0]
            if names != exp:
                p.violation('life:variable_list_changed:%s' % ('after_readd' if self.adds > 1 else 'first_add'),
                            'history %r: configuration was built with variables %r, after %d add_config calls it lists %r' % (
                                hist, exp, self.adds, names), rp)
                return False
        return True


AUTO_EVENTS = ('add', 'start', 'stop', 'delete', 'reconnect')


def part_life_auto(job):
    """Same life-cycle model, but the device answers every request at once (no withheld acknowledgements): the
    histories are sequences of user operations only, so longer ones are affordable."""
    nvars, depth = job
    p = Partial()
    seen = set()
    frontier = [()]
    maxd = 0

    def build(hist):
        life = _Life(nvars)
        life.link.manual = None
        orig_send = life.link.send_packet
        acks = []

        def send(pk):
            n0 = len(life.link.rxq)
            r = orig_send(pk)
            for (h, payload) in life.link.rxq[n0:]:
                if (h >> 4) == 5 and (h & 3) == 1 and payload[:1] != b'\x05':
                    acks.append(payload)
            return r
        life.link.send_packet = send
        for ev in hist:
            del acks[:]
            life.step(ev)
            if ev != 'reconnect':
                life.seqcf.pump(life.cf)
            # the model consumes the acknowledgements in the order the device sent them; the start request that the
            # library issues on the create acknowledgement is answered (and modelled) too
            done = 0
            while done < len(acks):
                life._model_ack(acks[done])
                done += 1
        return life

    l0 = build(())
    seen.add(l0.canon())
    p.states += 1
    while frontier:
        nxt = []
        for hist in frontier:
            if len(hist) >= depth:
                continue
            base = build(hist)
            for ev in AUTO_EVENTS:
                if not base.enabled(ev):
                    continue
                h2 = hist + (ev,)
                life = build(h2)
                p.transitions += 1
                # invariants: flags follow the acknowledgements; variable list stable
                life.sent = []
                life.expect_start = False
                ok = life.check(p, h2)
                k = life.canon()
                p.case(key=('auto', nvars, h2), outcome=k[:6])
                if ok and k not in seen:
                    seen.add(k)
                    p.states += 1
                    nxt.append(h2)
                    maxd = max(maxd, len(h2))
        frontier = nxt
    p.add('life_auto_max_depth_%d' % nvars, maxd)
    return p


def part_life(job):
    nvars, depth = job
    p = Partial()
    seen = set()
    frontier = [()]
    l0 = _Life(nvars)
    seen.add(l0.canon())
    p.states += 1
    maxd = 0
    while frontier:
        nxt = []
        for hist in frontier:
            if len(hist) >= depth:
                continue
            base = _Life(nvars)
            for ev in hist:
                base.step(ev)
            for ev in EVENTS:
                if not base.enabled(ev):
                    continue
                # reconnect needs an additional rule: only consider it from states where the session did something
                life = _Life(nvars)
                for e2 in hist:
                    life.step(e2)
                life.step(ev)
                h2 = hist + (ev,)
                p.transitions += 1
                ok = life.check(p, h2)
                k = life.canon()
                p.case(key=(nvars, h2), outcome=k[:6], sample={'nvars': nvars, 'history': list(h2), 'added': life.conf.added,
                                                              'started': life.conf.started} if len(h2) == 4 and p.evaluations % 97 == 0 else None)
                if ok and k not in seen:
                    seen.add(k)
                    p.states += 1
                    nxt.append(h2)
                    maxd = max(maxd, len(h2))
        frontier = nxt
    p.add('life_max_depth_%d' % nvars, maxd)
    return p


# ---------------------------------------------------------------------------------------------
# SyncLogger under the scheduler
# ---------------------------------------------------------------------------------------------
def exec_c05(cfg, devs):
    from vf import cfh, vsched
    from cflib.crazyflie import Crazyflie
    from cflib.crazyflie.log import LogConfig
    from cflib.crazyflie.syncLogger import SyncLogger
    p = Partial()
    dev = simcf.SimCF(protocol=10, log=[simcf.LogVar('t', 'a', 7), simcf.LogVar('t', 'b', 1)], params=())
    ex = cfh.Exec(devs, dev, time_limit=20.0, reply_menu=('once',), needs_resending=True)
    info = {'yielded': [], 'sent': []}

    def main():
        s = ex.s
        cf = Crazyflie()
        ex.freeze()
        flag = {}
        cf.connected.add_callback(lambda uri: flag.__setitem__('c', 1))
        cf.open_link('sim://0')
        if not ex.wait_for(lambda: 'c' in flag, 6.0, 'wait.connected'):
            info['noconnect'] = True
            return
        cf.link_statistics.stop()
        s.sleep(0.3)
        conf = LogConfig('c', 100)
        conf.add_variable('t.a', 'float')
        conf.add_variable('t.b', None)
        logger = SyncLogger(cf, conf)
        if cfg.get('early_sample'):
            # the device streams as soon as the block is started: sample 0 follows the start acknowledgement at once
            def hook(port, chan, data):
                if port == 5 and chan == 1 and data[:1] == b'\x03' and not info['sent']:
                    dev.blocks.setdefault(data[1], {'vars': [], 'period': 0, 'started': False, 'msgs': []})['started'] = True
                    payload = struct.pack('<fB', 0.5, 0)
                    info['sent'].append((1, {'t.a': 0.5, 't.b': 0}))
                    return [(simcf.SimCF.hdr(5, 1), bytes([3, data[1], 0])), dev.log_data_packet(data[1], 1, payload)]
                return None
            dev.hooks.append(hook)
            ex.frozen = False
            s.frozen = False
            logger.connect()
        else:
            logger.connect()
            s.sleep(0.2)
            ex.frozen = False
            s.frozen = False

        def consumer():
            try:
                for entry in logger:
                    info['yielded'].append((entry[0], dict(entry[1])))
                    ex.log('yield', entry[0])
                info['consumer'] = 'stopped'
            except Exception as e:  # noqa
                info['consumer'] = 'raised %r' % (e,)
        s.spawn(None, consumer, name='consumer')

        def producer():
            for k in range(1 if cfg.get('early_sample') else 0, cfg['samples']):
                s.sleep(0.05, 'device.period')
                if ex.env.links[-1].closed:
                    return
                payload = struct.pack('<fB', k + 0.5, k)
                info['sent'].append((k + 1, {'t.a': k + 0.5, 't.b': k}))
                ex.env.links[-1].inject(*dev.log_data_packet(conf.id, k + 1, payload))
        s.spawn(None, producer, name='env-producer')
        s.lazy_point('user.disconnect', timeout=cfg['disconnect_at'])
        ex.log('disconnect')
        if cfg['how'] == 'close':
            cf.close_link()
        else:
            ex.env.links[-1].fail_from_driver_thread()
        s.sleep(1.0, 'settle')
        ex.freeze()
        info['consumer_done'] = [t.state == vsched.DONE for t in s.threads if t.name == 'consumer']
        cf.close_link()

    ex.run(main)
    s = ex.s
    cname = cfg['name']
    rp = {'cfg': cfg, 'devs': list(devs)}
    y = info['yielded']
    p.case(key=(cname, tuple(devs)), nontrivial=bool(devs), outcome=(s.status, len(y), info.get('consumer')),
           sample={'config': cname, 'deviations': [(i, a, l) for (i, a, l) in ex.ch.taken], 'yielded': [t for t, _ in y]}
           if (not devs or hash((cname, tuple(devs))) % 29 == 0) else None)
    p.states += 1
    p.transitions += len(ex.ch.ns)

    def viol(clause, what):
        p.violation('synclogger:%s|%s' % (clause, cfg['how']), '%s devs=%r: %s' % (cname, devs, what), rp)
    if info.get('noconnect'):
        viol('setup_no_connect', 'could not connect')
    elif s.status != 'ok' or s.died:
        viol('%s' % (s.status if s.status != 'ok' else 'thread_died:' + s.died[0][1].split('(')[0]),
             'execution did not complete: blocked=%r died=%r' % ([(b['thread'], b['label']) for b in (s.blocked_report or [])], s.died[:1]))
    else:
        sent = info['sent']
        if y != sent[:len(y)]:
            viol('samples_not_in_order_once', 'iterator yielded %r, the device sent %r' % (y, sent))
        if info.get('consumer') != 'stopped' or not all(info.get('consumer_done', [False])):
            viol('iteration_did_not_end', 'consumer state %r after the disconnect (done=%r)' % (
                info.get('consumer'), info.get('consumer_done')))
    return p, ex.ch.ns, ex.ch.labels


def sync_configs():
    return [{'name': 'close@0.12', 'samples': 4, 'disconnect_at': 0.12, 'how': 'close'},
            {'name': 'fault@0.12', 'samples': 4, 'disconnect_at': 0.12, 'how': 'fault'},
            {'name': 'close@0.15tie', 'samples': 3, 'disconnect_at': 0.15, 'how': 'close'},
            {'name': 'early-sample:close@0.22', 'samples': 3, 'disconnect_at': 0.22, 'how': 'close', 'early_sample': True}]


def configs(quick):
    return sync_configs()


def _dispatch(job):
    name, arg = job
    return globals()['part_' + name](arg)


def run(ck):
    ck.rule = ('accept/create/decode: %d variable lists (every stored x fetch type, default fetch, 0..27 one-byte variables, '
               'payloads 24..28 bytes, ids above 255, a missing name at each position, raw-memory variables) x %d periods; '
               'life cycle: BFS to depth D over add/start/stop/delete/ack(0,EEXIST,ENOENT,ENOMEM)/duplicate ack/reconnect for '
               'blocks of 2 and 10 variables, states de-duplicated on the canonical implementation+device+model state; '
               'SyncLogger: 3 scenarios x deviation vectors (consumer vs dispatcher vs disconnect)' % (
                   len(variable_lists()), len(PERIODS)))
    ck.assume('SimCF decodes create/append with the firmware rule (whole (type, id16) records, dangling byte ignored; raw-memory '
              'record = type byte + 32-bit address)')
    ck.assume('for table variables only the fetch nibble of the type byte is checked (the firmware ignores the stored nibble)')
    ck.assume('periods 2541..2549 ms are accepted either way (statement says 2.54 s, the wire field allows 254 ticks)')
    global _MIX_DEEP
    _MIX_DEEP = not ck.quick
    lists = variable_lists()
    jobs = []
    for i in range(0, len(lists), 64):
        jobs.append(('accept', (lists[i:i + 64], (100,))))
    jobs.append(('accept', ([l for l in lists if l[0] in ('count:3', 'hi-ids', 'count:26', 'count:27', 'missing@1', 'empty')], PERIODS)))
    depth = 4 if ck.quick else 6
    jobs.append(('life', (2, depth if ck.quick else depth + 1)))
    jobs.append(('life', (10, depth)))
    jobs.append(('life_auto', (2, 6 if ck.quick else 8)))
    jobs.append(('life_auto', (10, 5 if ck.quick else 7)))
    ck.pmap(_dispatch, jobs)
    from vf import cfh
    from vf.explore import explore
    cfh.setup()
    r = explore(ck, exec_c05, sync_configs(), 1 if ck.quick else 2)
    ck.note('synclogger_exploration', r)
    ck.note('life_cycle_depth', depth)
    ck.extra['traces_validated_against_impl'] = ck.evaluations
    ck.exhaustive = True


def replay(ck, data):
    part = data.get('part')
    if part == 'life':
        life = _Life(data['nvars'])
        for ev in data['history']:
            life.step(ev)
            print('%-12s -> added=%r started=%r variables=%r sent=%r' % (
                ev, life.conf.added, life.conf.started, [v.name for v in life.conf.variables], [s.hex() for s in life.sent]))
        life.check(ck, tuple(data['history']))
    elif part == 'accept':
        lists = [l for l in variable_lists() if l[0] == data['list']]
        ck.merge(part_accept((lists, (data['period'],))))
    else:
        from vf import cfh
        cfh.setup()
        p, ns, labels = exec_c05(data['cfg'], tuple(tuple(d) for d in data['devs']))
        ck.merge(p)
    for v in ck.violations:
        print(' ', v['sig'], '::', v['what'])
