"""C13 — numeric wire codecs: exhaustive enumeration of finite input spaces against references.

fp16: all 65 536 patterns vs numpy.float16, directly and through the lighthouse angle-stream
decoder; quaternion compression over a lattice; compressed-trajectory millimetre/decidegree
encoding over the whole 16-bit range and beyond; RGB565 over 256 levels x 3 channels x 101
intensities; range-stream reports for every anchor count.
"""
import math
import struct

import numpy as np

from vf.core import Partial

ID = 'C13'
LEVEL = 'exploration'


class _FakeCf:
    def __init__(self):
        self.cbs = []

    def add_port_callback(self, port, cb):
        self.cbs.append((port, cb))


class _FakeMemHandler:
    def __init__(self):
        self.writes = []

    def write(self, mem, addr, data, flush_queue=False, progress_cb=None):
        self.writes.append((addr, bytes(data), flush_queue))
        return True


def _fp16_class(p):
    e = (p >> 10) & 0x1f
    f = p & 0x3ff
    s = p >> 15
    if e == 0 and f == 0:
        return 'neg_zero' if s else 'pos_zero'
    if e == 0:
        return 'subnormal'
    if e == 31 and f == 0:
        return 'neg_inf' if s else 'pos_inf'
    if e == 31:
        return 'nan'
    return 'normal'


def _same_float(got, exp):
    """got may be int or float; exp is a python float from numpy.float16."""
    if isinstance(got, bool) or not isinstance(got, (int, float, np.floating, np.integer)):
        return False
    if math.isnan(exp):
        return isinstance(got, (float, np.floating)) and math.isnan(got)
    if math.isinf(exp):
        return isinstance(got, (float, np.floating)) and got == exp
    try:
        g = float(got)
    except OverflowError:
        return False
    if g != exp:
        return False
    if exp == 0.0:
        return math.copysign(1.0, g) == math.copysign(1.0, exp)
    return True


def _ref_fp16():
    pats = np.arange(65536, dtype=np.uint16)
    return pats.view(np.float16).astype(np.float64)


def part_fp16(_):
    from cflib.utils.encoding import fp16_to_float
    p = Partial()
    ref = _ref_fp16()
    for pat in range(65536):
        exp = float(ref[pat])
        try:
            got = fp16_to_float(pat)
        except Exception as e:  # noqa
            got = e
        cls = _fp16_class(pat)
        ok = _same_float(got, exp)
        p.case(key=('fp16', pat), outcome=cls)
        if pat in (0x0000, 0x8000, 0x0001, 0x3c00, 0x7c00, 0xfc00, 0x7e00):
            p.sample({'codec': 'fp16_to_float', 'pattern': '0x%04x' % pat, 'expected': repr(exp),
                      'got': repr(got)})
        if not ok:
            p.violation('fp16:' + cls, 'fp16_to_float(0x%04x) returned %r, IEEE binary16 value is %r'
                        % (pat, got, exp), {'part': 'fp16', 'pattern': pat})
    return p


def _lh_packet(bs, base_x, pats_x, base_y, pats_y):
    return struct.pack('<BBfHHHfHHH', 10, bs, base_x, *pats_x, base_y, *pats_y)


def _lh_snapshot(d):
    return (d.get('basestation'), tuple(repr(v) for v in d.get('x', ())), tuple(repr(v) for v in d.get('y', ())))


def part_lh_angle(slot):
    """Every 16-bit pattern in one sensor slot of the angle-stream packet."""
    from cflib.crazyflie.localization import Localization
    from cflib.crtp.crtpstack import CRTPPacket
    p = Partial()
    ref = _ref_fp16()
    cf = _FakeCf()
    loc = Localization(cf)
    got_pk = []
    loc.receivedLocationPacket.add_callback(got_pk.append)
    bases = (0.0, 1.5, -1.5)
    held = None
    for bi, base in enumerate(bases):
        b32 = struct.unpack('<f', struct.pack('<f', base))[0]
        for pat in range(65536):
            px = [0x3c00, 0xb800, 0x0001]
            py = [0x8000, 0x3555, 0x7bff]
            if slot < 3:
                px[slot] = pat
            else:
                py[slot - 3] = pat
            pk = CRTPPacket()
            pk.set_header(6, 1)
            bs = (pat + bi) & 0xff
            pk.data = _lh_packet(bs, b32, px, -b32, py)
            del got_pk[:]
            cls = _fp16_class(pat)
            p.case(key=('lh', slot, bi, pat), outcome=cls)
            try:
                cf.cbs[0][1](pk)
            except Exception as e:  # noqa
                p.violation('lh_angle:raises:' + cls, 'angle stream slot %d pattern 0x%04x base %r: the packet handler '
                            'raised %r' % (slot, pat, base, e), {'part': 'lh', 'slot': slot, 'pattern': pat, 'base': base})
                continue
            if len(got_pk) != 1 or got_pk[0].type != 10:
                p.violation('lh_angle:no_single_packet', 'angle stream packet produced %d callbacks'
                            % len(got_pk), {'part': 'lh', 'slot': slot, 'pattern': pat, 'base': base})
                continue
            d = got_pk[0].data
            # an application may keep decoded packets: the one decoded before this one must still say what it said
            if held is not None:
                hp, hsnap, hwhat = held
                now_ = _lh_snapshot(hp.data)
                if now_ != hsnap:
                    p.violation('lh_angle:earlier_packet_changed', 'the packet decoded for %s changed from %r to %r when the '
                                'next packet (slot %d pattern 0x%04x) was decoded' % (hwhat, hsnap, now_, slot, pat),
                                {'part': 'lh', 'slot': slot, 'pattern': pat, 'base': base})
                    held = None
            if pat % 257 == 0:
                held = (got_pk[0], _lh_snapshot(d), 'slot %d pattern 0x%04x' % (slot, pat))
            exp_x = [b32] + [b32 - float(ref[q]) for q in px]
            exp_y = [-b32] + [-b32 - float(ref[q]) for q in py]
            ok = d['basestation'] == bs and len(d['x']) == 4 and len(d['y']) == 4
            if ok:
                for g, e in zip(list(d['x']) + list(d['y']), exp_x + exp_y):
                    if math.isnan(e):
                        ok = ok and isinstance(g, float) and math.isnan(g)
                    else:
                        ok = ok and g == e
            if pat == 0x8000 and bi == 1 and slot == 0:
                p.sample({'codec': 'lh_angle_stream', 'slot': slot, 'pattern': '0x8000', 'base': base,
                          'decoded_x': [repr(v) for v in d['x']]})
            if not ok:
                p.violation('lh_angle:' + cls,
                            'angle stream slot %d pattern 0x%04x base %r decoded to x=%r y=%r, expected x=%r y=%r'
                            % (slot, pat, base, d['x'], d['y'], exp_x, exp_y),
                            {'part': 'lh', 'slot': slot, 'pattern': pat, 'base': base})
    return p


def _quat_lattice(levels):
    import itertools
    for q in itertools.product(levels, repeat=4):
        if any(q):
            yield q


def part_quat(args):
    from cflib.utils.encoding import compress_quaternion, decompress_quaternion
    levels, scales, chunk, nchunks = args
    p = Partial()
    step = 1.0 / 511 / math.sqrt(2)
    for idx, q in enumerate(_quat_lattice(levels)):
        if idx % nchunks != chunk:
            continue
        n0 = math.sqrt(sum(c * c for c in q))
        for sc in scales:
            # a scale given as ('norm', k) makes the input's norm exactly k: almost-but-not-quite unit quaternions
            qin = [c * sc for c in q] if not isinstance(sc, tuple) else [c / n0 * sc[1] for c in q]
            n = math.sqrt(sum(c * c for c in qin))
            qn = [c / n for c in qin]
            mags = sorted(abs(c) for c in qn)
            tie = abs(mags[-1] - mags[-2]) < 1e-12
            p.case(key=('quat', q, sc), outcome=(tie, sum(1 for c in q if c == 0)))
            rp = {'part': 'quat', 'q': list(qin)}
            try:
                comp = compress_quaternion(qin)
            except Exception as e:  # noqa
                p.violation('quat:compress_raises', 'compress_quaternion(%r) raised %r' % (qin, e), rp)
                continue
            if not (isinstance(comp, (int, np.integer)) and 0 <= int(comp) < 2 ** 32):
                p.violation('quat:not_32_bit', 'compress_quaternion(%r) = %r does not fit 32 bits' % (qin, comp), rp)
                continue
            try:
                out = [float(v) for v in decompress_quaternion(int(comp))]
            except Exception as e:  # noqa
                p.violation('quat:decompress_raises', 'decompress_quaternion(%r) raised %r' % (comp, e), rp)
                continue
            if idx % 97 == 0 and sc == scales[0]:
                p.sample({'codec': 'quaternion', 'in': qin, 'compressed': int(comp), 'out': out})
            if any(math.isnan(v) for v in out):
                p.violation('quat:nan', 'quaternion %r -> %r -> %r' % (qin, comp, out), rp)
                continue
            e_pos = max(abs(a - b) for a, b in zip(out, qn))
            e_neg = max(abs(a + b) for a, b in zip(out, qn))
            err = min(e_pos, e_neg)
            if err > 2 * step + 1e-12:
                p.violation('quat:component_error' + (':tie' if tie else ''),
                            'quaternion %r (normalised %r) -> 0x%08x -> %r: component error %.3g > 2 steps (%.3g)'
                            % (qin, qn, comp, out, err, 2 * step), rp)
    return p


def _check_i16(p, what, true_scaled, packed_bytes_or_exc, rp):
    """true_scaled: exact value in wire units (float); the wire field is int16."""
    if isinstance(packed_bytes_or_exc, Exception):
        if -32768 <= true_scaled <= 32767:
            p.violation('traj:%s:raises_in_range' % what,
                        '%s value %r (wire units) is representable but encoding raised %r'
                        % (what, true_scaled, packed_bytes_or_exc), rp)
        return
    wire = struct.unpack('<h', packed_bytes_or_exc)[0]
    if true_scaled >= 32768 or true_scaled <= -32769:
        p.violation('traj:%s:overflow_not_raised' % what,
                    '%s value %r (wire units) is out of the int16 range but was encoded as %d'
                    % (what, true_scaled, wire), rp)
    elif abs(wire - true_scaled) >= 1.0:
        p.violation('traj:%s:error_ge_1_unit' % what,
                    '%s value %r (wire units) encoded as %d' % (what, true_scaled, wire), rp)


def part_traj(args):
    from cflib.crazyflie.mem.trajectory_memory import CompressedSegment, CompressedStart
    lo, hi = args
    p = Partial()
    for k in range(lo, hi):
        for half in (0.0, 0.5, -0.5):
            v = k + half                       # wire units
            # spatial (metres -> mm), exercised through Start.x/y/z and a segment element
            m = v / 1000.0
            true_mm = m * 1000.0
            for axis in range(3):
                xyz = [0.0, 0.0, 0.0]
                xyz[axis] = m
                try:
                    d = CompressedStart(xyz[0], xyz[1], xyz[2], 0.0).pack()
                    r = bytes(d[2 * axis:2 * axis + 2])
                    if len(d) != 8:
                        r = ValueError('start length %d' % len(d))
                except Exception as e:  # noqa
                    r = e
                p.case(key=('start', axis, v), outcome=(isinstance(r, Exception), half != 0))
                _check_i16(p, 'spatial', true_mm, r, {'part': 'traj', 'kind': 'start', 'axis': axis, 'value': m})
            # yaw (radians -> 0.1 deg)
            a = math.radians(v / 10.0)
            true_dd = math.degrees(a) * 10.0
            try:
                d = CompressedStart(0.0, 0.0, 0.0, a).pack()
                r = bytes(d[6:8])
            except Exception as e:  # noqa
                r = e
            p.case(key=('start', 'yaw', v), outcome=(isinstance(r, Exception), half != 0))
            _check_i16(p, 'yaw', true_dd, r, {'part': 'traj', 'kind': 'start', 'axis': 'yaw', 'value': a})
        # segments: value at every position of an element, every element length (less dense)
        if k % 257 == 0 or k in (-32769, -32768, 32767, 32768) or abs(k) < 3:
            m = k / 1000.0
            a = math.radians(k / 10.0)
            for n in (1, 3, 7):
                for pos in range(n):
                    ex = [0.001 * (i + 1) for i in range(n)]
                    ex[pos] = m
                    eyaw = [0.01 * (i + 1) for i in range(n)]
                    eyaw[pos] = a
                    try:
                        d = CompressedSegment(1.0, ex, [], [], eyaw).pack()
                        if len(d) != 3 + 4 * n or d[0] != (_t(n) | (_t(n) << 6)):
                            rs = ry = ValueError('segment header/length wrong: %s' % bytes(d).hex())
                        else:
                            rs = bytes(d[3 + 2 * pos:5 + 2 * pos])
                            ry = bytes(d[3 + 2 * n + 2 * pos:5 + 2 * n + 2 * pos])
                    except Exception as e:  # noqa
                        rs = ry = e
                    # each axis alone as well (an overflow on one axis must not hide behind another): x, y, z elements
                    for axis in range(3):
                        els = [[], [], []]
                        els[axis] = list(ex)
                        try:
                            d1 = CompressedSegment(0.5, els[0], els[1], els[2], []).pack()
                            r1 = bytes(d1[3 + 2 * pos:5 + 2 * pos]) if len(d1) == 3 + 2 * n and d1[0] == (_t(n) << (2 * axis)) \
                                else ValueError('segment header/length wrong: %s' % bytes(d1).hex())
                        except Exception as e:  # noqa
                            r1 = e
                        p.case(key=('seg1', axis, n, pos, k), outcome=(isinstance(r1, Exception), n, 'axis'))
                        _check_i16(p, 'spatial', m * 1000.0, r1, {'part': 'traj', 'kind': 'seg-axis', 'axis': axis, 'n': n, 'pos': pos, 'k': k})
                    try:
                        d2 = CompressedSegment(0.5, [], [], [], list(eyaw)).pack()
                        r2 = bytes(d2[3 + 2 * pos:5 + 2 * pos]) if len(d2) == 3 + 2 * n and d2[0] == (_t(n) << 6) \
                            else ValueError('segment header/length wrong: %s' % bytes(d2).hex())
                    except Exception as e:  # noqa
                        r2 = e
                    p.case(key=('seg1', 'yaw', n, pos, k), outcome=(isinstance(r2, Exception), n, 'yaw'))
                    _check_i16(p, 'yaw', math.degrees(a) * 10.0, r2, {'part': 'traj', 'kind': 'seg-yaw', 'n': n, 'pos': pos, 'k': k})
                    p.case(key=('seg', n, pos, k), outcome=(isinstance(rs, Exception), n))
                    if isinstance(rs, Exception) and -32768 <= k <= 32767 and abs(math.degrees(a) * 10) <= 32767:
                        p.violation('traj:segment:raises_in_range', 'segment element n=%d pos=%d value %r raised %r'
                                    % (n, pos, m, rs), {'part': 'traj', 'kind': 'seg', 'n': n, 'pos': pos, 'k': k})
                    elif not isinstance(rs, Exception):
                        _check_i16(p, 'spatial', m * 1000.0, rs, {'part': 'traj', 'kind': 'seg', 'n': n, 'pos': pos, 'k': k})
                        _check_i16(p, 'yaw', math.degrees(a) * 10.0, ry,
                                   {'part': 'traj', 'kind': 'seg', 'n': n, 'pos': pos, 'k': k})
    if lo <= 0 < hi:
        p.sample({'codec': 'CompressedStart', 'x_m': 1.2345, 'packed': bytes(
            __import__('cflib.crazyflie.mem.trajectory_memory', fromlist=['x']).CompressedStart(
                1.2345, 0, 0, 0).pack()).hex()})
    return p


def _t(n):
    return {0: 0, 1: 1, 3: 2, 7: 3}[n]


def part_led(intensities):
    from cflib.crazyflie.mem.led_driver_memory import LEDDriverMemory
    p = Partial()
    for inten in intensities:
        prev = None
        for level in range(256):
            h = _FakeMemHandler()
            mem = LEDDriverMemory(id=3, type=0x10, size=24, mem_handler=h)
            # led 0: red only, 1: green only, 2: blue only, 3: grey, 4: black, 5: white, 6: float level
            mem.leds[0].set(level, 0, 0, None)
            mem.leds[1].set(0, level, 0, None)
            mem.leds[2].set(0, 0, level, None)
            mem.leds[3].set(level, level, level, None)
            mem.leds[5].set(255, 255, 255, None)
            for led in mem.leds:
                led.intensity = inten
            rp = {'part': 'led', 'level': level, 'intensity': inten}
            try:
                mem.write_data(None)
            except Exception as e:  # noqa
                p.violation('led:raises', 'LED write_data raised %r at level %d intensity %d' % (e, level, inten), rp)
                continue
            p.case(key=('led', inten, level), outcome=(inten in (0, 100), level in (0, 255)))
            if len(h.writes) != 1 or h.writes[0][0] != 0 or len(h.writes[0][1]) != 24:
                p.violation('led:image_shape', 'LED image write %r' % (h.writes,), rp)
                continue
            img = h.writes[0][1]
            vals = [(img[2 * i] << 8) | img[2 * i + 1] for i in range(12)]
            r5, g6, b5 = vals[0] >> 11, (vals[1] >> 5) & 0x3f, vals[2] & 0x1f
            if vals[0] & 0x07ff or vals[1] & ~0x07e0 & 0xffff or vals[2] & ~0x001f & 0xffff:
                p.violation('led:channel_leak', 'single-channel colours leak into other fields: %r' % vals[:3], rp)
            if vals[3] != ((r5 << 11) | (g6 << 5) | b5):
                p.violation('led:grey_not_composed', 'grey level %d -> 0x%04x but channels give %r' % (
                    level, vals[3], (r5, g6, b5)), rp)
            if vals[4] != 0 or any(v != 0 for v in vals[6:]):
                p.violation('led:black_not_zero', 'black LED encoded as %r' % vals, rp)
            if level == 0 and (vals[0] or vals[1] or vals[2] or vals[3]):
                p.violation('led:black_not_zero', 'level 0 encoded as %r' % vals[:4], rp)
            if inten == 100 and vals[5] != 0xffff:
                p.violation('led:white_not_full', 'white at intensity 100 -> 0x%04x' % vals[5], rp)
            if inten == 100 and level == 255 and (r5, g6, b5) != (31, 63, 31):
                p.violation('led:white_not_full', 'level 255 at intensity 100 -> %r' % ((r5, g6, b5),), rp)
            if inten == 0 and any(vals):
                p.violation('led:intensity0_not_dark', 'intensity 0 -> %r' % vals, rp)
            cur = (r5, g6, b5)
            if prev is not None and any(c < q for c, q in zip(cur, prev)):
                p.violation('led:not_monotone', 'level %d -> %r but level %d -> %r (intensity %d)' % (
                    level - 1, prev, level, cur, inten), rp)
            prev = cur
            if inten == 100 and level in (0, 128, 255):
                p.sample({'codec': 'RGB565', 'level': level, 'intensity': inten, 'r5g6b5': cur})
    return p


def part_led_intensity(_):
    """Monotone in intensity for fixed colour; timings memory uses the same colour mapping."""
    from cflib.crazyflie.mem.led_driver_memory import LEDDriverMemory
    from cflib.crazyflie.mem.led_timings_driver_memory import LEDTimingsDriverMemory
    p = Partial()
    for level in range(256):
        prev = None
        for inten in range(101):
            h = _FakeMemHandler()
            mem = LEDDriverMemory(id=3, type=0x10, size=24, mem_handler=h)
            mem.leds[0].set(level, level, level, None)
            mem.leds[0].intensity = inten
            mem.write_data(None)
            img = h.writes[0][1]
            v = (img[0] << 8) | img[1]
            cur = (v >> 11, (v >> 5) & 0x3f, v & 0x1f)
            p.case(key=('ledi', level, inten), outcome=None)
            if prev is not None and any(c < q for c, q in zip(cur, prev)):
                p.violation('led:not_monotone_in_intensity', 'level %d intensity %d -> %r, %d -> %r' % (
                    level, inten - 1, prev, inten, cur), {'part': 'ledi', 'level': level, 'intensity': inten})
            prev = cur
        # timings
        for ch in ('r', 'g', 'b'):
            h = _FakeMemHandler()
            mem = LEDTimingsDriverMemory(id=4, type=0x17, size=100, mem_handler=h)
            rgb = {'r': 0, 'g': 0, 'b': 0}
            rgb[ch] = level
            mem.add(time=5, rgb=rgb, leds=3, fade=True, rotate=2)
            mem.write_data(None)
            img = h.writes[0][1]
            p.case(key=('ledt', ch, level), outcome=None)
            rp = {'part': 'ledt', 'ch': ch, 'level': level}
            if len(img) != 8 or img[0] != 5 or img[3] != (3 | 0x10 | (2 << 5)) or img[4:] != b'\0\0\0\0':
                p.violation('ledtiming:layout', 'timing image %s' % img.hex(), rp)
                continue
            v = (img[1] << 8) | img[2]
            exp = {'r': ((level * 249 + 1014) >> 11) << 11, 'g': ((level * 253 + 505) >> 10) << 5,
                   'b': (level * 249 + 1014) >> 11}[ch]
            if v != exp:
                p.violation('ledtiming:colour', 'timing colour %s=%d -> 0x%04x, expected 0x%04x' % (ch, level, v, exp), rp)
    return p


_SPECIAL_F32 = [0.0, -0.0, 1.0, -1.0, 0.1, 123.456, 3.4028234663852886e38, 1e-45, float('inf'), float('-inf'),
                float('nan')]


def part_range(_):
    from cflib.crazyflie.localization import Localization
    from cflib.crtp.crtpstack import CRTPPacket
    import itertools
    p = Partial()
    cf = _FakeCf()
    loc = Localization(cf)
    got = []
    loc.receivedLocationPacket.add_callback(got.append)
    ids_alphabet = (0, 1, 7, 255)
    for n in range(0, 6):
        for ids in itertools.product(ids_alphabet, repeat=n) if n <= 3 else [tuple(range(n)), tuple(255 - i for i in range(n))]:
            for rot in range(len(_SPECIAL_F32)):
                dist = [_SPECIAL_F32[(rot + i) % len(_SPECIAL_F32)] for i in range(n)]
                body = b''.join(struct.pack('<Bf', i, d) for i, d in zip(ids, dist))
                pk = CRTPPacket()
                pk.set_header(6, 1)
                pk.data = bytes([0]) + body
                del got[:]
                cf.cbs[0][1](pk)
                p.case(key=('range', ids, rot), outcome=n)
                exp = {}
                for i, d in zip(ids, dist):
                    exp[i] = struct.unpack('<f', struct.pack('<f', d))[0]
                rp = {'part': 'range', 'ids': list(ids), 'dist': [repr(d) for d in dist]}
                if len(got) != 1 or got[0].type != 0:
                    p.violation('range:no_single_packet', 'range report gave %d callbacks' % len(got), rp)
                    continue
                d = got[0].data
                ok = isinstance(d, dict) and set(d) == set(exp) and bytes(got[0].raw_data) == body
                if ok:
                    for k in exp:
                        e, g = exp[k], d[k]
                        ok = ok and ((math.isnan(e) and math.isnan(g)) or (
                            g == e and math.copysign(1, g) == math.copysign(1, e)))
                if n == 2 and rot == 0 and ids == (0, 1):
                    p.sample({'codec': 'range_stream_report', 'ids': list(ids), 'decoded': {k: repr(v) for k, v in d.items()}})
                if not ok:
                    p.violation('range:decode_mismatch', 'range report ids=%r dist=%r decoded %r' % (ids, dist, d), rp)
    # LH persist reply
    for b in range(256):
        pk = CRTPPacket()
        pk.set_header(6, 1)
        pk.data = bytes([11, b])
        del got[:]
        cf.cbs[0][1](pk)
        p.case(key=('persist', b), outcome=bool(b))
        if len(got) != 1 or got[0].data is not bool(b):
            p.violation('range:lh_persist_reply', 'persist reply byte %d decoded %r' % (b, got and got[0].data),
                        {'part': 'persist', 'b': b})
    return p


def _dispatch(job):
    name, arg = job
    return globals()['part_' + name](arg)


def run(ck):
    ck.rule = ('exhaustive enumeration: 65536 binary16 patterns (direct and in each of 6 sensor slots x 3 base '
               'angles of the angle-stream packet); quaternion lattice levels^4 minus 0 x scales; every integer '
               'wire unit in [-33100, 33100] plus half steps for trajectory x/y/z/yaw; 256 levels x 101 '
               'intensities RGB565; range reports 0..5 anchors. distinct = distinct (codec, input) pairs')
    ck.assume('reference = numpy.float16 bit-cast, struct, and independent arithmetic written in the check')
    ck.assume('quaternion claim is over the stated lattice (and scales), not all of S^3')
    if ck.quick:
        levels = (-1.0, -0.5, 0.0, 0.5, 1.0)
        slots = (0, 5)
    else:
        levels = (-1.0, -0.75, -0.5, -0.25, 0.0, 0.25, 0.5, 0.75, 1.0)
        slots = range(6)
    # norms on both sides of one and of two quantisation steps (1/511) from 1, where a "close enough to unit" shortcut
    # would sit, besides the far ones
    scales = (1.0, 0.1, 10.0, ('norm', 1.0), ('norm', 0.991), ('norm', 1.009), ('norm', 0.9999), ('norm', 1.0001),
              ('norm', 1.0015), ('norm', 0.9985), ('norm', 1.0019), ('norm', 0.9981), ('norm', 1.003), ('norm', 0.997),
              ('norm', 1.0045), ('norm', 1e-6), ('norm', 1e6))
    jobs = [('fp16', None)]
    jobs += [('lh_angle', s) for s in slots]
    jobs += [('quat', (levels, scales, c, 4)) for c in range(4)]
    rng = 33100
    stepk = 4138
    jobs += [('traj', (lo, min(lo + stepk, rng + 1))) for lo in range(-rng, rng + 1, stepk)]
    ints = list(range(101))
    jobs += [('led', ints[i::6]) for i in range(6)]
    jobs += [('led_intensity', None), ('range', None)]
    ck.pmap(_dispatch, jobs)
    ck.exhaustive = True
    ck.note('fp16_patterns', 65536)
    ck.note('quaternion_levels', list(levels))


def replay(ck, data):
    part = data.get('part')
    if part == 'fp16':
        from cflib.utils.encoding import fp16_to_float
        pat = data['pattern']
        exp = float(_ref_fp16()[pat])
        got = fp16_to_float(pat)
        print('fp16_to_float(0x%04x) = %r ; numpy.float16 = %r' % (pat, got, exp))
        if not _same_float(got, exp):
            ck.violation('fp16:' + _fp16_class(pat), 'mismatch')
    else:
        print('replay of part %r: re-run the check; data=%r' % (part, data))
