"""C06 — memory reads/writes are exact, complete and never wedge the subsystem.

Part A (inputs): every (memory id, start address, length) of the alphabet is read and written
through the real Memory subsystem on a fault-free link; the device image model and the packet log
decide.  Part B (histories x faults x schedules): operation sequences of up to 3 reads / writes /
flushing writes on one or two memories, explored with every combination of at most `bound`
deviations among per-reply {duplicate, delay past the 1 s retry timer, drop}, per-request device
error status, link loss (driver thread, any point) and thread-order choices; each execution ends
with a probe read and a probe write per memory (after reconnecting if the link was lost).
"""
from vf import cfh, simcf, vsched
from vf.core import Partial
from vf.explore import explore

ID = 'C06'
LEVEL = 'exploration'

ADDRS = (0, 1, 19, 20, 21, 0x1000, 0xFFFFFFB0)
MEM_IDS = (0, 1, 255)


def _mk_device():
    dev = simcf.SimCF(protocol=10, log=(), params=(), mems=())
    for mid in MEM_IDS:
        dev.mem_by_id[mid] = simcf.SparseMem(seed=mid)
    return dev


def _content(addr, n, salt):
    return bytes(((addr + i) * 3 + salt * 17 + i * i) & 0xff for i in range(n))


def _internals(mem):
    """(pending-read records, pending-write records, write lock) of a Memory object, each None when it cannot be
    identified (private names may change; what cannot be seen is not judged - the wedge it would cause is still caught by
    the probe requests that follow)."""
    d = vars(mem)
    rd = d.get('_read_requests') if isinstance(d.get('_read_requests'), dict) else None
    wr = d.get('_write_requests') if isinstance(d.get('_write_requests'), dict) else None
    ln = cfh.find_attr(mem, ('_write_requests_lock',), lambda v: isinstance(v, (vsched.VLock, vsched.VRLock)))
    return rd, wr, (d[ln] if ln else None)


def _force_unlock(lock):
    if hasattr(lock, '_locked'):
        lock._locked = False
    else:
        lock._owner = None
        lock._count = 0


class _Obs:
    """Collects the four completion notifications."""

    def __init__(self, ex, cf):
        self.ex = ex
        self.events = []
        cf.mem.mem_read_cb.add_callback(lambda mem, addr, data: self._ev('read_ok', mem.id, addr, bytes(data)))
        cf.mem.mem_read_failed_cb.add_callback(lambda mem, addr, data: self._ev('read_fail', mem.id, addr, bytes(data)))
        cf.mem.mem_write_cb.add_callback(lambda mem, addr: self._ev('write_ok', mem.id, addr, None))
        cf.mem.mem_write_failed_cb.add_callback(lambda mem, addr: self._ev('write_fail', mem.id, addr, None))

    def _ev(self, kind, mid, addr, data):
        self.events.append((kind, mid, addr, data))
        self.ex.log('note', kind, mid, addr)


def _connect(ex, cf, T=6.0):
    flag = {}
    cb = lambda uri: flag.__setitem__('c', 1)  # noqa
    cf.connected.add_callback(cb)
    cf.open_link('sim://0')
    ok = ex.wait_for(lambda: 'c' in flag, T, 'wait.connected')
    cf.connected.remove_callback(cb)
    # the latency pings are irrelevant here and would only add scheduling points
    cf.link_statistics.stop()
    return ok


# ---------------------------------------------------------------------------------------------
# Part A
# ---------------------------------------------------------------------------------------------
def part_a(job):
    from cflib.crazyflie import Crazyflie
    from cflib.crazyflie.mem import MemoryElement
    cfh.setup()
    mid, with_progress = job
    p = Partial()
    dev = _mk_device()
    ex = cfh.Exec((), dev, time_limit=4000.0, reply_menu=('once',), needs_resending=True)
    ex.freeze()

    def main():
        cf = Crazyflie()
        if not _connect(ex, cf):
            p.violation('mem:setup:no_connect', 'could not connect to the empty device', {'part': 'A'})
            return
        obs = _Obs(ex, cf)
        mem = MemoryElement(id=mid, type=0x15, size=0x100000000, mem_handler=cf.mem)
        sm = dev.mem_by_id[mid]
        for addr in ADDRS:
            for n in list(range(0, 62)) + ([2000, 2561] if addr == ADDRS[0] else []):
                rp = {'part': 'A', 'op': 'read', 'mem': mid, 'addr': addr, 'len': n}
                del obs.events[:]
                rx0 = len(dev.rx)
                try:
                    acc = cf.mem.read(mem, addr, n)
                except Exception as e:  # noqa
                    p.violation('mem:read:raises:%s' % type(e).__name__, 'read(mem %d, %#x, %d) raised %r' % (mid, addr, n, e), rp)
                    continue
                ex.wait_for(lambda: obs.events, 5.0, 'wait.read')
                ex.s.sleep(0.01)
                cls = 'len0' if n == 0 else 'len%s20' % ('<=' if n <= 20 else '>')
                p.case(key=('r', mid, addr, n), outcome=('r', n // 20, bool(obs.events)),
                       sample={'op': 'read', 'mem': mid, 'addr': hex(addr), 'len': n,
                               'requests': [r[3].hex() for r in dev.rx[rx0:]][:4]} if (n in (0, 21) and addr in (0, 0x1000)) else None)
                exp = sm.read(addr, n)
                if acc is not True or len(obs.events) != 1 or obs.events[0][0] != 'read_ok':
                    p.violation('mem:read:notification:%s' % cls, 'read(mem %d, %#x, %d): accepted=%r, notifications=%r' % (
                        mid, addr, n, acc, [(e[0], e[1], e[2]) for e in obs.events]), rp)
                elif obs.events[0][1:] != (mid, addr, exp):
                    p.violation('mem:read:data_mismatch:%s' % cls, 'read(mem %d, %#x, %d) returned %s, device holds %s' % (
                        mid, addr, n, obs.events[0][3].hex()[:80], exp.hex()[:80]), rp)
                reqs = [r[3] for r in dev.rx[rx0:] if r[1] == 4 and r[2] == 1]
                pos = addr
                bad = None
                for r in reqs:
                    import struct
                    m_, a_, l_ = struct.unpack('<BIB', r[:6])
                    if len(r) != 6 or m_ != mid or a_ != pos or l_ > 20 or (l_ == 0 and n > 0):
                        bad = r
                        break
                    pos += l_
                if bad is not None or pos != addr + n:
                    p.violation('mem:read:request_tiling:%s' % cls, 'read(mem %d, %#x, %d): requests %r do not tile the range in '
                                'ascending chunks of at most 20 bytes' % (mid, addr, n, [r.hex() for r in reqs][:6]), rp)
                rd_, wr_, lk_ = _internals(cf.mem)
                if rd_:
                    p.violation('mem:read:record_left_behind', 'after read(mem %d, %#x, %d) _read_requests=%r' % (
                        mid, addr, n, list(rd_)), rp)
                    rd_.clear()
            # long transfers (a chunk is then less than one per cent of the data) at the first address only
            for n in list(range(0, 77)) + ([2500, 2526, 2551, 5100] if addr == ADDRS[0] else []):
                rp = {'part': 'A', 'op': 'write', 'mem': mid, 'addr': addr, 'len': n, 'progress': with_progress}
                del obs.events[:]
                rx0 = len(dev.rx)
                data = _content(addr, n, mid + 1)
                before = dict(sm.cells)
                prog = []
                kw = {'progress_cb': (lambda msg, pct: prog.append(pct))} if with_progress else {}
                try:
                    acc = cf.mem.write(mem, addr, list(data), **kw)
                except Exception as e:  # noqa
                    p.violation('mem:write:raises:%s' % type(e).__name__, 'write(mem %d, %#x, %d bytes) raised %r' % (mid, addr, n, e), rp)
                    continue
                ex.wait_for(lambda: obs.events, 5.0, 'wait.write')
                ex.s.sleep(0.01)
                cls = 'len0' if n == 0 else 'len%s25' % ('<=' if n <= 25 else '>')
                if with_progress:
                    cls += ':progress_cb'
                p.case(key=('w', mid, addr, n, with_progress), outcome=('w', n // 25, bool(obs.events)),
                       sample={'op': 'write', 'mem': mid, 'addr': hex(addr), 'len': n,
                               'chunks': [len(r[3]) - 5 for r in dev.rx[rx0:]]} if (n in (0, 26, 76) and addr == 19) else None)
                if acc is not True or len(obs.events) != 1 or obs.events[0][:3] != ('write_ok', mid, addr):
                    p.violation('mem:write:notification:%s' % cls, 'write(mem %d, %#x, %d bytes): accepted=%r, notifications=%r, '
                                'dispatcher died=%r' % (mid, addr, n, acc, [(e[0], e[1], e[2]) for e in obs.events], ex.s.died[:1]), rp)
                after = dict(sm.cells)
                expect = dict(before)
                for i, b in enumerate(data):
                    expect[addr + i] = b
                if after != expect:
                    diff = sorted(k for k in set(after) | set(expect) if after.get(k) != expect.get(k))
                    p.violation('mem:write:image_mismatch:%s' % cls, 'write(mem %d, %#x, %d bytes): device image differs from the '
                                'data at addresses %r' % (mid, addr, n, [hex(a) for a in diff[:6]]), rp)
                ws = [r[3] for r in dev.rx[rx0:] if r[1] == 4 and r[2] == 2]
                pos = addr
                bad = None
                for r in ws:
                    import struct
                    m_, a_ = struct.unpack('<BI', r[:5])
                    if m_ != mid or a_ != pos or len(r) - 5 > 25 or len(r) > 30 or (len(r) == 5 and n > 0):
                        bad = r
                        break
                    pos += len(r) - 5
                if bad is not None or pos != addr + n:
                    p.violation('mem:write:chunk_tiling:%s' % cls, 'write(mem %d, %#x, %d bytes): chunks %r do not tile the range '
                                'once, ascending, <= 25 data bytes' % (mid, addr, n, [(r[:5].hex(), len(r) - 5) for r in ws][:6]), rp)
                rd_, wr_, lk_ = _internals(cf.mem)
                if lk_ is not None and lk_.locked():
                    p.violation('mem:write:lock_left_held:%s' % cls, 'after write(mem %d, %#x, %d bytes) _write_requests_lock is '
                                'still held' % (mid, addr, n), rp)
                    _force_unlock(lk_)
                if wr_ is not None and any(wr_.get(k) for k in wr_):
                    p.violation('mem:write:record_left_behind:%s' % cls, 'after write(mem %d, %#x, %d bytes) _write_requests=%r' % (
                        mid, addr, n, {k: len(v) for k, v in wr_.items()}), rp)
                    wr_.clear()
                if with_progress and n > 0 and (not prog or prog[-1] != 100 or prog != sorted(prog)):
                    p.violation('mem:write:progress:%s' % cls, 'progress callbacks %r' % (prog,), rp)
        cf.close_link()

    ex.run(main)
    if ex.s.status != 'ok':
        p.violation('mem:partA:%s' % ex.s.status, 'part A did not complete: %r' % (ex.s.blocked_report,), {'part': 'A', 'mem': mid})
    if ex.s.died:
        p.violation('mem:partA:thread_died:%s' % ex.s.died[0][1].split('(')[0], 'thread died: %r' % (ex.s.died[0][:2],),
                    {'part': 'A', 'mem': mid})
    return p


# ---------------------------------------------------------------------------------------------
# Part C: requests started from inside a completion notification (the pattern the library's own one-wire and deck
# memory classes use: header first, then the elements from the header's callback)
# ---------------------------------------------------------------------------------------------
def part_chain(job):
    from cflib.crazyflie import Crazyflie
    from cflib.crazyflie.mem import MemoryElement
    cfh.setup()
    first, second, same, fail_first, ln = job
    p = Partial()
    dev = _mk_device()
    ex = cfh.Exec((), dev, time_limit=400.0, reply_menu=('once',), needs_resending=True)
    ex.freeze()
    state = {'armed': False}

    def err_hook(port, chan, data):
        if port == 4 and chan in (1, 2) and state.get('fail_next'):
            state['fail_next'] = False
            return [(simcf.SimCF.hdr(4, chan), bytes(data[:5]) + bytes([5]))]
        return None
    dev.hooks.append(err_hook)
    rp = {'part': 'C', 'first': first, 'second': second, 'same_memory': same, 'first_fails': fail_first, 'len': ln}
    name = '%s_then_%s:%s:%s' % (first, second, 'same_mem' if same else 'other_mem', 'after_failure' if fail_first else 'after_success')

    def main():
        cf = Crazyflie()
        if not _connect(ex, cf):
            p.violation('mem:setup:no_connect', 'could not connect to the empty device', rp)
            return
        mems = [MemoryElement(id=MEM_IDS[i], type=0x15, size=1 << 32, mem_handler=cf.mem) for i in range(2)]
        m1, m2 = mems[0], (mems[0] if same else mems[1])
        a1, a2 = 0x40, 0x240
        d1, d2 = _content(a1, ln, 3), _content(a2, ln, 4)
        before = {m.id: dict(dev.mem_by_id[m.id].cells) for m in mems}
        got = {}

        def issue(kind, mem, addr, data):
            try:
                return cf.mem.read(mem, addr, ln) if kind == 'r' else cf.mem.write(mem, addr, list(data))
            except Exception as e:  # noqa
                return e

        def chain(*a):
            # the first completion (whatever it is) starts the second request, from the thread that delivers it
            if state['armed']:
                state['armed'] = False
                got['acc2'] = issue(second, m2, a2, d2)
        # the chaining callback is registered before the observer, as an application's would be
        for c in (cf.mem.mem_read_cb, cf.mem.mem_read_failed_cb, cf.mem.mem_write_cb, cf.mem.mem_write_failed_cb):
            c.add_callback(chain)
        obs = _Obs(ex, cf)
        state['armed'] = True
        state['fail_next'] = fail_first
        got['acc1'] = issue(first, m1, a1, d1)
        ex.wait_for(lambda: len(obs.events) >= 2, 5.0, 'wait.chain')
        ex.s.sleep(0.05)
        ev = [(e[0], e[1], e[2]) for e in obs.events]
        p.case(key=('chain',) + tuple(job), outcome=(tuple(e[0] for e in ev), repr(got.get('acc2'))),
               sample={'chain': name, 'notifications': ev} if ln == 21 else None)
        k1 = ('read' if first == 'r' else 'write') + ('_fail' if fail_first else '_ok')
        k2 = ('read' if second == 'r' else 'write') + '_ok'
        want = [(k1, m1.id, a1), (k2, m2.id, a2)]
        if got.get('acc1') is not True or got.get('acc2') is not True or ev != want:
            p.violation('mem:chained_request:%s' % name, 'a %s of memory %d started from inside the completion notification of '
                        'a %s of memory %d: accepted=%r/%r, notifications=%r, expected %r' % (
                            second, m2.id, first, m1.id, got.get('acc1'), got.get('acc2'), ev, want), rp)
        else:
            if second == 'r':
                exp = dev.mem_by_id[m2.id].read(a2, ln)
                if obs.events[1][3] != exp:
                    p.violation('mem:chained_request:data:%s' % name, 'chained read returned %s, device holds %s' % (
                        obs.events[1][3].hex()[:60], exp.hex()[:60]), rp)
            expect = {m.id: dict(before[m.id]) for m in mems}
            if first == 'w' and not fail_first:
                for i, b in enumerate(d1):
                    expect[m1.id][a1 + i] = b
            if second == 'w':
                for i, b in enumerate(d2):
                    expect[m2.id][a2 + i] = b
            for m in mems:
                if dict(dev.mem_by_id[m.id].cells) != expect[m.id] and not fail_first:
                    p.violation('mem:chained_request:image:%s' % name, 'device image of memory %d differs from the data written' % m.id, rp)
        rd_, wr_, lk_ = _internals(cf.mem)
        if rd_:
            p.violation('mem:chained_request:record_left_behind:%s' % name, '_read_requests=%r' % (list(rd_),), rp)
        if wr_ is not None and any(wr_.get(k) for k in wr_):
            p.violation('mem:chained_request:record_left_behind:%s' % name, '_write_requests=%r' % ({k: len(v) for k, v in wr_.items()},), rp)
        if lk_ is not None and lk_.locked():
            p.violation('mem:chained_request:lock_left_held:%s' % name, '_write_requests_lock is still held', rp)
        cf.close_link()

    ex.run(main)
    if ex.s.status != 'ok':
        p.violation('mem:partC:%s:%s' % (ex.s.status, name), 'part C did not complete: %r' % (ex.s.blocked_report,), rp)
    if ex.s.died:
        p.violation('mem:partC:thread_died:%s:%s' % (ex.s.died[0][1].split('(')[0], name), 'thread died: %r' % (ex.s.died[0][:2],), rp)
    return p


def _chain_jobs():
    return [(f, s_, same, ff, ln) for f in ('r', 'w') for s_ in ('r', 'w') for same in (True, False) for ff in (False, True)
            for ln in (1, 21, 45)]


# ---------------------------------------------------------------------------------------------
# Part B
# ---------------------------------------------------------------------------------------------
# op = (kind, memidx, addr, length)   kind in r / w / wf (flush_queue=True)
def _ops_alphabet():
    lens = (0, 1, 20, 21, 26, 45)
    seqs = []
    # single operations, every length
    for ln in lens:
        seqs.append((('r', 0, 16, ln),))
        seqs.append((('w', 0, 16, ln),))
    # two and three operations (queued writes, flush, read during write, two memories)
    seqs += [
        (('w', 0, 0, 26), ('w', 0, 40, 1)),
        (('w', 0, 0, 45), ('w', 0, 10, 21), ('w', 0, 20, 1)),
        (('w', 0, 0, 26), ('wf', 0, 5, 21)),
        (('w', 0, 0, 26), ('w', 0, 30, 1), ('wf', 0, 5, 20)),
        (('w', 0, 0, 21), ('r', 0, 0, 21)),
        (('r', 0, 0, 45), ('r', 0, 10, 1)),
        (('r', 0, 0, 21), ('w', 0, 0, 26), ('r', 1, 0, 20)),
        (('w', 0, 0, 26), ('w', 1, 0, 26)),
        (('r', 0, 0, 21), ('r', 1, 5, 21)),
        (('w', 0, 0, 1), ('w', 0, 0, 1), ('w', 0, 0, 1)),
    ]
    return seqs


def _left_held(lk, s):
    """The lock is held and nobody who could release it is at work: its holder has ended (an exception or a return inside the
    critical section).  A holder that is still running is inside the section, not past it."""
    if not lk.locked():
        return False
    owner = getattr(lk, '_owner', None)
    name = getattr(owner, 'name', owner)
    for t in s.threads:
        if t.name == name and t.state != vsched.DONE:
            return False
    return True


def exec_c06(cfg, devs):
    from cflib.crazyflie import Crazyflie
    from cflib.crazyflie.mem import MemoryElement
    import struct
    p = Partial()
    dev = _mk_device()
    menu = ('once', 'dup', 'delay1.05', 'drop')
    vsched.clear_traced_functions()
    if cfg.get('lines'):
        # line-level scheduling points in the memory subsystem (request bookkeeping shared by user threads and the
        # dispatcher): every private function of the Memory class and of the module's private request classes
        import cflib.crazyflie.mem as mm
        vsched.trace_functions([f for f in cfh.functions_of(mm.Memory, module=mm, skip=('__init__',))
                                if f.__name__.startswith('_') or f.__name__ in ('write', 'read', 'start', 'resend',
                                                                                'add_data', 'write_done')])
    ex = cfh.Exec(devs, dev, time_limit=60.0, reply_menu=menu, needs_resending=True, send_fault=bool(cfg.get('send_fault')),
                  policy=cfg.get('policy'))
    # only memory replies are faulted (the connect handshake is C02/C03's business)
    ex.env.reply_filter = lambda h, payload: None if ((h >> 4) & 15) == 4 else ('once',)
    ops = cfg['ops']
    info = {'accepted': [], 'reconnected': False, 'issue_order': [], 'accepted_by_index': {}}
    errs = []

    def err_hook(port, chan, data):
        if port == 4 and chan in (1, 2) and not ex.frozen and info.get('armed'):
            k = ex._choose(3, 'mem.err')
            if k:
                # an error status: one the library has a text for (ENOMEM / ENOENT), or another legal errno (EIO)
                errs.append((chan, bytes(data[:5])))
                st = (12 if chan == 2 else 2) if k == 1 else 5
                return [(simcf.SimCF.hdr(4, chan), bytes(data[:5]) + bytes([st]))]
        return None
    dev.hooks.append(err_hook)

    def main():
        s = ex.s
        cf = Crazyflie()
        ex.freeze()
        if not _connect(ex, cf):
            info['noconnect'] = True
            return
        ex.frozen = False
        s.frozen = False
        info['armed'] = True
        obs = _Obs(ex, cf)
        info['obs'] = obs
        mems = [MemoryElement(id=MEM_IDS[i], type=0x15, size=1 << 32, mem_handler=cf.mem) for i in range(2)]
        if cfg.get('fault'):
            def fault_body():
                s.lazy_point('env.linkfault')
                if ex.env.links and not ex.frozen:
                    ex.env.links[-1].fail_from_driver_thread()
            s.spawn(None, fault_body, name='env-driver-fault')
            s.sleep(1e-6, 'let.env.park')          # the link can be lost from the first line of the first request on
        # a user stops issuing requests once the library has *told* it that the link is gone (not before: a request can
        # race with the error path)
        cf.disconnected.add_callback(lambda uri: info.__setitem__('told', True))
        # windows of the dispatcher handling a memory packet and of the memory subsystem's teardown (observers placed
        # around the library's own callbacks: first / last in the Callers and in the dispatcher's table)
        cf.packet_received.add_callback(lambda pk: ex.log('disp_begin') if pk.port == 4 else None)
        cf.add_port_callback(4, lambda pk: ex.log('disp_end'))
        cf.disconnected.callbacks.insert(0, lambda uri: ex.log('td_begin'))
        cf.disconnected.add_callback(lambda uri: ex.log('td_end'))

        def issue(i, kind, mi, addr, ln):
            ex.log('op', i, kind)
            if info.get('told'):
                info['issue_order'].append(i)
                info['accepted_by_index'][i] = 'SKIPPED'
                return
            try:
                if kind == 'r':
                    acc = cf.mem.read(mems[mi], addr, ln)
                else:
                    # the data is the caller's buffer (a list or a bytearray): once write() has returned the caller reuses
                    # it - what is written is the content at the time of the call
                    buf = list(_content(addr, ln, i + 1)) if i % 2 == 0 else bytearray(_content(addr, ln, i + 1))
                    acc = cf.mem.write(mems[mi], addr, buf, flush_queue=(kind == 'wf'))
                    if i % 3 == 2:
                        del buf[:]
                    else:
                        buf[:] = [0xEE] * len(buf)
            except Exception as e:  # noqa
                acc = e
            # calls of the two user threads may overlap; they are ordered by completion (= order of the critical sections)
            info['issue_order'].append(i)
            info['accepted_by_index'][i] = acc
            ex.log('op_ret', i, repr(acc)[:40])

        if cfg.get('bystander'):
            # another Crazyflie object is created in the same process at an arbitrary moment (a swarm script connecting
            # its next member): nothing of it may touch this one's transfers
            def other_cf():
                s.lazy_point('env.other_crazyflie', timeout=0.05)
                info['other'] = Crazyflie()
            s.spawn(None, other_cf, name='env-other-crazyflie')
            s.sleep(1e-6, 'let.env.park')
        if cfg.get('second_user'):
            # the last operation comes from a second user thread at an arbitrary moment (lazy: one deviation to fire
            # at any scheduling point, by default once everything before it has settled)
            first, last = ops[:-1], ops[-1]

            def second():
                s.lazy_point('user2.op', timeout=cfg['second_user'])
                issue(len(first), *last)
            s.spawn(None, second, name='user2')
            s.sleep(1e-6, 'let.user2.park')        # user2 parks itself as a lazy thread before anything is issued
            for i, (kind, mi, addr, ln) in enumerate(first):
                issue(i, kind, mi, addr, ln)
            s.sleep(cfg['second_user'] + 0.01, 'wait.user2')
            ops_iter = ()
        else:
            ops_iter = ops
        for i, (kind, mi, addr, ln) in enumerate(ops_iter):
            ex.log('op', i, kind)
            if cf.link is None:
                # the link is already down: a user would not issue further requests (outside the statement)
                info['accepted'].append('SKIPPED')
                continue
            try:
                if kind == 'r':
                    acc = cf.mem.read(mems[mi], addr, ln)
                else:
                    # the data is the caller's buffer (a list or a bytearray): once write() has returned the caller reuses
                    # it - what is written is the content at the time of the call
                    buf = list(_content(addr, ln, i + 1)) if i % 2 == 0 else bytearray(_content(addr, ln, i + 1))
                    acc = cf.mem.write(mems[mi], addr, buf, flush_queue=(kind == 'wf'))
                    if i % 3 == 2:
                        del buf[:]
                    else:
                        buf[:] = [0xEE] * len(buf)
            except Exception as e:  # noqa
                acc = e
            info['accepted'].append(acc)
            ex.log('op_ret', i, repr(acc)[:40])
        # let everything finish: all accepted requests notified or time is up
        s.sleep(cfg.get('settle', 3.4), 'settle')
        info['armed'] = False
        ex.freeze()
        info['events_main'] = list(obs.events)
        rd_, wr_, lk_ = _internals(cf.mem)
        info['lock_held'] = _left_held(lk_, s) if lk_ is not None else None
        info['read_records'] = sorted(rd_) if rd_ is not None else None
        info['write_records'] = {k: len(v) for k, v in wr_.items() if v} if wr_ is not None else None
        info['link_lost'] = cf.link is None
        if cf.link is None:
            # reconnect for the probes
            info['reconnected'] = _connect(ex, cf)
            # user callbacks registered on the Memory object do not survive a disconnect (_clear_state): register again
            obs = _Obs(ex, cf)
        # probes
        del obs.events[:]
        probes = []
        for mi in range(2):
            try:
                a1 = cf.mem.read(mems[mi], 0x2000, 21)
            except Exception as e:  # noqa
                a1 = e
            ex.wait_for(lambda: any(e[0].startswith('read') and e[1] == MEM_IDS[mi] for e in obs.events), 4.0, 'probe.read')
            # the probe write runs on a helper thread so that a wedged lock shows up as a hang of that thread only
            done = {}

            def wr(mi=mi):
                try:
                    done['acc'] = cf.mem.write(mems[mi], 0x3000, list(_content(0x3000, 26, 9)))
                except Exception as e:  # noqa
                    done['acc'] = e
            t = s.spawn(None, wr, name='probe-writer')
            ex.wait_for(lambda: any(e[0].startswith('write') and e[1] == MEM_IDS[mi] and e[2] == 0x3000 for e in obs.events),
                        4.0, 'probe.write')
            s.sleep(0.01, 'probe.settle')       # let the writer thread return from write() before it is judged
            probes.append((a1, done.get('acc', 'BLOCKED'),
                           [e[0] for e in obs.events if e[1] == MEM_IDS[mi] and e[2] in (0x2000, 0x3000)]))
        info['probes'] = probes
        cf.close_link()

    ex.run(main)
    _judge(p, cfg, devs, ex, info, dev, errs)
    return p, ex.ch.ns, ex.ch.labels


def _judge(p, cfg, devs, ex, info, dev, errs):
    s = ex.s
    ops = cfg['ops']
    cname = cfg['name']
    menu = ('once', 'dup', 'delay1.05', 'drop')
    kinds = set()
    for (_, a, l) in ex.ch.taken:
        if l.startswith('reply:'):
            kinds.add(menu[a] + '@' + l.split(':')[1])
        elif l == 'mem.err':
            kinds.add('err_status')
        elif l == 'send_fault':
            kinds.add('linkfault')
        elif l == 'env.linkfault' or any(e[1] == 'fault' for e in ex.events):
            kinds.add('linkfault')
        else:
            kinds.add('sched')
    if ex.env.faults and any(f[0] in ('driver', 'send') for f in ex.env.faults):
        kinds.add('linkfault')
    fclass = '+'.join(sorted(kinds)) or 'none'
    rp = {'cfg': cfg, 'devs': list(devs)}

    def viol(clause, what):
        p.violation('mem:%s|%s' % (clause, fclass), '%s devs=%r [%s]: %s' % (cname, devs, fclass, what), rp)

    evs = info.get('events_main', [])
    p.case(key=(cname, tuple(devs)), nontrivial=bool(devs), outcome=(s.status, tuple(e[0] for e in evs), fclass),
           sample={'ops': ops, 'deviations': [(i, a, l) for (i, a, l) in ex.ch.taken], 'notifications': [e[:3] for e in evs]}
           if (not devs or hash((cname, tuple(devs))) % 61 == 0) else None)
    if info.get('noconnect'):
        viol('setup_no_connect', 'could not connect')
        return
    if s.died:
        viol('thread_died:%s:%s' % (s.died[0][0].split(':')[0], s.died[0][1].split('(')[0]),
             'thread %s died with %s' % (s.died[0][0], s.died[0][1]))
    if s.status != 'ok':
        mainb = [b for b in (s.blocked_report or []) if b['thread'] == 'main']
        viol('%s:%s' % (s.status, (mainb[0]['stack'][-1].split(' ')[-1] if mainb and mainb[0]['stack'] else 'main')),
             'execution did not complete; main blocked at %r' % (mainb[0]['stack'][-3:] if mainb else None,))
        return
    link_lost = 'linkfault' in kinds
    # ---- per request: exactly one notification (unless refused or superseded) ------------------------
    # reference: walk ops; refused reads (another read on that memory still pending) are not accepted; flushed writes are
    # superseded.  Without faults everything completes in order.
    if info.get('issue_order'):
        # operations issued by two user threads: judge them in the order they were actually issued
        order_ = info['issue_order']
        orig_ops = ops
        ops = tuple(orig_ops[i] for i in order_)
        acc = [info['accepted_by_index'].get(i, 'SKIPPED') for i in order_]
        salt = {j: order_[j] + 1 for j in range(len(order_))}
    else:
        acc = info['accepted']
        salt = {j: j + 1 for j in range(len(ops))}
    for i, a in enumerate(acc):
        if isinstance(a, Exception):
            viol('op_raised:%s:%s' % (ops[i][0], type(a).__name__), 'operation %d %r raised %r' % (i, ops[i], a))
    # did the teardown of a lost link (Memory._disconnected, on the thread that reports the error) overlap the dispatcher's
    # handling of a memory packet?  (known finding: neither excludes the other)
    in_disp = in_td = False
    overlap = ''
    for e in ex.events:
        if e[1] == 'disp_begin':
            in_disp = True
        elif e[1] == 'disp_end':
            in_disp = False
        elif e[1] == 'td_begin':
            in_td = True
        elif e[1] == 'td_end':
            in_td = False
        if in_disp and in_td:
            overlap = ':teardown_overlaps_dispatch'
    want = {}         # (kind, mem id, addr) -> number of notifications expected
    refused = {}      # requests the library refused (returned False): the statement is about requests it took on, so a
    #                   refusal that is *also* reported through one failure notification is accepted (never a success)
    superseded = set()
    queue = {0: [], 1: []}
    for i, (kind, mi, addr, ln) in enumerate(ops):
        if i < len(acc) and acc[i] is False:
            kk = ('read' if kind == 'r' else 'write', MEM_IDS[mi], addr)
            refused[kk] = refused.get(kk, 0) + 1
        if i >= len(acc) or acc[i] is not True:
            continue
        if kind == 'r':
            want[('read', MEM_IDS[mi], addr)] = want.get(('read', MEM_IDS[mi], addr), 0) + 1
        else:
            if kind == 'wf':
                for j in queue[mi][1:]:
                    superseded.add(j)
                queue[mi] = queue[mi][:1]
            queue[mi].append(i)
    may_be_superseded = {}
    for i, (kind, mi, addr, ln) in enumerate(ops):
        if kind in ('w', 'wf') and i < len(acc) and acc[i] is True:
            k = ('write', MEM_IDS[mi], addr)
            if i in superseded:
                # a queued write that had already become the head before the flush cannot be told apart here:
                # accept 0 or 1 notification for it
                may_be_superseded[k] = may_be_superseded.get(k, 0) + 1
            else:
                want[k] = want.get(k, 0) + 1
    got = {}
    for e in evs:
        k = (e[0].split('_')[0], e[1], e[2])
        got[k] = got.get(k, 0) + 1
    for k in set(want) | set(got):
        w = want.get(k, 0)
        g = got.get(k, 0)
        extra_ok = may_be_superseded.get(k, 0)
        nfail = sum(1 for e in evs if (e[0].split('_')[0], e[1], e[2]) == k and e[0].endswith('_fail'))
        if w == 0 and refused.get(k) and g <= refused[k] and nfail == g:
            continue
        if not (w <= g <= w + extra_ok):
            detail = overlap
            if k[0] == 'write' and g < w:
                # did the device receive the whole write?
                ln = [o[3] for o in ops if o[0] in ('w', 'wf') and MEM_IDS[o[1]] == k[1] and o[2] == k[2]]
                sm = dev.mem_by_id[k[1]]
                covered = set()
                for a, d in sm.writes:
                    covered.update(range(a, a + len(d)))
                full = bool(ln) and all(a in covered for a in range(k[2], k[2] + ln[0])) and (ln[0] > 0 or any(
                    a == k[2] for a, d in sm.writes))
                detail = (':completed_on_device' if full else ':incomplete_on_device') + overlap
            viol('notification_count:%s:got%d_want%d%s' % (k[0], g, w, detail),
                 'request %s mem %d addr %#x: %d completion notifications, expected %d; all notifications: %r'
                 % (k[0], k[1], k[2], g, w, [e[:3] for e in evs]))
    # reads on a memory with a pending read are refused
    # ---- data of successful reads ------------------------------------------------------------------------
    # (reads that overlap a concurrent write may see either value: only check bytes not touched by any write)
    written = {}
    for mid in MEM_IDS:
        sm = dev.mem_by_id[mid]
        for a, d in sm.writes:
            for i2 in range(len(d)):
                written[(mid, a + i2)] = True
    for e in evs:
        if e[0] == 'read_ok':
            ln = [o[3] for o in ops if o[0] == 'r' and MEM_IDS[o[1]] == e[1] and o[2] == e[2]]
            sm = dev.mem_by_id[e[1]]
            if not ln or len(e[3]) != ln[0]:
                viol('read_length', 'read of mem %d at %#x returned %d bytes, requested %r' % (e[1], e[2], len(e[3]), ln))
                continue
            for i2, b in enumerate(e[3]):
                if not written.get((e[1], e[2] + i2)) and b != sm.background(e[2] + i2):
                    viol('read_data', 'read of mem %d at %#x: byte %d is %#x, device holds %#x' % (
                        e[1], e[2], i2, b, sm.background(e[2] + i2)))
                    break
    # ---- device image: writes that were notified ok are in the image; queue order --------------------------
    if not link_lost and 'err_status' not in kinds:
        for mi in (0, 1):
            sm = dev.mem_by_id[MEM_IDS[mi]]
            ref = {}
            for i, (kind, mi2, addr, ln) in enumerate(ops):
                if mi2 == mi and kind in ('w', 'wf') and i < len(acc) and acc[i] is True and i not in superseded:
                    for j, b in enumerate(_content(addr, ln, salt[i])):
                        ref[addr + j] = b
            cells = {a: b for a, b in sm.cells.items() if a < 0x2000}
            # superseded writes may have partially/fully happened; compare only if none were superseded
            if not any(ops[i][1] == mi for i in superseded) and cells != ref:
                diff = sorted(k for k in set(cells) | set(ref) if cells.get(k) != ref.get(k))
                viol('final_image', 'mem %d: device image differs from the sequential reference at %r' % (
                    MEM_IDS[mi], [hex(a) for a in diff[:6]]))
            # order of first chunks
            firsts = [a for (a, d) in sm.writes if a < 0x2000]
            order = []
            for i, (kind, mi2, addr, ln) in enumerate(ops):
                if mi2 == mi and kind in ('w', 'wf') and i < len(acc) and acc[i] is True and i not in superseded:
                    order.append(addr)
            seen = [a for a in firsts if a in order]
            dedup = []
            for a in seen:
                if not dedup or dedup[-1] != a:
                    dedup.append(a)
            # calls that overlap in time may take effect in either order
            calls = {}
            for pos, e in enumerate(ex.events):
                if e[1] == 'op':
                    calls.setdefault(e[2], [pos, 1 << 60])
                elif e[1] == 'op_ret' and e[2] in calls:
                    calls[e[2]][1] = pos
            iv = sorted(calls.values())
            overlapping = any(a[1] > b[0] for a, b in zip(iv, iv[1:]))
            if [a for a in dedup] != order and len(set(order)) == len(order) and not overlapping:
                viol('write_order', 'mem %d: writes reached the device in order %r, issued %r' % (MEM_IDS[mi], dedup, order))
    # ---- nothing left behind ------------------------------------------------------------------------------------
    if info.get('lock_held'):
        viol('lock_left_held', '_write_requests_lock still held after all requests settled')
    if info.get('read_records'):
        viol('read_record_left_behind', '_read_requests still holds %r' % (info['read_records'],))
    if info.get('write_records'):
        viol('write_record_left_behind', '_write_requests still holds %r' % (info['write_records'],))
    if info.get('link_lost') and not info.get('reconnected'):
        viol('reconnect_failed', 'could not connect again after the link loss')
    for mi, pr in enumerate(info.get('probes', [])):
        if pr[0] is not True or pr[1] is not True or sorted(pr[2]) != ['read_ok', 'write_ok']:
            viol('probe_not_served:%s' % ('write_blocked' if pr[1] == 'BLOCKED' else 'other'),
                 'probe on mem %d afterwards: read accepted=%r, write accepted=%r, notifications=%r' % (
                     MEM_IDS[mi], pr[0], pr[1], pr[2]))


def configs(quick):
    out = []
    for i, ops in enumerate(_ops_alphabet()):
        name = 'ops:' + ','.join('%s%d@%d+%d' % o for o in ops)
        out.append({'name': name, 'ops': ops, 'fault': True})
    for ops in ((('w', 0, 0, 1), ('w', 0, 40, 45)), (('w', 0, 0, 26), ('w', 0, 40, 26)), (('r', 0, 0, 21), ('r', 0, 40, 21)),
                (('w', 0, 0, 26), ('r', 0, 0, 26)), (('w', 0, 0, 26), ('wf', 0, 40, 26))):
        name = 'user2:' + ','.join('%s%d@%d+%d' % o for o in ops)
        out.append({'name': name, 'ops': ops, 'fault': False, 'second_user': 1.3})
    for pol in ('handoff', 'eager'):
        for ops in ((('w', 0, 0, 26), ('w', 0, 40, 26)), (('r', 0, 0, 45),), (('w', 0, 0, 45), ('r', 0, 0, 21))):
            out.append({'name': pol + ':' + ','.join('%s%d@%d+%d' % o for o in ops), 'ops': ops, 'fault': True, 'policy': pol})
    for ops in ((('w', 0, 0, 45), ('w', 0, 60, 26)), (('r', 0, 0, 45),), (('w', 0, 0, 26), ('r', 1, 0, 21))):
        name = 'other_cf:' + ','.join('%s%d@%d+%d' % o for o in ops)
        out.append({'name': name, 'ops': ops, 'fault': False, 'bystander': True})
    for ops in ((('w', 0, 0, 26),), (('r', 0, 0, 21),), (('w', 0, 0, 26), ('w', 0, 40, 1))):
        name = 'sendfault:' + ','.join('%s%d@%d+%d' % o for o in ops)
        out.append({'name': name, 'ops': ops, 'fault': False, 'send_fault': True})
    return out


def _focus_filter(devs, i, alt, label):
    if not devs:
        return label.startswith('reply:p4') or label in ('mem.err', 'env.linkfault', 'user2.op')
    if len(devs) == 1 and devs[0][0] + 150 < i:
        return False
    if len(devs) == 2 and (devs[1][0] + 25 < i or devs[1][0] > devs[0][0] + 60):
        return False
    return label.startswith('L:') or label in ('lock.release', 'link.rx')


# ---------------------------------------------------------------------------------------------
# Part C: the deck-memory element (DeckMemoryManager / DeckMemory) on top of the real Memory
# ---------------------------------------------------------------------------------------------
DECK_BASE = 0x10000


def part_deck(_):
    """Sequences of deck-memory queries, reads and writes, each either served, or refused by the device with an error
    status, with and without the optional failure callback: every operation ends in exactly one of its callbacks (when it
    has the one that applies), data is exact, and the next operation of the same kind is accepted and served."""
    from cflib.crazyflie import Crazyflie
    from cflib.crazyflie.mem import MemoryElement
    from vf import c14_dev
    cfh.setup()
    p = Partial()
    sm = simcf.SparseMem(mtype=0x19, size=0x20000000, seed=3)
    infos = [None] * 8
    infos[1] = (0x0F, 0x00, 0x1234, 64, DECK_BASE, b'bcAI')          # valid, started, read + write
    infos[2] = (0x07, 0x00, 0, 0, 2 * DECK_BASE, b'bcRO')            # valid, started, read only
    for i, b in enumerate(c14_dev.deck_info_image(3, infos)):
        sm.cells[i] = b
    dev = simcf.SimCF(protocol=10, log=(), params=(), mems=[sm])
    ex = cfh.Exec((), dev, time_limit=4000.0, reply_menu=('once',), needs_resending=True)
    ex.freeze()

    def main():
        cf = Crazyflie()
        if not _connect(ex, cf):
            p.violation('deck:setup:no_connect', 'could not connect', {'part': 'deck'})
            return
        mgrs = cf.mem.get_mems(MemoryElement.TYPE_DECK_MEMORY)
        if len(mgrs) != 1:
            p.violation('deck:setup:no_manager', 'memory refresh found %d deck memory managers' % len(mgrs), {'part': 'deck'})
            return
        mgr = mgrs[0]
        got = []

        def run_op(kind, deck, fail, with_fcb, tag):
            """-> 'refused:<exc>' | list of callbacks received"""
            del got[:]
            addr, ln = 5, 30
            fcb = (lambda *a: got.append(('fail',) + a)) if with_fcb else None
            if fail:
                first = 0 if kind == 'query' else deck._base_address + addr
                dev.mem_status[(0, 'r' if kind != 'write' else 'w', first)] = 5
            try:
                if kind == 'query':
                    mgr.query_decks(lambda d: got.append(('ok', sorted(d))), fcb)
                elif kind == 'read':
                    deck.read(addr, ln, lambda a, d: got.append(('ok', a, bytes(d))), fcb)
                else:
                    data = _content(addr, ln, len(tag))
                    if fcb is None:
                        deck.write(addr, data, lambda a: got.append(('ok', a)))
                    else:
                        deck.write(addr, data, lambda a: got.append(('ok', a)), fcb)
            except Exception as e:  # noqa
                dev.mem_status.clear()
                return 'refused:%s' % (str(e)[:40],)
            ex.wait_for(lambda: got, 3.0, 'wait.deck')
            ex.s.sleep(0.05)
            dev.mem_status.clear()
            return list(got)

        decks = {}
        r = run_op('query', None, False, True, 'q0')
        p.case(key=('deck', 'query0'), outcome=('query', repr(r)[:40]))
        if r != [('ok', [1, 2])]:
            p.violation('deck:query', 'query_decks on a device with decks in slots 1 and 2 ended with %r' % (r,), {'part': 'deck'})
            return
        decks = dict(mgr.deck_memories)
        deck = decks[1]
        # every sequence of two operations of one kind: (served | failing) x (with | without failure callback), then a
        # served one - the last must always be accepted and served
        for kind in ('read', 'write', 'query'):
            for f1 in (False, True):
                for c1 in (True, False):
                    for f2 in (False, True):
                        for c2 in (True, False):
                            seq = [(f1, c1), (f2, c2), (False, True)]
                            res = [run_op(kind, deck, f, c, '%s%d' % (kind, i)) for i, (f, c) in enumerate(seq)]
                            p.case(key=('deck', kind, f1, c1, f2, c2), outcome=(kind, tuple(repr(x)[:30] for x in res)))
                            rp = {'part': 'deck', 'kind': kind, 'seq': [list(x) for x in seq]}
                            for i, ((f, c), r_) in enumerate(zip(seq, res)):
                                what = '%s #%d of %r (failing=%r, failure callback given=%r)' % (kind, i, seq, f, c)
                                if isinstance(r_, str):
                                    p.violation('deck:%s:refused_after_%s' % (kind, 'failure' if any(x[0] for x in seq[:i]) else 'success'),
                                                '%s was refused: %s' % (what, r_), rp)
                                    continue
                                oks = [g for g in r_ if g[0] == 'ok']
                                fails = [g for g in r_ if g[0] == 'fail']
                                if not f:
                                    if len(oks) != 1 or fails:
                                        p.violation('deck:%s:served_callbacks' % kind, '%s ended with %r' % (what, r_), rp)
                                    elif kind == 'read' and (oks[0][1] != 5 or oks[0][2] != bytes(sm.read(DECK_BASE + 5, 30))):
                                        p.violation('deck:read:data', '%s delivered %r, the device holds %r' % (
                                            what, oks[0][1:], bytes(sm.read(DECK_BASE + 5, 30))), rp)
                                else:
                                    if oks or len(fails) != (1 if c else 0):
                                        p.violation('deck:%s:failed_callbacks:%s' % (kind, 'with_cb' if c else 'without_cb'),
                                                    '%s ended with %r' % (what, r_), rp)
                            if kind == 'write' and bytes(sm.read(DECK_BASE + 5, 30)) != _content(5, 30, len('write2')):
                                p.violation('deck:write:image', 'after the served write the device holds %r' % (
                                    bytes(sm.read(DECK_BASE + 5, 30)),), rp)
        cf.close_link()

    ex.run(main)
    if ex.s.status != 'ok' or ex.s.died:
        p.violation('deck:%s' % (ex.s.status if ex.s.status != 'ok' else 'thread_died'),
                    'deck part did not complete: %r %r' % (ex.s.blocked_report, ex.s.died[:1]), {'part': 'deck'})
    return p



def _fires(label, alt, what):
    return any(a == alt and nm == what for a, nm in getattr(label, 'lazy', ()))


def _user2_filter(devs, i, alt, label):
    if not devs:
        return _fires(label, alt, 'user2.op')
    return i <= devs[0][0] + 25


def _linkfault_filter(devs, i, alt, label):
    if not devs:
        return _fires(label, alt, 'env.linkfault')
    return i <= devs[0][0] + 25


def _fault_user_filter(devs, i, alt, label):
    if not devs:
        return _fires(label, alt, 'env.linkfault')
    return i <= devs[0][0] + 30 and _fires(label, alt, 'user2.op')


def run(ck):
    cfh.setup()
    ck.rule = ('(C: 48 chains - a read / write of the same or another memory started from inside the success or failure notification of a read / write, lengths 1/21/45) (B also: 5 sequences whose last operation is issued by a second user thread at any scheduling point) A: 3 memory ids x 7 start addresses x (read lengths 0..61 + write lengths 0..76, with and without '
               'progress callback) on a fault-free link. B: 22 operation sequences (1-3 reads / writes / flushing writes '
               'on 1-2 memories, lengths 0/1/20/21/26/45) x deviation vectors over per-reply {dup, delay 1.05 s, drop}, '
               'per-request error status, link loss from the driver thread at any point, thread order; each ends with a '
               'probe read and write per memory; non-trivial = at least one deviation')
    ck.assume('SimCF memory port model (read: id, addr32, len -> id, addr32, status, data; write: id, addr32, data -> id, '
              'addr32, status); SparseMem image is the reference')
    ck.assume('a read overlapping a concurrent write is only checked on bytes no write touched')
    ck.pmap(part_a, [(mid, wp) for mid in MEM_IDS for wp in (False, True)])
    ck.pmap(part_deck, [None])
    ck.pmap(part_chain, _chain_jobs())
    cs = configs(ck.quick)
    r = explore(ck, exec_c06, cs, 1)
    ck.note('histories_one_deviation', r)
    # focused three-deviation search: one environment event (reply duplicated / delayed / dropped, error status, link
    # loss) and two thread switches at the lines of the memory subsystem, at lock hand-overs or at packet arrivals
    focus = [{'name': 'focus3:w0@0+26,w0@40+26', 'ops': (('w', 0, 0, 26), ('w', 0, 40, 26)), 'fault': True, 'lines': True,
              'second_user': 1.3}]
    if not ck.quick:
        focus += [{'name': 'focus3:w0@0+26,r0@0+26', 'ops': (('w', 0, 0, 26), ('r', 0, 0, 26)), 'fault': True, 'lines': True,
                   'second_user': 1.3},
                  {'name': 'focus3:r0@0+21,r0@40+21', 'ops': (('r', 0, 0, 21), ('r', 0, 40, 21)), 'fault': True, 'lines': True,
                   'second_user': 1.3}]
    # quick: the environment event plus one switch (within 150 points); thorough: plus a second switch close to the first
    r3 = explore(ck, exec_c06, focus, 2 if ck.quick else 3, child_filter=_focus_filter, max_execs=3000000)
    ck.note('focused_deviations', r3)
    # the link is lost at any point and a second user thread issues its request within the next 30 points (while the
    # error path is still running)
    fu = [{'name': 'fault+user2:r0@0+21,r0@40+21', 'ops': (('r', 0, 0, 21), ('r', 0, 40, 21)), 'fault': True, 'second_user': 1.3},
          {'name': 'fault+user2:w0@0+26,w0@40+26', 'ops': (('w', 0, 0, 26), ('w', 0, 40, 26)), 'fault': True, 'second_user': 1.3},
          {'name': 'fault+user2:r0@0+21,w0@40+26', 'ops': (('r', 0, 0, 21), ('w', 0, 40, 26)), 'fault': True, 'second_user': 1.3}]
    r4 = explore(ck, exec_c06, fu, 2, child_filter=_fault_user_filter, max_execs=3000000)
    ck.note('fault_then_second_user', r4)
    # two users at line level: the second user's request is issued at every line of the first one's call (and of the
    # handlers), for reads, writes and a mix on the same memory
    two = [{'name': 'two_users:lines:' + ','.join('%s%d@%d+%d' % o for o in ops), 'ops': ops, 'fault': False, 'lines': True,
            'second_user': 1.3}
           for ops in ((('r', 0, 0, 21), ('r', 0, 40, 21)), (('w', 0, 0, 26), ('w', 0, 40, 26)), (('w', 0, 0, 26), ('r', 0, 0, 26)),
                       (('r', 0, 0, 21), ('wf', 0, 40, 26)))]
    r5 = explore(ck, exec_c06, two, 1 if ck.quick else 2, child_filter=_user2_filter, max_execs=3000000)
    ck.note('two_users_line_level', r5)
    # the link is lost at every line of the user's call and of the handlers, and the error path runs to its end before the
    # interrupted thread goes on (scheduling policy env_first); thorough: plus one more switch within 25 points
    lf = [{'name': 'linkfault:lines:' + ','.join('%s%d@%d+%d' % o for o in ops), 'ops': ops, 'fault': True, 'lines': True,
           'policy': 'env_first'}
          for ops in ((('r', 0, 0, 21), ('r', 0, 40, 21)), (('w', 0, 0, 26), ('w', 0, 40, 26)), (('w', 0, 0, 26), ('r', 0, 0, 26)),
                      (('r', 0, 0, 21), ('wf', 0, 40, 26)))]
    r6 = explore(ck, exec_c06, lf, 1 if ck.quick else 2, child_filter=_linkfault_filter, max_execs=3000000)
    ck.note('link_lost_at_line_level', r6)
    if not ck.quick:
        deep = [c for c in cs if len(c['ops']) >= 2][:6] + [c for c in cs if len(c['ops']) == 1 and c['ops'][0][3] in (21, 26)]
        r2 = explore(ck, exec_c06, [dict(c, name=c['name'] + ':2dev', settle=4.6) for c in deep], 2, max_execs=2000000)
        ck.note('histories_two_deviations', r2)
    ck.exhaustive = True


def replay(ck, data):
    cfh.setup()
    if data.get('part') == 'A':
        print('part A case: re-run the check (sequential sweep)', data)
        return
    if data.get('part') == 'C':
        p = part_chain((data['first'], data['second'], data['same_memory'], data['first_fails'], data['len']))
        ck.merge(p)
        for v in p.violations:
            print(' ', v['sig'], '::', v['what'])
        return
    cfg = data['cfg']
    cfg['ops'] = tuple(tuple(o) for o in cfg['ops'])
    p, ns, labels = exec_c06(cfg, tuple(tuple(d) for d in data['devs']))
    ck.merge(p)
    for v in p.violations:
        print(' ', v['sig'], '::', v['what'])
