"""C15 — Lighthouse angle / vector / pose conversions are mutually consistent.

Continuous-input property, decided over a *stated finite grid* that is enumerated completely
(no sampling):

A. sweep-angle grid (horizontal -80..80 deg, vertical -55..55 deg, 5 deg steps in quick / 1 deg in
   thorough, plus 0 and +-1e-9, +-1e-6, +-1e-3 rad on both axes): V1 -> cart / projection / V2 and
   back, unit norm of cart, geometric meaning of the V2 angles (tilted light planes).
B. V2 grid (both sweeps -70..70 deg + tiny angles) restricted to directions inside the field of view:
   V2 -> V1 -> V2.
C. pose lattice = rotation set (identity, quarter/half turns about the axes, 1e-9/1e-6/1e-3 rad and
   pi-1e-3/pi-1e-6 about the axes and a generic axis, half turn about a generic axis, 12 literal
   generic rotations; thorough adds a 9-axes x 15-angles lattice) x 7 translations:
   matrix / rotation-vector / quaternion views, inverse-undoes-forward, composition == sequential
   application for ALL ordered pairs, associativity for all triples of a fixed sub-set.
D. solver projection: LighthouseGeometrySolver._calc_angle_pairs / _poses_to_angle_pairs against the
   projection defined by the types (Pose.rotate_translate -> Pose.inv_rotate_translate ->
   LighthouseBsVector.from_cart) for every (base-station rotation x position, deck position in front
   of the station, Crazyflie rotation, sensor) of the lattice, including zero rotations.
E. IppeCf.solve on exact projections of the deck: one of the two returned poses is the true pose.

Tolerances (all justified where they are defined): float32 paths 1e-5 rad (relative for angles below
1 rad), double precision rigid-motion laws 1e-9 (scaled by the magnitudes involved).
"""
import math
import os

os.environ.setdefault('OPENBLAS_NUM_THREADS', '1')   # 3x3 / 4x4 algebra only: BLAS threads just add contention
os.environ.setdefault('OMP_NUM_THREADS', '1')

import numpy as np  # noqa: E402

from vf.core import Partial  # noqa: E402

ID = 'C15'
LEVEL = 'exploration'

T_TILT = math.pi / 6            # Lighthouse V2 light-plane tilt (hardware constant, +-30 deg)
H_MAX = math.radians(80.0)      # field of view of the property statement
V_MAX = math.radians(55.0)

VERBOSE = False                 # replay switches this on


# ---------------------------------------------------------------------------------------------
# independent references (plain numpy / math; nothing from cflib, no scipy Rotation)
# ---------------------------------------------------------------------------------------------

def rodrigues(rv):
    """Rotation matrix of a rotation vector, series expansion for small angles."""
    rv = np.asarray(rv, dtype=float)
    th2 = float(rv @ rv)
    th = math.sqrt(th2)
    K = np.array([[0.0, -rv[2], rv[1]], [rv[2], 0.0, -rv[0]], [-rv[1], rv[0], 0.0]])
    if th < 1e-4:
        a = 1.0 - th2 / 6.0 + th2 * th2 / 120.0
        b = 0.5 - th2 / 24.0 + th2 * th2 / 720.0
    else:
        a = math.sin(th) / th
        b = (1.0 - math.cos(th)) / th2
    return np.identity(3) + a * K + b * (K @ K)


def quat_to_matrix(q):
    """Scalar-last quaternion (x, y, z, w) -> rotation matrix (no normalisation assumed)."""
    x, y, z, w = (float(c) for c in q)
    s = 2.0 / (x * x + y * y + z * z + w * w)
    return np.array([
        [1 - s * (y * y + z * z), s * (x * y - z * w), s * (x * z + y * w)],
        [s * (x * y + z * w), 1 - s * (x * x + z * z), s * (y * z - x * w)],
        [s * (x * z - y * w), s * (y * z + x * w), 1 - s * (x * x + y * y)]])


def hom(R, t):
    H = np.identity(4)
    H[:3, :3] = R
    H[:3, 3] = t
    return H


def v2_plane_normal(alpha, tilt):
    """Normal of a V2 light plane: the plane y=0 (normal e_y) tilted by `tilt` about the x axis
    (the direction straight ahead), then rotated by the rotor angle alpha about the vertical z axis."""
    return np.array([-math.sin(alpha) * math.cos(tilt), math.cos(alpha) * math.cos(tilt), math.sin(tilt)])


# ---------------------------------------------------------------------------------------------
# the grids (literals; no RNG)
# ---------------------------------------------------------------------------------------------

TINY = (1e-9, 1e-6, 1e-3)


def angle_axis(max_deg, step_deg):
    g = [math.radians(d) for d in range(-max_deg, max_deg + 1, step_deg)]
    for e in TINY:
        g += [e, -e]
    return sorted(set(g))


GENERIC_ROTVECS = (
    (0.3, -0.5, 0.8), (-1.1, 0.4, 0.2), (0.7, 0.7, -0.1), (2.0, -1.0, 0.5), (-0.2, -2.4, 1.3), (1.5, 1.5, 1.5),
    (-0.05, 0.02, 0.9), (0.9, -0.02, 0.05), (0.01, 1.2, -0.03), (-2.9, 0.3, 0.1), (0.6, -2.2, -1.9),
    (1.0, 2.0, -2.0))
_AXES3 = ((1.0, 0.0, 0.0), (0.0, 1.0, 0.0), (0.0, 0.0, 1.0))
_GEN_AXIS = tuple(c / math.sqrt(1 + 4 + 0.25) for c in (1.0, -2.0, 0.5))
PI = math.pi


def _scaled(axis, ang):
    return tuple(ang * c for c in axis)


def rotation_set(thorough):
    rots = [(0.0, 0.0, 0.0)]
    for a in _AXES3:
        for ang in (PI / 2, -PI / 2, PI):
            rots.append(_scaled(a, ang))
    for a in _AXES3 + (_GEN_AXIS,):
        for ang in TINY + (PI - 1e-3, PI - 1e-6):
            rots.append(_scaled(a, ang))
    rots.append(_scaled(_GEN_AXIS, PI))
    rots += list(GENERIC_ROTVECS)
    if thorough:
        axes = list(_AXES3) + [_GEN_AXIS]
        for raw in ((1, 1, 0), (1, 0, 1), (0, 1, 1), (1, 1, 1), (-1, 1, -1)):
            n = math.sqrt(sum(c * c for c in raw))
            axes.append(tuple(c / n for c in raw))
        for a in axes:
            for ang in (1e-9, 1e-6, 1e-3, 0.1, 0.5, 1.0, PI / 2, 2.0, 3.0, PI - 1e-3, PI - 1e-6, PI, -1e-6, -0.5,
                        -PI / 2):
                rots.append(_scaled(a, ang))
    out, seen = [], set()
    for r in rots:
        r = tuple(float(c) + 0.0 for c in r)     # +0.0 turns -0.0 into 0.0
        if r not in seen:
            seen.add(r)
            out.append(r)
    return out


TRANSLATIONS = ((0.0, 0.0, 0.0), (1.0, 0.0, 0.0), (0.0, 1.0, 0.0), (0.0, 0.0, 1.0), (0.4, -1.7, 2.2),
                (3.0, 0.0, 0.0), (-3.0, 3.0, -3.0))
POINTS = ((0.0, 0.0, 0.0), (1.0, 0.0, 0.0), (0.0, 1.0, 0.0), (0.0, 0.0, 1.0), (0.3, -0.2, 0.9), (-3.0, 2.0, 1.0))


def rot_class(rv):
    th = math.sqrt(sum(c * c for c in rv))
    nz = sum(1 for c in rv if c != 0.0)
    if th == 0.0:
        return 'identity'
    if th <= 1e-2:
        return 'tiny'
    if abs(th - PI) < 1e-12:
        return 'half'
    if PI - th <= 1e-2:
        return 'near_pi'
    if abs(th - PI / 2) < 1e-12 and nz == 1:
        return 'quarter'
    return 'generic'


def ang_class(a):
    if a == 0.0:
        return 'zero'
    if abs(a) <= 1e-2:
        return 'tinyneg' if a < 0 else 'tinypos'
    return 'neg' if a < 0 else 'pos'


_SPECIAL_ORDER = ('identity', 'tiny', 'near_pi', 'half', 'quarter', 'generic')


def most_special(*rvs):
    """Input class of a case that involves several rotations: the most special one decides."""
    return min((rot_class(rv) for rv in rvs), key=_SPECIAL_ORDER.index)


def dir_class(h, v):
    """Input class of a direction (a, b): coarse, so that one defect yields few signatures."""
    ch, cv = ang_class(h), ang_class(v)
    if ch == 'zero' and cv == 'zero':
        return 'straight_ahead'
    if 'tiny' in ch or 'tiny' in cv:
        return 'tiny_angle'
    if ch == 'zero' or cv == 'zero':
        return 'on_axis'
    return {('pos', 'pos'): 'both_pos', ('neg', 'neg'): 'both_neg', ('pos', 'neg'): 'second_neg',
            ('neg', 'pos'): 'first_neg'}[(ch, cv)]


def ang_tol(a):
    """float32 accuracy of an angle: the conversions store tan(angle) / a normalised direction in
    float32 (relative precision 2^-24 = 6e-8 per component), so the error of a recovered angle is
    *relative* to the angle; 1e-5 (about 100 float32 ulps) for angles of order 1 rad as in the
    property ('float32 accuracy ~ 1e-5 rad'), proportionally less for tiny angles (so that a sign
    error on a 1e-6 rad angle is not swallowed), plus 1e-12 for double rounding of the sums."""
    return min(1e-5, 1e-5 * abs(a) + 1e-12)


class Part(Partial):
    """Partial that also tracks the worst residual/tolerance ratio per oracle clause."""

    def __init__(self):
        super().__init__()
        self.worst = {}

    def chk(self, clause, cls, err, tol, what, replay):
        """One oracle clause: err must be <= tol (NaN counts as failure)."""
        err = float(err)
        ratio = err / tol if err == err else float('inf')
        if ratio > self.worst.get(clause, 0.0):
            self.worst[clause] = ratio
        if VERBOSE:
            print('   %-28s residual %.3g  tolerance %.3g  %s' % (clause, err, tol, 'ok' if ratio <= 1 else 'FAIL'))
        if not ratio <= 1.0:
            self.violation('%s:%s' % (clause, cls), what() + ' (residual %.3g > tolerance %.3g)' % (err, tol), replay)
            return False
        return True


def _absorb_worst(ck, worst):
    orig = ck.merge

    def merge(part):
        for k, v in getattr(part, 'worst', {}).items():
            if v > worst.get(k, 0.0):
                worst[k] = v
        orig(part)
    ck.merge = merge


# ---------------------------------------------------------------------------------------------
# A. sweep angles
# ---------------------------------------------------------------------------------------------

def check_direction(p, h, v):
    """All conversion clauses for the direction with V1 angles (h, v)."""
    from cflib.localization.lighthouse_bs_vector import LighthouseBsVector
    cls = dir_class(h, v)
    rp = {'part': 'direction', 'h': h, 'v': v}
    b = LighthouseBsVector(h, v)
    th, tv = ang_tol(h), ang_tol(v)

    def adiff(o):
        return max(abs(o.lh_v1_horiz_angle - h) / th, abs(o.lh_v1_vert_angle - v) / tv)

    pair = b.lh_v1_angle_pair
    if tuple(pair) != (h, v):
        p.violation('v1:pair:' + cls, 'lh_v1_angle_pair of (%r, %r) is %r' % (h, v, pair), rp)

    # reference direction in double precision
    d = np.array([1.0, math.tan(h), math.tan(v)])
    d /= math.sqrt(float(d @ d))

    cart = np.asarray(b.cart)
    c64 = cart.astype(np.float64)
    if VERBOSE:
        print('  cart = %r' % (cart,))
    # unit vector: a float32 normalisation leaves |norm-1| of a few 1e-8 (3 components x 2^-24);
    # 1e-6 is float32 accuracy with a wide margin.
    p.chk('cart:unit_norm', cls, abs(math.sqrt(float(c64 @ c64)) - 1.0), 1e-6,
          lambda: 'cart of V1 (%r, %r) = %r is not a unit vector' % (h, v, cart), rp)
    # direction: each float32 component relative 1e-5 (measured worst 2e-7)
    p.chk('cart:direction', cls, float(np.max(np.abs(c64 - d) / (1e-5 * np.abs(d) + 1e-30))), 1.0,
          lambda: 'cart of V1 (%r, %r) = %r, the direction (1, tan h, tan v)/norm is %r' % (h, v, cart, d), rp)
    # cart -> V1 (the float32 vector itself, a python list, and non-unit multiples)
    def views(o, how):
        # every view of an object is the same direction, however the object was constructed
        oc = np.asarray(o.cart).astype(np.float64)
        p.chk('views:cart_unit_norm:' + how.split('(')[0], cls, abs(math.sqrt(float(oc @ oc)) - 1.0), 1e-6,
              lambda: 'object made by %s for V1 (%r, %r): cart %r is not a unit vector' % (how, h, v, oc), rp)
        p.chk('views:cart_direction:' + how.split('(')[0], cls, float(np.max(np.abs(oc - d) / (1e-5 * np.abs(d) + 1e-30))), 1.0,
              lambda: 'object made by %s for V1 (%r, %r): cart %r, direction is %r' % (how, h, v, oc, d), rp)
        op = np.asarray(o.projection).astype(np.float64)
        rf = np.array([math.tan(h), math.tan(v)])
        p.chk('views:projection:' + how.split('(')[0], cls, float(np.max(np.abs(op - rf) / (1e-5 * np.abs(rf) + 1e-30))), 1.0,
              lambda: 'object made by %s for V1 (%r, %r): projection %r, expected %r' % (how, h, v, op, rf), rp)

    for name, vec in (('f32', cart), ('list', [float(c) for c in cart]), ('x0.1', c64 * 0.1), ('x7.5', c64 * 7.5)):
        o = LighthouseBsVector.from_cart(vec)
        p.chk('cart:roundtrip', cls, adiff(o), 1.0,
              lambda: 'V1 (%r, %r) -> cart -> from_cart(%s) gives (%r, %r)' % (
                  h, v, name, o.lh_v1_horiz_angle, o.lh_v1_vert_angle), rp)
        views(o, 'from_cart(%s)' % name)
    # projection
    proj = np.asarray(b.projection)
    if VERBOSE:
        print('  projection = %r' % (proj,))
    ref = np.array([math.tan(h), math.tan(v)])
    p.chk('proj:value', cls, float(np.max(np.abs(proj.astype(np.float64) - ref) / (1e-5 * np.abs(ref) + 1e-30))), 1.0,
          lambda: 'projection of V1 (%r, %r) = %r, expected (tan h, tan v) = %r' % (h, v, proj, ref), rp)
    for name, vec in (('f32', proj), ('list', [float(c) for c in proj])):
        o = LighthouseBsVector.from_projection(vec)
        p.chk('proj:roundtrip', cls, adiff(o), 1.0,
              lambda: 'V1 (%r, %r) -> projection -> from_projection(%s) gives (%r, %r)' % (
                  h, v, name, o.lh_v1_horiz_angle, o.lh_v1_vert_angle), rp)
        views(o, 'from_projection(%s)' % name)
    # V2 (pure double precision: same relative tolerance is generous)
    a1, a2 = b.lh_v2_angle_1, b.lh_v2_angle_2
    if VERBOSE:
        print('  V2 angles = (%r, %r)' % (a1, a2))
    o = LighthouseBsVector.from_lh2(a1, a2)
    p.chk('v2:roundtrip', cls, adiff(o), 1.0,
          lambda: 'V1 (%r, %r) -> V2 (%r, %r) -> from_lh2 gives (%r, %r)' % (
              h, v, a1, a2, o.lh_v1_horiz_angle, o.lh_v1_vert_angle), rp)
    views(o, 'from_lh2')
    # meaning of the V2 angles: the direction lies in the first light plane (tilt -30 deg, rotor angle
    # a1) and in the second (tilt +30 deg, rotor angle a2). |n.d| is the sine of the angular distance
    # between direction and plane: 1e-9 rad is double precision with a wide margin.
    n1 = v2_plane_normal(a1, -T_TILT)
    n2 = v2_plane_normal(a2, T_TILT)
    p.chk('v2:light_planes', cls, max(abs(float(n1 @ d)), abs(float(n2 @ d))), 1e-9,
          lambda: 'direction of V1 (%r, %r) does not lie in the light planes of its V2 angles (%r, %r): '
                  'n1.d=%.3g n2.d=%.3g' % (h, v, a1, a2, float(n1 @ d), float(n2 @ d)), rp)
    return cls, (a1, a2)


def part_directions(job):
    from cflib.localization.lighthouse_bs_vector import LighthouseBsVector
    from cflib.localization.lighthouse_bs_vector import LighthouseBsVectors
    hs, vs = job
    p = Part()
    for h in hs:
        for v in vs:
            cls, v2 = check_direction(p, h, v)
            smp = None
            if (round(math.degrees(h)), round(math.degrees(v))) in ((-80, 55), (30, -20)) and abs(
                    math.degrees(h) - round(math.degrees(h))) < 1e-9 and abs(
                    math.degrees(v) - round(math.degrees(v))) < 1e-9:
                b = LighthouseBsVector(h, v)
                smp = {'part': 'direction', 'v1_deg': [math.degrees(h), math.degrees(v)],
                       'cart': [float(c) for c in b.cart], 'projection': [float(c) for c in b.projection],
                       'v2_deg': [math.degrees(v2[0]), math.degrees(v2[1])]}
            p.case(key=('dir', h, v), outcome=cls, sample=smp)
        # list helpers: groups of 4 consecutive vertical angles form one LighthouseBsVectors
        for i in range(0, len(vs) - 3, 4):
            grp = vs[i:i + 4]
            lst = LighthouseBsVectors([LighthouseBsVector(h, v) for v in grp])
            rp = {'part': 'list', 'h': h, 'vs': list(grp)}
            al = np.asarray(lst.angle_list(), dtype=float)
            exp = np.array([c for v in grp for c in (h, v)])
            pl = np.asarray(lst.projection_pair_list(), dtype=float)
            expp = np.array([[np.float32(math.tan(h)), np.float32(math.tan(v))] for v in grp], dtype=float)
            p.case(key=('list', h, i), outcome='list')
            if al.shape != (8,) or not np.array_equal(al, exp):
                p.violation('list:angle_list', 'angle_list of 4 vectors h=%r v=%r is %r, expected h,v,h,v,... = %r'
                            % (h, grp, al, exp), rp)
            if pl.shape != (4, 2) or not np.allclose(pl, expp, rtol=1e-6, atol=0):
                p.violation('list:projection_pair_list', 'projection_pair_list of h=%r v=%r is %r, expected %r'
                            % (h, grp, pl, expp), rp)
            # the same list object asked again after its content was changed in place (same length): the helpers
            # describe what the list holds now
            lst[0] = LighthouseBsVector(h, grp[3])
            lst.reverse()
            grp2 = [grp[3], grp[2], grp[1], grp[3]]
            al2 = np.asarray(lst.angle_list(), dtype=float)
            pl2 = np.asarray(lst.projection_pair_list(), dtype=float)
            exp2 = np.array([c for v in grp2 for c in (h, v)])
            expp2 = np.array([[np.float32(math.tan(h)), np.float32(math.tan(v))] for v in grp2], dtype=float)
            p.case(key=('list2', h, i), outcome='list_again')
            if al2.shape != (8,) or not np.array_equal(al2, exp2):
                p.violation('list:angle_list:after_in_place_change', 'angle_list after replacing/reversing elements is %r, '
                            'expected %r' % (al2, exp2), rp)
            if pl2.shape != (4, 2) or not np.allclose(pl2, expp2, rtol=1e-6, atol=0):
                p.violation('list:projection_pair_list:after_in_place_change', 'projection_pair_list after replacing/'
                            'reversing elements is %r, expected %r' % (pl2, expp2), rp)
    return p


# ---------------------------------------------------------------------------------------------
# B. V2 grid
# ---------------------------------------------------------------------------------------------

def check_v2(p, a1, a2):
    from cflib.localization.lighthouse_bs_vector import LighthouseBsVector
    b = LighthouseBsVector.from_lh2(a1, a2)
    h, v = b.lh_v1_horiz_angle, b.lh_v1_vert_angle
    if VERBOSE:
        print('  from_lh2(%r, %r) -> V1 (%r, %r)' % (a1, a2, h, v))
    # independent V1 angles: the ray is the intersection of the two light planes
    x = np.cross(v2_plane_normal(a1, -T_TILT), v2_plane_normal(a2, T_TILT))
    if x[0] < 0:
        x = -x
    if not x[0] > 1e-9:
        return None
    rh, rv = math.atan2(x[1], x[0]), math.atan2(x[2], x[0])
    if abs(rh) > H_MAX + 1e-9 or abs(rv) > V_MAX + 1e-9:
        return None                      # outside the field of view of the statement
    cls = dir_class(a1, a2)
    rp = {'part': 'v2', 'a1': a1, 'a2': a2}
    p.chk('v2:from_lh2_is_plane_intersection', cls, max(abs(h - rh) / ang_tol(rh), abs(v - rv) / ang_tol(rv)), 1.0,
          lambda: 'from_lh2(%r, %r) = V1 (%r, %r); the two light planes intersect in direction V1 (%r, %r)'
                  % (a1, a2, h, v, rh, rv), rp)
    b1, b2 = b.lh_v2_angle_1, b.lh_v2_angle_2
    p.chk('v2:roundtrip_from_v2', cls, max(abs(b1 - a1) / ang_tol(a1), abs(b2 - a2) / ang_tol(a2)), 1.0,
          lambda: 'V2 (%r, %r) -> V1 (%r, %r) -> V2 gives (%r, %r)' % (a1, a2, h, v, b1, b2), rp)
    return cls


def part_v2(job):
    a1s, a2s = job
    p = Part()
    for a1 in a1s:
        for a2 in a2s:
            cls = check_v2(p, a1, a2)
            if cls is None:
                p.add('v2_grid_points_outside_fov')
                continue
            smp = None
            if abs(a1 - math.radians(-40)) < 1e-12 and abs(a2 - math.radians(10)) < 1e-12:
                from cflib.localization.lighthouse_bs_vector import LighthouseBsVector
                b = LighthouseBsVector.from_lh2(a1, a2)
                smp = {'part': 'v2', 'v2_deg': [-40.0, 10.0],
                       'v1_deg': [math.degrees(b.lh_v1_horiz_angle), math.degrees(b.lh_v1_vert_angle)]}
            p.case(key=('v2', a1, a2), outcome=cls, sample=smp)
    return p


# ---------------------------------------------------------------------------------------------
# C. poses
# ---------------------------------------------------------------------------------------------

# Double precision rigid-motion laws: every law is a handful of 3x3 products, the rounding error is
# a few ulps (1e-16) times the magnitudes involved. 1e-9 x (1 + |translations| + |point|) leaves six
# orders of magnitude (measured worst 4e-15) and is far below anything a sign / transpose / order
# error produces on the lattice (>= 1e-9 for the 1e-9 rad rotations combined with unit translations
# is NOT guaranteed, which is why tiny rotations are additionally compared in relative terms in the
# views clause).
POSE_TOL = 1e-9


def _mag(*vs):
    return 1.0 + sum(float(np.max(np.abs(np.asarray(v, dtype=float)))) for v in vs)


def check_views(p, rv, t):
    from cflib.localization.lighthouse_types import Pose
    cls = rot_class(rv)
    rp = {'part': 'views', 'rv': list(rv), 't': list(t)}
    R = rodrigues(rv)
    t_arr = np.array(t, dtype=float)
    P = Pose.from_rot_vec(R_vec=rv, t_vec=t)
    Rm = np.asarray(P.rot_matrix, dtype=float)
    if VERBOSE:
        print('  from_rot_vec(%r).rot_matrix =\n%r' % (rv, Rm))
    p.chk('views:from_rot_vec', cls, np.max(np.abs(Rm - R)), POSE_TOL,
          lambda: 'Pose.from_rot_vec(%r).rot_matrix differs from the Rodrigues matrix' % (rv,), rp)
    # for tiny rotations the off-diagonal part carries the whole rotation: compare it relatively
    th = math.sqrt(sum(c * c for c in rv))
    if 0.0 < th <= 1e-2:
        skew = np.array([Rm[2, 1] - Rm[1, 2], Rm[0, 2] - Rm[2, 0], Rm[1, 0] - Rm[0, 1]]) / 2.0
        ref = np.array([R[2, 1] - R[1, 2], R[0, 2] - R[2, 0], R[1, 0] - R[0, 1]]) / 2.0
        p.chk('views:tiny_rotation_kept', cls, float(np.max(np.abs(skew - ref))) / th, 1e-6,
              lambda: 'Pose.from_rot_vec(%r): antisymmetric part %r, expected %r' % (rv, skew, ref), rp)
    p.chk('views:proper_rotation', cls,
          max(float(np.max(np.abs(Rm @ Rm.T - np.identity(3)))), abs(float(np.linalg.det(Rm)) - 1.0)), POSE_TOL,
          lambda: 'rot_matrix of rotation vector %r is not a proper rotation' % (rv,), rp)
    if not np.array_equal(np.asarray(P.translation, dtype=float), t_arr):
        p.violation('views:translation:' + cls, 'translation %r stored as %r' % (t, P.translation), rp)
    mv = P.matrix_vec
    if not (np.array_equal(mv[0], Rm) and np.array_equal(np.asarray(mv[1], dtype=float), t_arr)):
        p.violation('views:matrix_vec:' + cls, 'matrix_vec differs from rot_matrix/translation for %r' % (rv,), rp)
    # rotation-vector view (sign of a half-turn vector is free: compare through the matrix)
    rvv = np.asarray(P.rot_vec, dtype=float)
    if VERBOSE:
        print('  rot_vec view = %r' % (rvv,))
    p.chk('views:rot_vec', cls, np.max(np.abs(rodrigues(rvv) - R)) if rvv.shape == (3,) else float('nan'), POSE_TOL,
          lambda: 'rot_vec view %r of rotation vector %r is another rotation' % (rvv, rv), rp)
    if 0.0 < th <= 1e-2 and rvv.shape == (3,):
        p.chk('views:rot_vec_tiny_relative', cls, float(np.max(np.abs(rvv - np.array(rv)))) / th, 1e-6,
              lambda: 'rot_vec view %r of tiny rotation vector %r' % (rvv, rv), rp)
    # quaternion view (scalar last, as scipy and the Crazyflie use it)
    q = np.asarray(P.rot_quat, dtype=float)
    if VERBOSE:
        print('  rot_quat view = %r' % (q,))
    ok_shape = q.shape == (4,) and float(q @ q) > 0
    p.chk('views:rot_quat', cls, np.max(np.abs(quat_to_matrix(q) - R)) if ok_shape else float('nan'), POSE_TOL,
          lambda: 'rot_quat view %r of rotation vector %r is another rotation' % (q, rv), rp)
    if ok_shape:
        p.chk('views:rot_quat_unit', cls, abs(math.sqrt(float(q @ q)) - 1.0), POSE_TOL,
              lambda: 'rot_quat view %r is not a unit quaternion' % (q,), rp)
        # independent quaternion of the rotation vector (and its negative) through from_quat
        half = th / 2.0
        s = 0.5 - th * th / 48.0 if th < 1e-4 else math.sin(half) / th
        qref = np.array([rv[0] * s, rv[1] * s, rv[2] * s, math.cos(half)])
        for name, qq in (('q', qref), ('-q', -qref), ('3q', 3.0 * qref)):
            try:
                Pq = Pose.from_quat(R_quat=qq, t_vec=t)
                err = np.max(np.abs(np.asarray(Pq.rot_matrix, dtype=float) - R))
            except Exception as e:  # noqa
                err = float('nan')
                if VERBOSE:
                    print('  from_quat raised %r' % (e,))
            p.chk('views:from_quat', cls, err, POSE_TOL,
                  lambda: 'Pose.from_quat(%s=%r).rot_matrix differs from the rotation of vector %r' % (name, qq, rv), rp)
    # constructor from matrix
    Pm = Pose(R_matrix=R, t_vec=t)
    if not (np.array_equal(Pm.rot_matrix, R) and np.array_equal(np.asarray(Pm.translation, dtype=float), t_arr)):
        p.violation('views:constructor:' + cls, 'Pose(R, t) does not hold R, t for %r' % (rv,), rp)
    return cls


def part_views(job):
    rots, trans = job
    p = Part()
    for rv in rots:
        for t in trans:
            cls = check_views(p, rv, t)
            smp = None
            if t == TRANSLATIONS[4] and rv in (GENERIC_ROTVECS[0], (0.0, 0.0, 1e-9)):
                from cflib.localization.lighthouse_types import Pose
                P = Pose.from_rot_vec(rv, t)
                smp = {'part': 'views', 'rot_vec_in': list(rv), 'rot_vec_view': [float(c) for c in P.rot_vec],
                       'rot_quat_view': [float(c) for c in P.rot_quat], 'class': cls}
            p.case(key=('views', rv, t), outcome=cls, sample=smp)
    return p


def part_defaults(_):
    """The three default ('no rotation') constructors denote the same identity pose."""
    from cflib.localization.lighthouse_types import Pose
    p = Part()
    for name, make in (('Pose()', lambda: Pose()), ('Pose.from_rot_vec()', lambda: Pose.from_rot_vec()),
                       ('Pose.from_quat()', lambda: Pose.from_quat()),
                       ('Pose.from_quat(t_vec=(1,2,3))', lambda: Pose.from_quat(t_vec=(1.0, 2.0, 3.0)))):
        p.case(key=('default', name), outcome='identity')
        try:
            P = make()
            err = float(np.max(np.abs(np.asarray(P.rot_matrix, dtype=float) - np.identity(3))))
            what = '%s has rot_matrix %r' % (name, P.rot_matrix)
        except Exception as e:  # noqa
            err = float('nan')
            what = '%s raised %r' % (name, e)
        if VERBOSE:
            print('  %s -> %s' % (name, what))
        sig = 'views:default_' + ('from_quat' if 'from_quat' in name else 'constructor')
        p.chk(sig, 'identity', err, POSE_TOL,
              lambda: what + '; the default of every constructor is documented as "no rotation" (identity)',
              {'part': 'defaults'})
    return p


def _pose(rv, t):
    from cflib.localization.lighthouse_types import Pose
    return Pose.from_rot_vec(R_vec=rv, t_vec=t)


def check_single(p, rv, t, points):
    """forward / inverse of one pose on points against the homogeneous-matrix reference."""
    cls = rot_class(rv)
    P = _pose(rv, t)
    H = hom(rodrigues(rv), t)
    Hi = np.linalg.inv(H)
    for x in points:
        xa = np.array(x, dtype=float)
        rp = {'part': 'single', 'rv': list(rv), 't': list(t), 'x': list(x)}
        tol = POSE_TOL * _mag(t, x)
        y = np.asarray(P.rotate_translate(xa), dtype=float)
        p.chk('pose:forward_ref', cls, np.max(np.abs(y - (H @ np.append(xa, 1.0))[:3])), tol,
              lambda: 'rotate_translate(%r) of pose rv=%r t=%r gives %r' % (x, rv, t, y), rp)
        z = np.asarray(P.inv_rotate_translate(xa), dtype=float)
        p.chk('pose:inverse_ref', cls, np.max(np.abs(z - (Hi @ np.append(xa, 1.0))[:3])), tol,
              lambda: 'inv_rotate_translate(%r) of pose rv=%r t=%r gives %r' % (x, rv, t, z), rp)
        back = np.asarray(P.inv_rotate_translate(y), dtype=float)
        p.chk('pose:inverse_undoes_forward', cls, np.max(np.abs(back - xa)), tol,
              lambda: 'inv_rotate_translate(rotate_translate(%r)) = %r for pose rv=%r t=%r' % (x, back, rv, t), rp)
        fwd = np.asarray(P.rotate_translate(z), dtype=float)
        p.chk('pose:forward_undoes_inverse', cls, np.max(np.abs(fwd - xa)), tol,
              lambda: 'rotate_translate(inv_rotate_translate(%r)) = %r for pose rv=%r t=%r' % (x, fwd, rv, t), rp)
        # a list as the point (ArrayLike)
        yl = np.asarray(P.rotate_translate(list(x)), dtype=float)
        if not np.array_equal(yl, y):
            p.violation('pose:arraylike_point:' + cls, 'rotate_translate(list) != rotate_translate(array) for %r' % (x,),
                        rp)
    return cls


def _pose_err(A, R, t):
    return max(float(np.max(np.abs(np.asarray(A.rot_matrix, dtype=float) - R))),
               float(np.max(np.abs(np.asarray(A.translation, dtype=float) - t))))


class _Cached:
    """Per-pose data that does not depend on the partner: the cflib Pose and the reference matrices."""
    __slots__ = ('rv', 't', 'pose', 'H', 'Hinv', 'cls', 'snap', 'tmag')

    def __init__(self, rv, t):
        self.rv, self.t = rv, t
        self.pose = _pose(rv, t)
        self.H = hom(rodrigues(rv), t)
        self.Hinv = np.linalg.inv(self.H)
        self.cls = rot_class(rv)
        self.snap = (self.pose.rot_matrix.copy(), self.pose.translation.copy())
        self.tmag = float(np.max(np.abs(np.asarray(t, dtype=float))))

    def unchanged(self):
        return np.array_equal(self.snap[0], self.pose.rot_matrix) and np.array_equal(
            self.snap[1], self.pose.translation)


def check_pair(p, cP, cQ, points):
    rvP, tP, rvQ, tQ = cP.rv, cP.t, cQ.rv, cQ.t
    cls = min(cP.cls, cQ.cls, key=_SPECIAL_ORDER.index)
    rp = {'part': 'pair', 'rvP': list(rvP), 'tP': list(tP), 'rvQ': list(rvQ), 'tQ': list(tQ)}
    P, Q = cP.pose, cQ.pose
    HP, HQ = cP.H, cQ.H
    tol = POSE_TOL * (1.0 + cP.tmag + cQ.tmag)
    desc = 'P=(rv %r, t %r) Q=(rv %r, t %r)' % (rvP, tP, rvQ, tQ)
    C = P.rotate_translate_pose(Q)
    HC = HP @ HQ
    p.chk('pose:compose_ref', cls, _pose_err(C, HC[:3, :3], HC[:3, 3]), tol,
          lambda: 'P.rotate_translate_pose(Q) differs from the matrix product H_P.H_Q for ' + desc, rp)
    D = P.inv_rotate_translate_pose(Q)
    HD = cP.Hinv @ HQ
    p.chk('pose:inverse_compose_ref', cls, _pose_err(D, HD[:3, :3], HD[:3, 3]), tol,
          lambda: 'P.inv_rotate_translate_pose(Q) differs from inv(H_P).H_Q for ' + desc, rp)
    B = P.inv_rotate_translate_pose(C)
    p.chk('pose:inverse_undoes_compose', cls, _pose_err(B, HQ[:3, :3], HQ[:3, 3]), tol,
          lambda: 'P.inv_rotate_translate_pose(P.rotate_translate_pose(Q)) != Q for ' + desc, rp)
    F = P.rotate_translate_pose(D)
    p.chk('pose:compose_undoes_inverse', cls, _pose_err(F, HQ[:3, :3], HQ[:3, 3]), tol,
          lambda: 'P.rotate_translate_pose(P.inv_rotate_translate_pose(Q)) != Q for ' + desc, rp)
    for x in points:
        xa = np.array(x, dtype=float)
        tolx = POSE_TOL * _mag(tP, tQ, x)
        seq = np.asarray(P.rotate_translate(Q.rotate_translate(xa)), dtype=float)
        one = np.asarray(C.rotate_translate(xa), dtype=float)
        p.chk('pose:compose_is_sequential', cls, np.max(np.abs(seq - one)), tolx,
              lambda: '(P o Q)(%r) = %r but P(Q(x)) = %r for ' % (x, one, seq) + desc, rp)
        seqi = np.asarray(Q.inv_rotate_translate(P.inv_rotate_translate(xa)), dtype=float)
        onei = np.asarray(C.inv_rotate_translate(xa), dtype=float)
        p.chk('pose:inverse_of_composition', cls, np.max(np.abs(seqi - onei)), tolx,
              lambda: '(P o Q)^-1(%r) = %r but Q^-1(P^-1(x)) = %r for ' % (x, onei, seqi) + desc, rp)
    if not (cP.unchanged() and cQ.unchanged()):
        p.violation('pose:operand_modified:' + cls, 'composition changed an operand for ' + desc, rp)
    return cls


def part_pairs(job):
    left, poses, points = job
    p = Part()
    cache = {q: _Cached(*q) for q in poses}
    for (rvP, tP) in left:
        cls1 = check_single(p, rvP, tP, POINTS)
        p.case(key=('single', rvP, tP), outcome=cls1)
        for (rvQ, tQ) in poses:
            cls = check_pair(p, cache[(rvP, tP)], cache[(rvQ, tQ)], points)
            smp = None
            if (rvP, tP, rvQ, tQ) == (GENERIC_ROTVECS[3], TRANSLATIONS[4], (0.0, 0.0, PI), TRANSLATIONS[6]):
                C = _pose(rvP, tP).rotate_translate_pose(_pose(rvQ, tQ))
                smp = {'part': 'pair', 'P': [list(rvP), list(tP)], 'Q': [list(rvQ), list(tQ)],
                       'PoQ_rot_vec': [float(c) for c in C.rot_vec],
                       'PoQ_translation': [float(c) for c in C.translation]}
            p.case(key=('pair', rvP, tP, rvQ, tQ), outcome=cls, sample=smp)
    return p


# ---- exact rotations: the 24 rotations of the cube (signed permutation matrices) and exact quaternions -------------------

def cube_rotations():
    import itertools
    out = []
    for perm in itertools.permutations(range(3)):
        for signs in itertools.product((1.0, -1.0), repeat=3):
            M = np.zeros((3, 3))
            for r in range(3):
                M[r, perm[r]] = signs[r]
            if abs(np.linalg.det(M) - 1.0) < 1e-12:
                out.append(M)
    return out


EXACT_QUATS = ((0.0, 0.0, 0.0, 1.0), (1.0, 0.0, 0.0, 0.0), (0.0, 1.0, 0.0, 0.0), (0.0, 0.0, 1.0, 0.0),
               (0.6, 0.8, 0.0, 0.0), (0.0, 0.6, 0.8, 0.0), (0.8, 0.0, -0.6, 0.0), (0.0, 0.0, 0.0, -1.0),
               (0.5, 0.5, 0.5, 0.5), (0.5, -0.5, 0.5, -0.5), (0.0, 2.0, 0.0, 0.0), (0.6, 0.0, 0.0, 0.8),
               (0.6, 0.0, 0.0, -0.8))


def _mat_class(R):
    tr = float(np.trace(R))
    return 'identity' if tr > 3 - 1e-9 else 'half_turn' if abs(tr + 1.0) < 1e-9 else 'generic'


def check_exact(p, how, src, t):
    """Views of a pose given by an exact matrix / quaternion (scalar part exactly zero for half turns)."""
    from cflib.localization.lighthouse_types import Pose
    rp = {'part': 'exact', 'how': how, 'src': np.asarray(src, dtype=float).tolist(), 't': list(t)}
    if how == 'matrix':
        R = np.asarray(src, dtype=float)
        P = Pose(R_matrix=R, t_vec=t)
    elif how == 'product':
        A, B = src
        R = np.asarray(A, dtype=float) @ np.asarray(B, dtype=float)
        P = Pose(R_matrix=A, t_vec=t).rotate_translate_pose(Pose(R_matrix=B))
        rp['src'] = [np.asarray(A).tolist(), np.asarray(B).tolist()]
    else:
        q = np.asarray(src, dtype=float)
        R = quat_to_matrix(q / math.sqrt(float(q @ q)))
        P = Pose.from_quat(R_quat=src, t_vec=t)
    cls = _mat_class(R)
    desc = 'pose from %s %r' % (how, rp['src'])
    Rm = np.asarray(P.rot_matrix, dtype=float)
    p.chk('exact:rot_matrix', cls, np.max(np.abs(Rm - R)), POSE_TOL, lambda: desc + ': rot_matrix %r' % (Rm,), rp)
    try:
        q = np.asarray(P.rot_quat, dtype=float)
        ok = q.shape == (4,) and float(q @ q) > 0
        err = float(np.max(np.abs(quat_to_matrix(q / math.sqrt(float(q @ q))) - R))) if ok else float('nan')
        unit = abs(math.sqrt(float(q @ q)) - 1.0) if ok else float('nan')
    except Exception as e:  # noqa
        q, err, unit = repr(e), float('nan'), float('nan')
    if VERBOSE:
        print('  rot_quat = %r' % (q,))
    p.chk('exact:rot_quat', cls, err, POSE_TOL, lambda: desc + ': rot_quat view %r is not this rotation' % (q,), rp)
    p.chk('exact:rot_quat_unit', cls, unit, POSE_TOL, lambda: desc + ': rot_quat view %r is not a unit quaternion' % (q,), rp)
    try:
        back = Pose.from_quat(R_quat=P.rot_quat, t_vec=t)
        err = float(np.max(np.abs(np.asarray(back.rot_matrix, dtype=float) - R)))
    except Exception as e:  # noqa
        err = float('nan')
        if VERBOSE:
            print('  from_quat(rot_quat) raised %r' % (e,))
    p.chk('exact:quat_round_trip', cls, err, POSE_TOL, lambda: desc + ': Pose.from_quat(pose.rot_quat) is another rotation', rp)
    try:
        rvv = np.asarray(P.rot_vec, dtype=float)
        err = float(np.max(np.abs(rodrigues(rvv) - R))) if rvv.shape == (3,) else float('nan')
    except Exception as e:  # noqa
        rvv, err = repr(e), float('nan')
    p.chk('exact:rot_vec', cls, err, POSE_TOL, lambda: desc + ': rot_vec view %r is another rotation' % (rvv,), rp)
    try:
        back = Pose.from_rot_vec(R_vec=P.rot_vec, t_vec=t)
        err = float(np.max(np.abs(np.asarray(back.rot_matrix, dtype=float) - R)))
    except Exception:  # noqa
        err = float('nan')
    p.chk('exact:rot_vec_round_trip', cls, err, POSE_TOL, lambda: desc + ': Pose.from_rot_vec(pose.rot_vec) is another rotation', rp)
    return cls


def part_exact(_):
    p = Part()
    cube = cube_rotations()
    for t in TRANSLATIONS[:1] + TRANSLATIONS[4:5]:
        for M in cube:
            p.case(key=('exact', 'matrix', M.tobytes(), t), outcome=check_exact(p, 'matrix', M, t))
        for A in cube:
            for B in cube:
                p.case(key=('exact', 'product', A.tobytes(), B.tobytes(), t), outcome=check_exact(p, 'product', (A, B), t))
        for q in EXACT_QUATS:
            p.case(key=('exact', 'quat', q, t), outcome=check_exact(p, 'quat', q, t))
    return p


# ---- histories of operations on one Pose object ----------------------------------------------------------------------------

HIST_OPS = ('fwd', 'inv', 'fwdpose', 'invpose', 'views', 'scale2', 'scale_half', 'copy')
HIST_POSES = (((0.0, 0.0, 0.0), (1.0, 2.0, 3.0)), ((0.3, -1.1, 0.7), (0.4, -1.7, 2.2)), ((0.0, 0.0, PI), (-3.0, 3.0, -3.0)),
              ((0.0, 0.0, 1e-9), (0.0, 0.0, 1.0)))


def check_history(p, rv, t, ops):
    """A sequence of uses of one Pose object (transformations, views, Pose.scale, copy.copy): after every step the object
    still is the rigid motion (R, current t) - inverse undoes forward, both agree with the homogeneous matrix."""
    import copy
    rp = {'part': 'history', 'rv': list(rv), 't': list(t), 'ops': list(ops)}
    cls = rot_class(rv)
    P = _pose(rv, t)
    R = rodrigues(rv)
    tcur = np.array(t, dtype=float)
    other = _pose((0.2, 0.1, -0.4), (0.5, 0.25, -1.0))
    Ho = hom(rodrigues((0.2, 0.1, -0.4)), (0.5, 0.25, -1.0))
    x = np.array((0.3, -0.2, 0.9))
    originals = []
    for step, op in enumerate(ops + ('final',)):
        if op in ('scale2', 'scale_half'):
            if not hasattr(P, 'scale'):
                p.cap('Pose.scale not present')
                continue
            f = 2.0 if op == 'scale2' else 0.5
            P.scale(f)
            tcur = tcur * f
        elif op == 'copy':
            originals.append((P, tcur.copy()))
            P = copy.copy(P)
        elif op == 'views':
            P.rot_vec, P.rot_quat, P.matrix_vec
        H = hom(R, tcur)
        Hi = np.linalg.inv(H)
        tol = POSE_TOL * _mag(tcur, x) * 4
        tag = ':after_' + '+'.join(ops[:step + 1][-2:]) if step < len(ops) else ':final'
        desc = 'pose rv=%r t=%r after %r' % (rv, t, ops[:step + 1])
        for obj, tt, who in [(P, tcur, 'object')] + [(o, ot, 'copied_original') for o, ot in originals]:
            Hx = hom(R, tt)
            Hxi = np.linalg.inv(Hx)
            y = np.asarray(obj.rotate_translate(x), dtype=float)
            z = np.asarray(obj.inv_rotate_translate(x), dtype=float)
            C = obj.rotate_translate_pose(other)
            D = obj.inv_rotate_translate_pose(other)
            HC, HD = Hx @ Ho, Hxi @ Ho
            errs = {
                'forward_ref': np.max(np.abs(y - (Hx @ np.append(x, 1.0))[:3])),
                'inverse_ref': np.max(np.abs(z - (Hxi @ np.append(x, 1.0))[:3])),
                'inverse_undoes_forward': np.max(np.abs(np.asarray(obj.inv_rotate_translate(y), dtype=float) - x)),
                'compose_ref': _pose_err(C, HC[:3, :3], HC[:3, 3]),
                'inverse_compose_ref': _pose_err(D, HD[:3, :3], HD[:3, 3]),
                'inverse_undoes_compose': _pose_err(obj.inv_rotate_translate_pose(C), Ho[:3, :3], Ho[:3, 3]),
                'translation': np.max(np.abs(np.asarray(obj.translation, dtype=float) - tt)),
            }
            for name, err in errs.items():
                p.chk('history:%s:%s' % (who, name), cls + (tag if who == 'object' else ''), err, tol,
                      lambda: '%s (%s): %s off by %r' % (desc, who, name, err), rp)
    return cls


def history_sequences(depth):
    import itertools
    out = []
    for d in range(1, depth + 1):
        out += list(itertools.product(HIST_OPS, repeat=d))
    return out


def part_history(job):
    depth, shard, nsh = job
    p = Part()
    for i, ops in enumerate(history_sequences(depth)):
        if i % nsh != shard:
            continue
        for rv, t in HIST_POSES:
            p.case(key=('history', rv, t, ops), outcome=(check_history(p, rv, t, ops), ops.count('copy') > 0,
                                                         any(o.startswith('scale') for o in ops)))
    return p


def check_triple(p, A, B, C):
    cls = most_special(A[0], B[0], C[0])
    rp = {'part': 'triple', 'poses': [[list(x[0]), list(x[1])] for x in (A, B, C)]}
    PA, PB, PC = _pose(*A), _pose(*B), _pose(*C)
    L = PA.rotate_translate_pose(PB).rotate_translate_pose(PC)
    Rr = PA.rotate_translate_pose(PB.rotate_translate_pose(PC))
    tol = POSE_TOL * _mag(A[1], B[1], C[1])
    p.chk('pose:associative', cls, _pose_err(L, np.asarray(Rr.rot_matrix, dtype=float),
                                             np.asarray(Rr.translation, dtype=float)), tol,
          lambda: '(A o B) o C != A o (B o C) for A=%r B=%r C=%r' % (A, B, C), rp)
    H = hom(rodrigues(A[0]), A[1]) @ hom(rodrigues(B[0]), B[1]) @ hom(rodrigues(C[0]), C[1])
    p.chk('pose:triple_ref', cls, _pose_err(L, H[:3, :3], H[:3, 3]), tol,
          lambda: '(A o B) o C differs from H_A.H_B.H_C for A=%r B=%r C=%r' % (A, B, C), rp)
    return cls


def part_triples(job):
    firsts, subset = job
    p = Part()
    for A in firsts:
        for B in subset:
            for C in subset:
                cls = check_triple(p, A, B, C)
                p.case(key=('triple', A, B, C), outcome=cls)
    return p


# ---------------------------------------------------------------------------------------------
# D. solver projection
# ---------------------------------------------------------------------------------------------

BS_POSITIONS = ((0.0, 0.0, 0.0), (0.4, -1.7, 2.2), (-3.0, 3.0, -3.0))


def front_points(quick):
    """Deck centres in the base-station frame: in front of the station (x > 0), inside the field of view."""
    out = []
    for d in (0.5, 2.0, 6.0):
        for hd in ((-60, 0, 35) if quick else (-60, -20, 0, 35)):
            for vd in ((-40, 25) if quick else (-40, 0, 25)):
                out.append((d, d * math.tan(math.radians(hd)), d * math.tan(math.radians(vd))))
    return out


# The two projection paths are the same double precision arithmetic in a different arrangement
# (Rodrigues on arrays vs. rotation matrices); measured worst difference 1e-15 rad. 1e-9 rad leaves six
# orders of magnitude and is three orders below the sensor-to-sensor angle differences the solver fits.
PROJ_TOL = 1e-9


def types_projection(B, C, sensor):
    """The projection 'defined by these types' (statement): Pose + LighthouseBsVector."""
    from cflib.localization.lighthouse_bs_vector import LighthouseBsVector
    q = B.inv_rotate_translate(C.rotate_translate(sensor))
    return LighthouseBsVector.from_cart(q).lh_v1_angle_pair


def solver_class(brv, crv):
    b, c = rot_class(brv), rot_class(crv)
    if b == 'identity' or c == 'identity':
        return 'zero_rotation_' + ('both' if b == c else ('bs' if b == 'identity' else 'cf'))
    return most_special(brv, crv)


def part_projection(job):
    from cflib.localization.lighthouse_geometry_solver import LighthouseGeometrySolution
    from cflib.localization.lighthouse_geometry_solver import LighthouseGeometrySolver
    from cflib.localization.lighthouse_types import LhDeck4SensorPositions
    bs_rots, cf_rots, quick = job
    p = Part()
    sens = np.array(LhDeck4SensorPositions.positions, dtype=float)
    defs = LighthouseGeometrySolution()
    # "all base-station / Crazyflie pose pairs": also decks beside and behind the station (x <= 0 in its frame), where the
    # sweep angles leave (-90, 90) degrees and only a quadrant-aware arctangent agrees with the types
    fronts = front_points(quick) + [(-2.0, 0.5, 0.3), (-1.0, -1.0, 1.0), (-3.0, 0.2, -0.5)]
    for brv in bs_rots:
        RB = rodrigues(brv)
        bs_rows, cf_rows, idx_bs, idx_cf, idx_s, ref_types, ref_indep, meta = [], [], [], [], [], [], [], []
        for bt in BS_POSITIONS:
            bs_rows.append(np.concatenate((brv, bt)))
            bi = len(bs_rows) - 1
            bta = np.array(bt, dtype=float)
            B = _pose(brv, bt)
            for f in fronts:
                ct = RB @ np.array(f) + bta
                for crv in cf_rots:
                    RC = rodrigues(crv)
                    C = _pose(crv, ct)
                    cf_rows.append(np.concatenate((crv, ct)))
                    ci = len(cf_rows) - 1
                    for si in range(4):
                        idx_bs.append(bi)
                        idx_cf.append(ci)
                        idx_s.append(si)
                        ref_types.append(types_projection(B, C, sens[si]))
                        q = RB.T @ (RC @ sens[si] + ct - bta)
                        ref_indep.append((math.atan2(q[1], q[0]), math.atan2(q[2], q[0])))
                        meta.append((bt, f, crv, si))
        bss, cfs = np.array(bs_rows), np.array(cf_rows)
        snap = (bss.copy(), cfs.copy(), sens.copy())
        idx_bs, idx_cf, idx_s = np.array(idx_bs), np.array(idx_cf), np.array(idx_s)
        ref_types, ref_indep = np.array(ref_types), np.array(ref_indep)
        # the call path the solver uses (index arrays) and the direct one; then row by row for the
        # rows where a rotation is exactly zero (nan_to_num path on its own)
        out_dir = np.asarray(LighthouseGeometrySolver._calc_angle_pairs(bss[idx_bs], cfs[idx_cf], sens[idx_s], defs))
        # the index-array wrapper is a private convenience of the solver: used when it exists
        wrap = getattr(LighthouseGeometrySolver, '_poses_to_angle_pairs', None)
        out_idx = np.asarray(wrap(bss, cfs, sens, idx_bs, idx_cf, idx_s, defs)) if wrap is not None else out_dir
        if not (np.array_equal(snap[0], bss) and np.array_equal(snap[1], cfs) and np.array_equal(snap[2], sens)):
            p.violation('solver:inputs_modified', 'the vectorised projection modified its parameter arrays (bs rot %r)'
                        % (brv,), {'part': 'proj_batch', 'brv': list(brv)})
        if out_idx.shape != ref_types.shape or out_dir.shape != ref_types.shape:
            p.violation('solver:shape', 'angle pair array shape %r / %r, expected %r' % (
                out_idx.shape, out_dir.shape, ref_types.shape), {'part': 'proj_batch', 'brv': list(brv)})
            continue
        with np.errstate(invalid='ignore'):
            e_types = np.max(np.abs(out_idx - ref_types), axis=1)
            e_dir = np.max(np.abs(out_dir - out_idx), axis=1)
            e_ref = np.max(np.abs(ref_types - ref_indep), axis=1)
        e_types = np.where(np.isnan(e_types), np.inf, e_types)
        e_dir = np.where(np.isnan(e_dir), np.inf, e_dir)
        bcls = rot_class(brv)
        for k, (bt, f, crv, si) in enumerate(meta):
            cls = solver_class(brv, crv)
            rp = {'part': 'proj', 'brv': list(brv), 'bt': list(bt), 'front': list(f), 'crv': list(crv), 'sensor': si}
            p.case(key=('proj', brv, bt, f, crv, si), outcome=cls)
            if e_types[k] > PROJ_TOL or e_dir[k] > 0 or e_ref[k] > PROJ_TOL:
                # slow path only for failures: produce precise messages through chk
                p.chk('solver:vs_types', cls, e_types[k], PROJ_TOL,
                      lambda: 'solver projection %r, types projection %r (independent %r) for bs rv=%r t=%r, deck at '
                              '%r in the bs frame, cf rv=%r, sensor %d' % (
                                  out_idx[k], ref_types[k], ref_indep[k], brv, bt, f, crv, si), rp)
                p.chk('solver:indexed_vs_direct', cls, e_dir[k], 1e-300,
                      lambda: '_poses_to_angle_pairs row %r differs from _calc_angle_pairs row %r' % (
                          out_idx[k], out_dir[k]), rp)
                p.chk('solver:types_vs_independent', cls, e_ref[k], PROJ_TOL,
                      lambda: 'types projection %r, independent projection %r for bs rv=%r t=%r cf rv=%r sensor %d'
                              % (ref_types[k], ref_indep[k], brv, bt, crv, si), rp)
        for name, arr in (('solver:vs_types', e_types), ('solver:types_vs_independent', e_ref)):
            r = float(np.max(arr)) / PROJ_TOL
            if r > p.worst.get(name, 0.0):
                p.worst[name] = r
        # single-row calls for rows with an exactly zero rotation (bs or cf)
        zero_rows = [k for k, m in enumerate(meta) if (bcls == 'identity' or rot_class(m[2]) == 'identity')
                     and m[3] in (0, 3)]
        for k in zero_rows:
            bt, f, crv, si = meta[k]
            one = np.asarray(LighthouseGeometrySolver._calc_angle_pairs(
                bss[idx_bs[k]][np.newaxis, :], cfs[idx_cf[k]][np.newaxis, :], sens[si][np.newaxis, :], defs))
            cls = solver_class(brv, crv)
            rp = {'part': 'proj', 'brv': list(brv), 'bt': list(bt), 'front': list(f), 'crv': list(crv), 'sensor': si}
            p.case(key=('proj1', brv, bt, f, crv, si), outcome=cls)
            err = float(np.max(np.abs(one[0] - ref_types[k]))) if one.shape == (1, 2) else float('nan')
            p.chk('solver:single_row_zero_rotation', cls, err, PROJ_TOL,
                  lambda: 'single-row solver projection %r, types projection %r for bs rv=%r cf rv=%r sensor %d' % (
                      one, ref_types[k], brv, crv, si), rp)
        if brv == (0.0, 0.0, 0.0):
            k = 0
            p.sample({'part': 'proj', 'bs_rot_vec': list(brv), 'bs_pos': list(meta[k][0]), 'deck_in_bs_frame':
                      list(meta[k][1]), 'cf_rot_vec': list(meta[k][2]), 'sensor': meta[k][3],
                      'solver_angles': [float(c) for c in out_idx[k]], 'types_angles': [float(c) for c in ref_types[k]]})
    return p


def part_params(job):
    """Pose <-> solver parameter vector: the two representations denote the same pose."""
    from cflib.localization.lighthouse_geometry_solver import LighthouseGeometrySolution
    from cflib.localization.lighthouse_geometry_solver import LighthouseGeometrySolver
    rots, trans = job
    p = Part()
    defs = LighthouseGeometrySolution()
    for rv in rots:
        for t in trans:
            cls = rot_class(rv)
            rp = {'part': 'params', 'rv': list(rv), 't': list(t)}
            P = _pose(rv, t)
            if not (hasattr(LighthouseGeometrySolver, '_pose_to_params') and hasattr(LighthouseGeometrySolver, '_params_to_pose')):
                p.cap('solver parameter <-> pose helpers not found under their names: that part is not judged')
                return p
            par = np.asarray(LighthouseGeometrySolver._pose_to_params(P), dtype=float)
            p.case(key=('params', rv, t), outcome=cls)
            ok = par.shape == (6,)
            R = rodrigues(rv)
            p.chk('params:pose_to_params', cls,
                  max(float(np.max(np.abs(rodrigues(par[:3]) - R))), float(np.max(np.abs(par[3:] - np.array(t)))))
                  if ok else float('nan'), POSE_TOL,
                  lambda: '_pose_to_params of pose rv=%r t=%r is %r' % (rv, t, par), rp)
            if ok:
                P2 = LighthouseGeometrySolver._params_to_pose(par, defs)
                p.chk('params:params_to_pose', cls, _pose_err(P2, R, np.array(t, dtype=float)), POSE_TOL,
                      lambda: '_params_to_pose(_pose_to_params(P)) != P for rv=%r t=%r' % (rv, t), rp)
    return p


# ---------------------------------------------------------------------------------------------
# E. IPPE
# ---------------------------------------------------------------------------------------------

# IPPE is a closed-form (algebraic) solution: on exact double precision projections the true pose is
# returned to ~3e-8 (measured worst, rotation-matrix entries and relative position) whenever the deck
# is not seen edge-on. 1e-5 leaves > 100x. With the float32 projections the types deliver
# (LighthouseBsVectors.projection_pair_list) the 2^-24 relative error of the image points is amplified
# by distance / sensor baseline (6 m / 0.03 m): measured worst 3.2e-5, tolerance 1e-3 (30x).
IPPE_TOL_EXACT = 1e-5
IPPE_TOL_F32 = 1e-3
IPPE_MIN_COS = 0.1      # |deck normal . line of sight| >= 0.1: the deck is at least 5.7 deg away from edge-on
# Knife edge of the IPPE algorithm itself: when a deck axis is exactly perpendicular to the viewing ray one
# singular value of the 2x2 rotation block is exactly 1 and the algorithm takes sqrt(1 - sigma^2) of 0 +- rounding
# (NaN when the rounding is negative; cflib/localization/_ippe.py, not an anchored file and not a conversion). These
# grid points are excluded from the true-pose clause (counted, and NaN results counted, in the evidence); the
# axis-permutation clause below still covers them.
IPPE_KNIFE_EDGE = 1e-6

_M_IPPE_TO_CF = np.array([[0.0, 0.0, 1.0], [-1.0, 0.0, 0.0], [0.0, -1.0, 0.0]])   # cf_x = z_i, cf_y = -x_i, cf_z = -y_i


def _ippe_reference(U_cf, Q_cf):
    """The wrapper's contract written independently: camera (OpenCV) axes are x right, y down, z forward; the
    base-station axes are x forward, y left, z up. Model points and image points are permuted by hand, the
    IPPE core is called, and the poses are permuted back."""
    from cflib.localization._ippe import mat_run
    U_i = np.stack((-U_cf[:, 1], -U_cf[:, 2], U_cf[:, 0]))       # 3 x N
    Q_i = np.stack((-Q_cf[:, 0], -Q_cf[:, 1]))                   # 2 x N (image x = -y_bs, image y = -z_bs)
    s = mat_run(U_i, Q_i)
    out = []
    for k in ('1', '2'):
        R = _M_IPPE_TO_CF @ np.asarray(s['R' + k], dtype=float) @ _M_IPPE_TO_CF.T
        t = _M_IPPE_TO_CF @ np.asarray(s['t' + k], dtype=float).ravel()
        out.append((R, t, float(s['reprojError' + k])))
    return out


def check_ippe(p, f, crv):
    from cflib.localization.ippe_cf import IppeCf
    from cflib.localization.lighthouse_bs_vector import LighthouseBsVector
    from cflib.localization.lighthouse_bs_vector import LighthouseBsVectors
    from cflib.localization.lighthouse_types import LhDeck4SensorPositions
    sens = np.array(LhDeck4SensorPositions.positions, dtype=float)
    RC = rodrigues(crv)
    t = np.array(f, dtype=float)
    los = t / math.sqrt(float(t @ t))
    c = abs(float((RC @ np.array((0.0, 0.0, 1.0))) @ los))
    knife = min(abs(float(RC[:, 0] @ los)), abs(float(RC[:, 1] @ los))) < IPPE_KNIFE_EDGE
    cls = rot_class(crv)
    rp = {'part': 'ippe', 'front': list(f), 'crv': list(crv)}
    pts = (RC @ sens.T).T + t                       # sensors in the base-station (camera) frame
    q_exact = np.stack((pts[:, 1] / pts[:, 0], pts[:, 2] / pts[:, 0]), axis=1)
    vecs = LighthouseBsVectors([LighthouseBsVector(math.atan2(s[1], s[0]), math.atan2(s[2], s[0])) for s in pts])
    q_f32 = np.asarray(vecs.projection_pair_list(), dtype=float)
    status = 'checked'
    if c < IPPE_MIN_COS:
        status = 'edge_on'
    elif knife:
        status = 'knife_edge'
    for name, Q, tol in (('exact', q_exact, IPPE_TOL_EXACT), ('f32_types', q_f32, IPPE_TOL_F32)):
        u_in, q_in = sens.copy(), Q.copy()
        with np.errstate(all='ignore'):
            try:
                sols = IppeCf.solve(u_in, q_in)
            except Exception as e:  # noqa
                sols = e
            try:
                ref = _ippe_reference(sens.copy(), Q.copy())
            except Exception as e:  # noqa
                ref = e
        if not (np.array_equal(u_in, sens) and np.array_equal(q_in, Q)):
            p.violation('ippe:inputs_modified', 'IppeCf.solve changed its input arrays', rp)
        # axis permutation of the wrapper (every grid point, NaN-aware)
        if isinstance(sols, Exception) or isinstance(ref, Exception):
            same = type(sols) is type(ref)
            err = 0.0 if same else float('inf')
        else:
            err = 0.0
            if len(sols) != 2:
                err = float('inf')
            else:
                for s_, (Rr, tr, er) in zip(sols, ref):
                    got = np.concatenate((np.asarray(s_.R, dtype=float).ravel(), np.asarray(s_.t, dtype=float).ravel(),
                                          [float(s_.reproj_err)]))
                    exp = np.concatenate((Rr.ravel(), tr, [er]))
                    if got.shape != exp.shape or not np.array_equal(np.isnan(got), np.isnan(exp)):
                        err = float('inf')
                    else:
                        m = ~np.isnan(exp)
                        if m.any():
                            err = max(err, float(np.max(np.abs(got[m] - exp[m]))) / (1.0 + float(np.max(np.abs(t)))))
        p.chk('ippe:wrapper_axis_permutation_' + name, cls, err, POSE_TOL,
              lambda: 'IppeCf.solve on %s projections of the deck at %r (bs frame), rotation vector %r differs from '
                      'the IPPE core called with hand-permuted axes: %r vs %r' % (name, f, crv, sols, ref), rp)
        if status != 'checked':
            if status == 'knife_edge' and not isinstance(sols, Exception) and any(
                    np.isnan(np.asarray(s_.R, dtype=float)).any() for s_ in sols):
                p.add('ippe_knife_edge_points_where_core_returns_nan')
                if VERBOSE:
                    print('  knife-edge configuration (a deck axis perpendicular to the viewing ray): IPPE core '
                          'returns NaN for %s projections' % name)
            continue
        if isinstance(sols, Exception):
            err = float('nan')
            if VERBOSE:
                print('  IppeCf.solve raised %r' % (sols,))
        else:
            errs = [max(float(np.max(np.abs(np.asarray(s_.R, dtype=float) - RC))),
                        float(np.max(np.abs(np.asarray(s_.t, dtype=float).ravel() - t))) / math.sqrt(float(t @ t)))
                    for s_ in sols]
            err = min(errs)
            if VERBOSE:
                print('  IppeCf.solve(%s): pose errors of the solutions %r' % (name, errs))
        p.chk('ippe:true_pose_among_solutions_' + name, cls, err, tol,
              lambda: 'IppeCf.solve on %s projections of the deck at %r (bs frame) with rotation vector %r: no '
                      'returned pose matches the true one' % (name, f, crv), rp)
    return cls, status


def part_ippe(job):
    fronts, rots = job
    p = Part()
    for f in fronts:
        for crv in rots:
            cls, status = check_ippe(p, f, crv)
            if status != 'checked':
                p.add('ippe_grid_points_%s_permutation_clause_only' % status)
                p.case(key=('ippe', f, crv), outcome=(cls, status))
                continue
            smp = None
            if crv == GENERIC_ROTVECS[0] and f == fronts[0]:
                smp = {'part': 'ippe', 'deck_in_bs_frame': list(f), 'cf_rot_vec': list(crv),
                       'result': 'true pose among the 2 IPPE solutions (exact and float32 projections)'}
            p.case(key=('ippe', f, crv), outcome=cls, sample=smp)
    return p


# ---------------------------------------------------------------------------------------------

def _dispatch(job):
    name, arg = job
    return globals()['part_' + name](arg)


def _chunks(seq, n):
    seq = list(seq)
    n = max(1, min(n, len(seq)))
    return [seq[i::n] for i in range(n) if seq[i::n]]


def _triple_subset(poses):
    """A fixed 20-pose (quick) sub-set that contains every rotation class with mixed translations."""
    want = ['identity', 'quarter', 'half', 'tiny', 'near_pi', 'generic']
    out = []
    for k, cls in enumerate(want):
        members = [q for q in poses if rot_class(q[0]) == cls]
        take = 2 if cls in ('identity',) else 3
        if cls == 'generic':
            take = 6
        step = max(1, len(members) // take)
        out += [members[(i * step + 3 * i + k) % len(members)] for i in range(take)]
    seen, res = set(), []
    for q in out:
        if q not in seen:
            seen.add(q)
            res.append(q)
    return res


def run(ck):
    quick = ck.quick
    hs = angle_axis(80, 5 if quick else 1)
    vs = angle_axis(55, 5 if quick else 1)
    a12 = angle_axis(70, 5 if quick else 2)
    rots = rotation_set(not quick)
    poses = [(rv, t) for rv in rots for t in TRANSLATIONS]
    subset = _triple_subset([(rv, t) for rv in rotation_set(False) for t in TRANSLATIONS])
    if not quick:
        # deepen: the quick sub-set plus every 9th pose of the thorough lattice
        extra = [q for q in poses[::9] if q not in subset]
        subset = subset + extra[:28]
    pair_points = POINTS[4:5] if quick else POINTS[3:6]
    fronts = front_points(quick)
    ck.rule = ('complete enumeration of stated finite grids on the real conversion code: (A) V1 angle grid %d x %d '
               '(h -80..80 deg, v -55..55 deg, step %d deg, plus 0, +-1e-9, +-1e-6, +-1e-3 rad); (B) V2 grid %d x %d '
               'restricted to the field of view; (C) %d rotations x %d translations = %d poses: views per pose, '
               'forward/inverse on %d points, ALL %d ordered pose pairs, all triples of a %d-pose sub-set; (D) solver '
               'projection for %d bs rotations x %d bs positions x %d deck positions x %d cf rotations x 4 sensors; '
               '(E) IPPE for %d deck positions x %d rotations; (F) views of the 24 exact cube rotations, their 576 products and '
               'exact quaternions with zero scalar part; (G) every sequence of up to 3 (thorough 4) uses of one Pose object '
               'out of {forward, inverse, compose, inverse-compose, views, scale x2, scale x0.5, copy.copy}, laws '
               're-checked after every step. distinct = distinct grid points per part'
               % (len(hs), len(vs), 5 if quick else 1, len(a12), len(a12), len(rots), len(TRANSLATIONS), len(poses),
                  len(POINTS), len(poses) ** 2, len(subset), len(rots), len(BS_POSITIONS), len(fronts), len(rots),
                  len(fronts), len(rots)))
    ck.assume('the claim is over the stated finite grid/lattice only (continuous domain): nothing off the grid is '
              'claimed')
    ck.assume('references are written in the check with numpy/math only (Rodrigues formula, homogeneous 4x4 matrices '
              'and numpy.linalg.inv, atan2, light-plane normals for the V2 angles); scipy Rotation is not used by the '
              'oracle')
    ck.assume('V2 convention: first sweep plane tilted -30 deg, second +30 deg about the forward axis, rotor angle '
              'about the vertical axis (as documented in the class and used by the Crazyflie firmware)')
    ck.assume('tolerances: float32 paths 1e-5 rad (relative below 1 rad, +1e-12), double precision laws 1e-9 x '
              'magnitude, IPPE 1e-5 (exact projections) / 1e-3 (float32 projections), deck at least 5.7 deg from '
              'edge-on for IPPE')
    worst = {}
    _absorb_worst(ck, worst)
    jobs = [('directions', (c, vs)) for c in _chunks(hs, 16)]
    jobs += [('v2', (c, a12)) for c in _chunks(a12, 8)]
    jobs += [('views', (c, TRANSLATIONS)) for c in _chunks(rots, 8)]
    jobs += [('defaults', None), ('exact', None)]
    hdepth = 3 if quick else 4
    jobs += [('history', (hdepth, c, 8)) for c in range(8)]
    ck.note('pose_histories', {'operations': list(HIST_OPS), 'depth': hdepth, 'sequences': len(history_sequences(hdepth)),
                               'poses': len(HIST_POSES)})
    ck.note('exact_rotations', {'cube_group_matrices': 24, 'matrix_products': 576, 'quaternions': len(EXACT_QUATS)})
    jobs += [('params', (c, TRANSLATIONS)) for c in _chunks(rots, 4)]
    jobs += [('pairs', (c, poses, pair_points)) for c in _chunks(poses, 32 if quick else 64)]
    jobs += [('triples', (c, subset)) for c in _chunks(subset, 16)]
    jobs += [('projection', (c, rots, quick)) for c in _chunks(rots, 48 if quick else 96)]
    jobs += [('ippe', (fronts, c)) for c in _chunks(rots, 8)]
    ck.pmap(_dispatch, jobs)
    ck.exhaustive = True
    ck.note('worst_residual_over_tolerance_per_clause', {k: float('%.3g' % v) for k, v in sorted(worst.items())})
    ck.note('grid_sizes', {'h': len(hs), 'v': len(vs), 'v2_axis': len(a12), 'rotations': len(rots),
                           'translations': len(TRANSLATIONS), 'poses': len(poses), 'triple_subset': len(subset),
                           'deck_positions': len(fronts)})


def replay(ck, data):
    global VERBOSE
    VERBOSE = True
    p = Part()
    part = data.get('part')
    tup = lambda k: tuple(float(c) for c in data[k])  # noqa
    print('replaying %r' % (data,))
    if part == 'direction':
        check_direction(p, float(data['h']), float(data['v']))
    elif part == 'v2':
        check_v2(p, float(data['a1']), float(data['a2']))
    elif part == 'views':
        check_views(p, tup('rv'), tup('t'))
    elif part == 'defaults':
        p = part_defaults(None)
    elif part == 'exact':
        src = data['src']
        if data['how'] == 'product':
            src = (np.array(src[0]), np.array(src[1]))
        elif data['how'] == 'matrix':
            src = np.array(src)
        else:
            src = tuple(src)
        check_exact(p, data['how'], src, tup('t'))
    elif part == 'history':
        check_history(p, tup('rv'), tup('t'), tuple(data['ops']))
    elif part == 'single':
        check_single(p, tup('rv'), tup('t'), [tup('x')])
    elif part == 'pair':
        check_pair(p, _Cached(tup('rvP'), tup('tP')), _Cached(tup('rvQ'), tup('tQ')), POINTS)
    elif part == 'triple':
        A, B, C = [(tuple(float(c) for c in x[0]), tuple(float(c) for c in x[1])) for x in data['poses']]
        check_triple(p, A, B, C)
    elif part == 'proj':
        from cflib.localization.lighthouse_geometry_solver import LighthouseGeometrySolution
        from cflib.localization.lighthouse_geometry_solver import LighthouseGeometrySolver
        from cflib.localization.lighthouse_types import LhDeck4SensorPositions
        brv, bt, f, crv, si = tup('brv'), tup('bt'), tup('front'), tup('crv'), int(data['sensor'])
        sens = np.array(LhDeck4SensorPositions.positions, dtype=float)
        ct = rodrigues(brv) @ np.array(f) + np.array(bt)
        one = LighthouseGeometrySolver._calc_angle_pairs(
            np.concatenate((brv, bt))[np.newaxis, :], np.concatenate((crv, ct))[np.newaxis, :],
            sens[si][np.newaxis, :], LighthouseGeometrySolution())
        ref = types_projection(_pose(brv, bt), _pose(crv, ct), sens[si])
        print('  solver _calc_angle_pairs -> %r ; types projection -> %r' % (one, ref))
        p.chk('solver:vs_types', solver_class(brv, crv),
              np.max(np.abs(np.asarray(one)[0] - np.array(ref))), PROJ_TOL, lambda: 'solver %r types %r' % (one, ref),
              data)
    elif part == 'ippe':
        check_ippe(p, tup('front'), tup('crv'))
    elif part == 'params':
        p = part_params(([tup('rv')], [tup('t')]))
    else:
        print('replay of part %r: re-run the check' % (part,))
    ck.merge(p)
