"""C01 - radio link: exactly-once / in-order delivery, link error, safelink (explicit-state BFS).

The REAL ``_RadioDriverThread.run()`` (cflib/crtp/radiodriver.py) is called synchronously on the
calling thread.  Everything it touches is constructor-injected:

* radio      = a REAL ``cflib.drivers.crazyradio.Crazyradio`` object (made with ``object.__new__``,
               so no USB enumeration) whose ``handle`` is a scripted USB endpoint.  The real
               ``Crazyradio.send_packet`` therefore builds the real ``_radio_ack`` from the status
               byte + payload the fake endpoint returns.  ``handle.read`` is the per-transmission
               choice point.
* out queue  = a ``queue.Queue(1)`` subclass whose ``get`` is the per-loop choice point "the
               application has submitted the next packet / has not".  A submission goes through
               the REAL ``RadioDriver.send_packet`` into the bounded queue.
* in queue   = a real ``queue.Queue`` drained through the REAL ``RadioDriver.receive_packet``.
* ``time``   = a virtual clock rebound into radiodriver and radio_link_statistics.

A state is a choice history; ``_build(cfg, history)`` re-runs the real code from scratch and stops
(private BaseException) at the first choice point after the history is exhausted.  The canonical
state at that point = attributes set by ``_RadioDriverThread.__init__`` + locals of the live
``run`` frame + peer model + monitor counters (ids modulo 4).  BFS with de-duplication until the
frontier is empty (fixpoint) or a depth cap.

Peer model (written here, independent of the driver): the firmware side of "safelink" as
implemented in the Crazyflie nRF51 ``esb.c``.  Polarity / initial values were derived from the
driver's half of the protocol:
  - after the echo of ``ff 05 01`` the driver sets (_curr_up, _curr_down) = (0, 0) and stamps
    bit3 = _curr_up, bit2 = _curr_down into every frame.  For the very first frame to count as
    *new* in both directions the peer must therefore hold (up, down) = (1, 1) after a safelink
    request (esb.c: "curr_down = 1; curr_up = 1;").
  - uplink: a frame is new iff its bit3 differs from the peer's ``up``; the peer then sets
    ``up`` to that bit.  A frame with the same bit3 is a retransmission: acked again, not delivered.
  - downlink: the peer moves on to its next payload iff the frame's bit2 differs from the peer's
    ``down`` (the host flips its bit2 only after it has taken the previous payload), sets
    ``down`` to that bit and stamps it into bit2 of the payload it sends - which is exactly what
    ``_send_packet_safe`` tests with ``(resp.data[0] & 0x04) == (self._curr_down << 2)``.
    Otherwise it re-sends the payload it sent last time.  With nothing queued it sends the null
    packet ``f3|down<<2, 01, rssi`` (esb.c RSSI_ACK_PACKET); a zero-length ack payload is offered as
    an extra environment choice (firmware built without RSSI_ACK_PACKET / legacy peers).

Oracle (checked at every choice point, i.e. whenever the driver is quiescent, and at every event):
  uplink:*    (safelink confirmed) every frame the peer accepts as new is the next submitted packet
              (duplicate / gap / corrupt), and the loop never asks for the next packet while a submitted
              one has not been accepted (lost).
  downlink:*  (safelink confirmed) non-null packets out of RadioDriver.receive_packet are the peer's
              downlink packets, once each, in order; the peer never moves on while one is missing.
  linkerr:*   link_error_callback fires exactly when the run of consecutive unacknowledged main-loop
              transmissions reaches N (restarting at every ack), once per such run; a history ends after the second
              reported run, or one transmission after a reported run goes on.
  safelink:*  _has_safelink and (not link.needs_resending) hold iff a probe returned exactly ff 05 01.
  hdr:*       safelink on: header bits 3/2 of each frame = thread's (_curr_up, _curr_down) and the rest of
              the frame is the packet in hand; safelink off: the frame is the packet verbatim.
  crash:*     run() must not die with an exception / return.
  handoff:*   RadioDriver.send_packet returns True iff the bounded queue took the packet, otherwise False
              with exactly one link error; FIFO order on both queues; receive_packet returns None when empty.
Not demanded: anything after the radio object raises or returns None; delivery when safelink was not
confirmed (the driver announces needs_resending=True); start-up probes do not count towards N; null
packets (header & 0xf3 == 0xf3) are handed to the application by the driver and are ignored here;
contents of RadioLinkStatistics; the waitTime/emptyCtr relaxation (recorded in the outcome only).
"""
import array
import dis
import hashlib
import multiprocessing
import os
import queue
import sys
import threading

from vf.core import HarnessError
from vf.core import Partial

ID = 'C01'
LEVEL = 'model_checking'

ECHO = (0xff, 0x05, 0x01)
RSSI = 0x2c
# start-up replies of a peer that does NOT implement safelink (or near misses of the echo)
OTHER = [(), (0xf7, 0x01, RSSI), (0xff, 0x05, 0x00), (0xff, 0x05), (0xff, 0x05, 0x01, 0x00),
         (0xf3, 0x05, 0x01), (0x5d, 0x01)]
# choice codes -------------------------------------------------------------------------------
S_LOST, S_ACKLOST, S_ECHO, S_OTHER0 = 0, 1, 2, 3            # start-up attempt
T_LOST = 0                                                   # main-loop transmission
T_ACK, T_ACK_DATA, T_ACK_EMPTY = 1, 2, 3                     # delivered + acked (null/retx, data, empty)
T_KLOST, T_KLOST_DATA, T_KLOST_EMPTY = 4, 5, 6               # delivered, ack lost
A_NONE, A_SUBMIT = 0, 1                                      # application at out_queue.get

S_NAMES = {S_LOST: 'probe lost', S_ACKLOST: 'probe delivered, ack lost', S_ECHO: 'probe echoed'}
T_NAMES = {T_LOST: 'uplink lost', T_ACK: 'delivered+acked (null ack / resent payload)',
           T_ACK_DATA: 'delivered+acked, new downlink data', T_ACK_EMPTY: 'delivered+acked, zero-length ack',
           T_KLOST: 'delivered, ack lost (null ack / resent payload)',
           T_KLOST_DATA: 'delivered, ack lost (new downlink data)',
           T_KLOST_EMPTY: 'delivered, ack lost (zero-length ack)'}
A_NAMES = {A_NONE: 'app idle', A_SUBMIT: 'app submits next packet'}


MAX_OUTAGES = 2


class _Stop(BaseException):
    """Unwinds the real run() when the scripted history is exhausted."""


class _Fatal(BaseException):
    """Harness inconsistency detected below run(); BaseException so that run()'s own
    ``except Exception`` cannot swallow it.  Re-raised as HarnessError by _build."""


class _VClock:
    """Stands in for the ``time`` module inside radiodriver / radio_link_statistics."""

    def __init__(self):
        self.now = 1000.0
        self.sleeps = []

    def time(self):
        return self.now

    monotonic = time

    def sleep(self, d):
        self.sleeps.append(d)
        self.now += d


def _up_packet(i):
    """Application packet number i (contents depend on i mod 4): (port, channel, data)."""
    i &= 3
    if i == 2:
        return (3, 2, ())             # a header-only packet (legal: zero data bytes)
    return (1 + i, i, (0xa0 + i, i))


def _down_packet(j):
    j &= 3
    if j == 2:
        return (15, 3, (0xd2, 0x02, 0x55))     # a real packet on port 15 channel 3 (the header of a null packet, with data)
    return (3 + j, (j + 1) & 3, (0xd0 + j, j, 0x55))


class _UsbHandle:
    """Scripted USB endpoint of the dongle: write() = frame goes on air, read() = status+ack."""

    def __init__(self, world):
        self.w = world
        self.frame = None

    def write(self, endpoint=None, data=None, timeout=None):
        self.frame = tuple(int(x) for x in data)

    def read(self, endpoint, size, timeout=None):
        frame, self.frame = self.frame, None
        if frame is None:
            raise _Fatal('read without write')
        try:
            acked, payload = self.w.transmit(frame)
        except Exception as e:  # noqa - a bug in the harness must not be eaten by run()'s except Exception
            import traceback
            raise _Fatal('harness bug in transmit: %r\n%s' % (e, traceback.format_exc()))
        # status byte of the dongle: bit0 = ack received, bit1 = power detector, bits 4-7 = retransmissions it made.
        # Both spellings of "no ack" occur (0x00, and the retry count alone once the dongle's own retries are used up);
        # which one is tied to the environment choice so that the state space does not grow.
        lost_only = self.w.last_tx_choice == T_LOST
        if not acked:
            return array.array('B', [0x30 if lost_only else 0x00])
        st = {T_ACK: 0x01, T_ACK_DATA: 0x11, T_ACK_EMPTY: 0x03}.get(self.w.last_tx_choice, 0x01)
        return array.array('B', [st] + list(payload))


class _OutQueue(queue.Queue):
    """Real bounded queue; get() is the application choice point; a blocking put on a full queue
    times out at once (virtual 2 s)."""

    def __init__(self, world):
        queue.Queue.__init__(self, 1)
        self.w = world

    def put(self, item, block=True, timeout=None):
        return queue.Queue.put(self, item, False)

    def get(self, block=True, timeout=None):
        self.w.app_point(block, timeout)
        return queue.Queue.get(self, False)


def _canon(o, depth=0):
    if o is None or isinstance(o, (bool, int, float, str, bytes)):
        return o
    if isinstance(o, (array.array, bytearray, tuple, list)):
        return tuple(_canon(x, depth + 1) for x in o)
    if isinstance(o, queue.Queue):
        return ('queue', tuple(_canon(x, depth + 1) for x in o.queue))
    n = type(o).__name__
    if n == 'CRTPPacket':
        return ('pk', o.header, o.port, o.channel, tuple(o.data))
    if n == '_radio_ack':
        return ('ack', o.ack, o.powerDet, o.retry, tuple(o.data))
    if n == 'RadioDriver':
        return ('link', o.needs_resending)
    if n in ('Crazyradio', 'RadioLinkStatistics', 'method', 'function', '_VClock'):
        return n
    if isinstance(o, threading.Event):
        return ('event', o.is_set())
    if n in ('lock', 'RLock', '_RLock', 'Condition', 'Semaphore', 'BoundedSemaphore'):
        return (n, o.locked() if hasattr(o, 'locked') else None)
    if isinstance(o, (set, frozenset)):
        return ('set', tuple(sorted(repr(_canon(x, depth + 1)) for x in o)))
    if isinstance(o, dict):
        return ('dict', tuple(sorted((repr(_canon(k, depth + 1)), _canon(v, depth + 1)) for k, v in o.items())))
    if depth > 4:
        raise _Fatal('cannot canonicalise %r' % (o,))
    fields = {}
    if hasattr(o, '__dict__'):
        fields.update(vars(o))
    for klass in type(o).__mro__:
        for nm in getattr(klass, '__slots__', ()) or ():
            if isinstance(nm, str) and hasattr(o, nm):
                fields[nm] = getattr(o, nm)
    if not fields and not hasattr(o, '__dict__'):
        OPAQUE.add(n)
        return ('opaque', n)
    return (n, tuple(sorted((k, _canon(v, depth + 1)) for k, v in fields.items())))


OPAQUE = set()      # types whose state could not be read (reported as a cap: the state abstraction is then coarser)


_PLAIN_THREAD_ATTRS = None
_RUN_INFO = None


def _run_info():
    """code object of run() and the locals that are provably dead once the while loop is entered
    (every LOAD of the name sits on a source line before the first read of self._sp)."""
    global _RUN_INFO
    if _RUN_INFO is None:
        from cflib.crtp import radiodriver
        code = radiodriver._RadioDriverThread.run.__code__
        ins = list(dis.get_instructions(code))
        line = None
        loop_line = None
        loads = {}
        for i in ins:
            if i.starts_line:
                line = i.starts_line if not isinstance(i.starts_line, bool) else i.positions.lineno
            if i.opname == 'LOAD_ATTR' and i.argval == '_sp' and loop_line is None:
                loop_line = line
            if i.opname.startswith('LOAD_FAST') and isinstance(i.argval, str):
                loads.setdefault(i.argval, []).append(line)
            elif i.opname.startswith('LOAD_FAST') and isinstance(i.argval, tuple):
                for nm in i.argval:
                    loads.setdefault(nm, []).append(line)
        # the main loop = the loop whose back edge comes last in the code; its head is where "after start-up" begins
        # (independent of how the stop flag is spelled)
        off_line = {}
        line = None
        for i in ins:
            if i.starts_line:
                line = i.starts_line if not isinstance(i.starts_line, bool) else i.positions.lineno
            off_line[i.offset] = line
        back = [i for i in ins if 'JUMP_BACKWARD' in i.opname and isinstance(i.argval, int) and i.argval in off_line]
        if back:
            head = min(off_line[i.argval] for i in back if i.offset == max(b.offset for b in back))
            loop_line = head if loop_line is None else min(loop_line, head)
        dead = set()
        if loop_line is not None:
            for nm in ('resp', '_'):
                if all(ln is not None and ln < loop_line for ln in loads.get(nm, [])):
                    dead.add(nm)
        _RUN_INFO = (code, frozenset(dead))
    return _RUN_INFO


def _uses_safelink(thread, link):
    """Whether the driver is in safelink mode.  The flag lives in a private attribute of the thread in the
    current code; if a refactoring moves it, fall back to the public consequence (needs_resending False)."""
    if hasattr(thread, '_has_safelink'):
        return bool(thread._has_safelink)
    for obj in (link, thread):
        for nm in ('has_safelink', '_has_safelink', 'safelink'):
            if hasattr(obj, nm):
                return bool(getattr(obj, nm))
    return not link.needs_resending


# ---------------------------------------------------------------------------------------------
# pause / restart histories on one RadioDriver (safelink must be re-negotiated by every radio thread)
# ---------------------------------------------------------------------------------------------
class _Ack:
    def __init__(self, ack, data=()):
        self.ack = ack
        self.data = tuple(data)
        self.retry = 0
        self.powerDet = False


class _ScriptRadio:
    """Start-up: echoes the safelink request at probe number `echo_at` (None: never; other probes are lost).
    Main loop: every transmission is delivered and acknowledged with a null packet carrying the right bits."""

    def __init__(self, echo_at, n_main):
        self.echo_at = echo_at
        self.n_main = n_main
        self.probes = 0
        self.frames = []
        self.peer_sl = False
        self.down = 1
        self.thread = None

    def send_packet(self, data):
        data = tuple(data)
        if data == (0xff, 0x05, 0x01):
            self.probes += 1
            if self.echo_at is not None and self.probes == self.echo_at:
                self.peer_sl = True
                self.down = 1
                return _Ack(True, (0xff, 0x05, 0x01))
            return _Ack(False)
        self.frames.append(data)
        if len(self.frames) == self.n_main and self.thread is not None:
            # pause(): the driver stops its thread the way RadioDriver does (stop() = flag + join; the join is a no-op here
            # because the loop runs on the calling thread), so whatever the loop does when it is asked to stop happens
            try:
                self.thread.join = lambda *a, **k: None
                self.thread.stop()
            except Exception:  # noqa
                if hasattr(self.thread, '_sp'):
                    self.thread._sp = True
        if len(self.frames) > self.n_main + 2:
            raise _Stop()
        if self.peer_sl:
            b2 = (data[0] >> 2) & 1
            if b2 != self.down:
                self.down = b2
            return _Ack(True, (0xf3 | (self.down << 2), 0x01, 0x20))
        return _Ack(True, (0xf7, 0x01, 0x20))


def part_restart(_):
    import queue as _q
    from cflib.crtp import radiodriver as rd
    p = Partial()
    clock = _VClock()
    rd.time = clock
    kinds = (1, 3, 10, None)
    for first in kinds:
        for second in kinds:
            for third in kinds:
                link = rd.RadioDriver()
                link.in_queue = _q.Queue()
                link.out_queue = _q.Queue(1)
                errs = []
                obs = []
                for run_no, echo_at in enumerate((first, second, third)):
                    radio = _ScriptRadio(echo_at, 4)
                    t = rd._RadioDriverThread(radio, link.in_queue, link.out_queue, None, errs.append, link, None)
                    radio.thread = t
                    try:
                        t.run()
                    except _Stop:
                        pass
                    hdrs = [f[0] for f in radio.frames]
                    toggles = len(set((h >> 3) & 1 for h in hdrs)) > 1 or any((h & 0x0c) != 0x0c for h in hdrs)
                    obs.append((echo_at is not None, not link.needs_resending, toggles))
                    while not link.in_queue.empty():
                        link.in_queue.get()
                p.case(key=('restart', first, second, third), outcome=tuple(obs),
                       sample={'part': 'pause/restart', 'echo_at_per_thread': [first, second, third],
                               'per_thread (confirmed, reliable, header bits used)': obs} if (first, second, third) in ((1, None, 1), (None, 3, None)) else None)
                p.states += 3
                p.transitions += 12
                for run_no, (conf, reliable, toggles) in enumerate(obs):
                    if reliable != conf or toggles != conf:
                        hist = 'confirmed' if obs[run_no - 1][0] else 'unconfirmed'
                        p.violation('restart:safelink_%s_although_%s:previous_thread_%s' % (
                            'used' if (reliable or toggles) else 'not_used', 'confirmed' if conf else 'not_confirmed',
                            hist if run_no else 'none'),
                            'radio thread %d on one RadioDriver (echo at probes %r): peer %s safelink in this start-up but '
                            'needs_resending=%r and sequence bits %s' % (run_no + 1, (first, second, third),
                                                                         'confirmed' if conf else 'did not confirm', not reliable,
                                                                         'toggle' if toggles else 'stay 1/1'),
                            {'part': 'restart', 'echo': [first, second, third]})
                        break
    return p


class _World:
    """Environment (radio channel + peer firmware + application) and the property monitor."""

    def __init__(self, cfg, hist, verbose=False):
        self.N, self.rate, self.empty_sl = cfg
        self.hist = tuple(hist)
        self.pos = 0
        self.verbose = verbose
        self.trace = []
        self.pending = None
        self.state = None
        self.viol = []              # (pos, sig, what)
        self.events = []            # observation classes of the last step
        # peer (firmware) model
        self.p_sl = 0
        self.p_up = 1
        self.p_down = 1
        self.p_last = ()
        self.p_last_data = False
        # monitor counters (absolute; canonical state uses them modulo 4 / as differences)
        self.sub = 0                # packets accepted by RadioDriver.send_packet
        self.acc = 0                # application packets accepted by the peer
        self.dl_sent = 0            # downlink data packets the peer has started to send
        self.rx = 0                 # downlink data packets out of receive_packet
        self.nulls_rx = 0
        self.run_unacked = 0
        self.outages = 0            # times a run of unacknowledged transmissions reached exactly N
        self.errs = []
        self.echoed = False
        self.probes = 0
        self.main = False           # a main-loop choice point has been seen
        self.expect = (0xff,)       # frame the driver should be (re)transmitting
        self.ntx = 0
        self.last_tx_choice = None
        self.prequeued = None       # frame of a packet the application submitted while a transmission was in the air
        self.get_timeouts = []
        self.stats_cb = 0
        self.thread = None
        self.link = None
        self.clock = None

    # ---- plumbing -----------------------------------------------------------------------------
    def log(self, s):
        if self.verbose:
            self.trace.append(s)

    def bad(self, sig, what):
        self.viol.append((self.pos, sig, what))
        self.log('   !! %s: %s' % (sig, what))

    def choose(self, kind, options):
        if self.pos >= len(self.hist):
            self.pending = (kind, tuple(options))
            self.state = self.capture(kind, options)
            raise _Stop()
        c = self.hist[self.pos]
        if c not in options:
            raise _Fatal('history %r: choice %r at %d not in %r (%s)' % (self.hist, c, self.pos, options, kind))
        self.pos += 1
        self.events = []
        return c

    def capture(self, kind, options):
        global _PLAIN_THREAD_ATTRS
        code, dead = _run_info()
        f = sys._getframe()
        while f is not None and f.f_code is not code:
            f = f.f_back
        if f is None:
            raise _Fatal('run() frame not found on the stack')
        loc = dict(f.f_locals)
        loc.pop('self', None)
        if self.main:
            for nm in dead:
                loc.pop(nm, None)
        if _PLAIN_THREAD_ATTRS is None:
            _PLAIN_THREAD_ATTRS = frozenset(vars(threading.Thread()))
        attrs = {k: v for k, v in vars(self.thread).items() if k not in _PLAIN_THREAD_ATTRS}
        peer = (self.p_sl, self.p_up, self.p_down, self.p_last, self.p_last_data)
        # without a confirmed safelink nothing is claimed about delivery: only the ids (mod 4) that
        # determine future packet contents are state, not the (unbounded) backlog differences
        track = self.echoed
        mon = (self.sub & 3, self.acc & 3 if track else 0, self.sub - self.acc if track else 0,
               self.dl_sent & 3, self.rx & 3 if track else 0, self.dl_sent - self.rx if track else 0,
               self.run_unacked, self.outages, len(self.errs), self.echoed,
               self.main, self.expect, 0 if self.main else self.probes, self.prequeued)
        st = (kind, tuple(options), tuple(sorted((k, _canon(v)) for k, v in attrs.items())),
              tuple(sorted((k, _canon(v)) for k, v in loc.items())), peer, mon)
        return st

    # ---- checks made whenever the driver is quiescent (at every choice point) ----------------------
    def drain(self):
        """Application side: take everything out through the real RadioDriver.receive_packet."""
        while True:
            pk = self.link.receive_packet(0)
            if pk is None:
                return
            if (pk.header & 0xf3) == 0xf3 and tuple(pk.data) in ((), (0x01, RSSI)):
                # a null packet: the header of port 15 channel 3 and nothing (or the peer's RSSI report) behind it
                self.nulls_rx += 1
                continue
            got = (pk.port, pk.channel, tuple(pk.data))
            if not self.echoed:
                self.events.append('rx_unprotected')
                continue
            if got == _down_packet(self.rx) and self.rx < self.dl_sent:
                self.rx += 1
                self.events.append('rx')
                self.log('   app receives downlink #%d %r' % (self.rx - 1, got))
            elif self.rx > 0 and got == _down_packet(self.rx - 1):
                self.bad('downlink:duplicate', 'receive_packet returned downlink packet #%d %r a second time'
                         % (self.rx - 1, got))
            elif got == _down_packet(self.rx + 1):
                self.bad('downlink:gap', 'receive_packet returned downlink packet #%d before #%d'
                         % (self.rx + 1, self.rx))
            else:
                self.bad('downlink:corrupt', 'receive_packet returned %r, next queued by the peer is %r'
                         % (got, _down_packet(self.rx)))

    def checkpoint(self, main):
        self.drain()
        if main:
            self.main = True
            t = self.thread
            if bool(_uses_safelink(t, self.link)) != self.echoed:
                self.bad('safelink:enabled_without_echo' if _uses_safelink(t, self.link) else 'safelink:not_enabled_after_echo',
                         'driver uses safelink=%r but %s start-up probe returned the exact echo ff 05 01'
                         % (_uses_safelink(t, self.link), 'a' if self.echoed else 'no'))
            if bool(self.link.needs_resending) != (not self.echoed):
                self.bad('safelink:needs_resending', 'link.needs_resending=%r with safelink %s'
                         % (self.link.needs_resending, 'confirmed' if self.echoed else 'not confirmed'))
        if self.outages > len(self.errs):
            self.bad('linkerr:missing' + (':outage_%d_after_acknowledgement' % self.outages if self.outages > 1 else ''),
                     '%d consecutive unacknowledged transmissions (limit %d, outage number %d on this link) and no link '
                     'error was reported for them' % (self.run_unacked, self.N, self.outages))

    def on_link_error(self, msg):
        self.errs.append(msg)
        self.events.append('link_error')
        self.log('   link_error_callback(%r)' % (msg,))
        if self.run_unacked < self.N:
            self.bad('linkerr:spurious', 'link error %r reported after %d consecutive unacknowledged transmissions, '
                     'limit is %d' % (msg, self.run_unacked, self.N))
        elif len(self.errs) > self.outages:
            self.bad('linkerr:repeated', 'link error reported %d times for %d run(s) of %d unacknowledged transmissions '
                     '(current run: %d)' % (len(self.errs), self.outages, self.N, self.run_unacked))

    def history_over(self):
        """The explored history ends once outage number MAX_OUTAGES has been reported, or an outage goes on for a
        transmission after it was reported (nothing is demanded of a failed link except that it is reported once)."""
        if len(self.errs) < self.outages:
            return False
        return self.outages >= MAX_OUTAGES or (self.outages > 0 and self.run_unacked > self.N)

    def on_stats(self, d):
        self.stats_cb += 1

    # ---- radio transmission = choice point --------------------------------------------------------
    def transmit(self, frame):
        is_req = len(frame) == 3 and (frame[0] & 0xf3) == 0xf3 and frame[1] == 0x05
        self.checkpoint(main=not is_req)
        if self.history_over():
            self.pending = ('end', ())
            self.state = self.capture('end', ())
            raise _Stop()
        self.ntx += 1
        self.clock.now += 0.03
        if is_req:
            return self.probe(frame)
        t = self.thread
        b3, b2 = (frame[0] >> 3) & 1, (frame[0] >> 2) & 1
        # header-bit clause
        if _uses_safelink(t, self.link):
            if hasattr(t, '_curr_up') and hasattr(t, '_curr_down') and (b3, b2) != (t._curr_up, t._curr_down):
                self.bad('hdr:bits_mismatch', 'frame %s carries (bit3,bit2)=%r, thread sequence bits are (%r,%r)'
                         % (bytes(frame).hex(), (b3, b2), t._curr_up, t._curr_down))
            if (frame[0] & 0xf3,) + frame[1:] != (self.expect[0] & 0xf3,) + self.expect[1:]:
                self.bad('uplink:frame_corrupt', 'frame %s on air, packet in hand is %s'
                         % (bytes(frame).hex(), bytes(self.expect).hex()))
        else:
            if frame != self.expect:
                if (frame[0] & 0xf3,) + frame[1:] == (self.expect[0] & 0xf3,) + self.expect[1:]:
                    self.bad('hdr:toggled_without_safelink', 'safelink is off but frame %s differs from the packet %s '
                             'in header bits 2/3' % (bytes(frame).hex(), bytes(self.expect).hex()))
                else:
                    self.bad('uplink:frame_corrupt', 'frame %s on air, packet in hand is %s'
                             % (bytes(frame).hex(), bytes(self.expect).hex()))
        # the application may submit its next packet at any moment, also while this frame is in the air (it then waits
        # in the driver's one-slot queue until the loop asks for it)
        if self.prequeued is None and self.link.out_queue.empty():
            if self.choose('apptx', (A_NONE, A_SUBMIT)) == A_SUBMIT:
                self.prequeued = self._submit()
        advance = (not self.p_sl) or b2 != self.p_down
        if advance:
            opts = [T_LOST, T_ACK, T_ACK_DATA, T_KLOST, T_KLOST_DATA]
            if (not self.p_sl) or self.empty_sl:
                opts += [T_ACK_EMPTY, T_KLOST_EMPTY]
        else:
            opts = [T_LOST, T_ACK, T_KLOST]
        c = self.choose('tx', sorted(opts))
        self.log('tx #%d frame=%s (bit3=%d bit2=%d): %s' % (self.ntx, bytes(frame).hex(), b3, b2, T_NAMES[c]))
        acked = c in (T_ACK, T_ACK_DATA, T_ACK_EMPTY)
        self.last_tx_choice = c
        payload = ()
        if c != T_LOST:
            payload = self.peer_receive(frame, b3, b2, advance, c)
        if acked:
            self.run_unacked = 0
            self.events.append('acked')
        else:
            self.run_unacked += 1
            self.events.append('lost' if c == T_LOST else 'ack_lost')
            if self.run_unacked == self.N:
                self.outages += 1
        return acked, payload

    def peer_receive(self, frame, b3, b2, advance, c):
        if (not self.p_sl) or b3 != self.p_up:
            if self.p_sl:
                self.p_up = b3
            if (frame[0] & 0xf3) != 0xf3:
                self.peer_accept(frame)
            else:
                self.events.append('null_accepted')
        else:
            self.events.append('uplink_retx_ignored')
            if not self.echoed and (frame[0] & 0xf3) != 0xf3:
                # half-open safelink (peer enabled it, every echo was lost, driver fell back): the peer
                # takes every application frame (bits 3/2 always 1/1) for a retransmission.  Measured, not judged.
                self.events.append('halfopen_app_frame_dropped')
                # Judged: the statement promises delivery to a peer that supports safelink under any loss pattern.
                self.bad('uplink:dropped_in_half_open_safelink',
                         'the peer enabled safelink on a start-up probe whose echo was lost, the driver fell back to plain '
                         'mode (needs_resending=True) and sends header bits 3/2 = 1/1 for ever: the peer takes every '
                         'application frame for a retransmission, acknowledges it at radio level and drops it; no link '
                         'error is reported')
        if advance:
            if self.p_sl:
                self.p_down = b2
            if c in (T_ACK_DATA, T_KLOST_DATA):
                if self.echoed and self.dl_sent > self.rx:
                    self.bad('downlink:lost', 'peer moved on to downlink packet #%d but #%d never came out of '
                             'receive_packet' % (self.dl_sent, self.rx))
                port, ch, data = _down_packet(self.dl_sent)
                hdr = port << 4 | 0x0c | ch
                if self.p_sl:
                    hdr = (hdr & 0xfb) | self.p_down << 2
                self.p_last = (hdr,) + data
                self.p_last_data = True
                self.dl_sent += 1
                self.events.append('dl_new')
                self.log('   peer sends downlink #%d %s' % (self.dl_sent - 1, bytes(self.p_last).hex()))
            elif c in (T_ACK_EMPTY, T_KLOST_EMPTY):
                self.p_last = ()
                self.p_last_data = False
                self.events.append('dl_empty')
            else:
                self.p_last = (0xf3 | self.p_down << 2, 0x01, RSSI)
                self.p_last_data = False
                self.events.append('dl_null')
        else:
            self.events.append('dl_retx')
        return self.p_last

    def peer_accept(self, frame):
        got = (frame[0] >> 4, frame[0] & 3, frame[1:])
        if not self.echoed:
            self.events.append('accept_unprotected')
            return
        if self.sub - self.acc <= 0:
            self.bad('uplink:duplicate', 'peer accepted %r as a new packet but all %d submitted packets had already '
                     'been accepted' % (got, self.sub))
        elif got == _up_packet(self.acc):
            self.acc += 1
            self.events.append('accept')
            self.log('   peer accepts uplink #%d %r' % (self.acc - 1, got))
        elif self.acc > 0 and got == _up_packet(self.acc - 1):
            self.bad('uplink:duplicate', 'peer accepted uplink packet #%d %r twice' % (self.acc - 1, got))
        elif got == _up_packet(self.acc + 1):
            self.bad('uplink:gap', 'peer accepted uplink packet #%d while #%d was never delivered'
                     % (self.acc + 1, self.acc))
        else:
            self.bad('uplink:corrupt', 'peer accepted %r, next submitted packet is %r' % (got, _up_packet(self.acc)))

    def probe(self, frame):
        self.probes += 1
        opts = [S_LOST, S_ACKLOST, S_ECHO] + [S_OTHER0 + i for i in range(len(OTHER))]
        c = self.choose('probe', opts)
        if c >= S_OTHER0:
            self.log('probe #%d %s: acked by a peer without safelink, payload %s' % (
                self.probes, bytes(frame).hex(), bytes(OTHER[c - S_OTHER0]).hex() or '(empty)'))
            self.events.append('probe_other')
            return True, OTHER[c - S_OTHER0]
        self.log('probe #%d %s: %s' % (self.probes, bytes(frame).hex(), S_NAMES[c]))
        if c == S_LOST:
            self.events.append('probe_lost')
            return False, ()
        # request reaches a safelink-capable peer: it enables safelink and resets its bits
        self.p_sl = 1 if frame[2] else 0
        self.p_up = 1
        self.p_down = 1
        self.p_last = tuple(frame)
        self.p_last_data = False
        if c == S_ACKLOST:
            self.events.append('probe_ack_lost')
            return False, ()
        if tuple(frame) == ECHO:
            self.echoed = True
        self.events.append('probe_echo')
        return True, tuple(frame)

    def _submit(self):
        """The application hands its next packet to the REAL RadioDriver.send_packet; returns the frame or None."""
        from cflib.crtp.crtpstack import CRTPPacket
        port, ch, data = _up_packet(self.sub)
        pk = CRTPPacket()
        pk.set_header(port, ch)
        pk.data = bytes(data)
        ok = self.link.send_packet(pk)
        if ok is True:
            self.sub += 1
            self.events.append('submit')
            return (pk.header,) + data
        self.events.append('submit_rejected')
        return None

    # ---- application hand-off = choice point ------------------------------------------------------
    def app_point(self, block, timeout):
        self.checkpoint(main=True)
        if self.history_over():
            self.pending = ('end', ())
            self.state = self.capture('end', ())
            raise _Stop()
        self.get_timeouts.append((block, timeout))
        if self.echoed and self.sub - (1 if self.prequeued is not None else 0) > self.acc:
            # the loop is replacing the frame in hand (window of the alternating-bit protocol is 1):
            # a submitted packet the peer has not accepted by now will never be transmitted again
            self.bad('uplink:lost', 'radio loop asks for the next packet while submitted packet #%d %r has not been '
                     'accepted by the peer' % (self.acc, _up_packet(self.acc)))
        if self.prequeued is not None:
            # the packet submitted during the last transmission is waiting in the queue: the loop takes it now
            self.expect, self.prequeued = self.prequeued, None
            self.events.append('take_prequeued')
            self.log('out_queue.get(block=%r, timeout=%r): packet submitted earlier is waiting' % (block, timeout))
            if self.rate:
                self.events.append('rate_limited')
            return
        c = self.choose('app', (A_NONE, A_SUBMIT))
        self.log('out_queue.get(block=%r, timeout=%r): %s' % (block, timeout, A_NAMES[c]))
        if c == A_SUBMIT:
            fr = self._submit()
            self.expect = fr if fr is not None else (0xff,)
        else:
            self.expect = (0xff,)
            self.events.append('idle')
        if self.rate:
            self.events.append('rate_limited')


def _build(cfg, hist, verbose=False):
    """Run the real driver loop from scratch under the given choice history."""
    from cflib.crtp import radiodriver, radio_link_statistics
    from cflib.drivers import crazyradio
    os.environ.pop('CRTP_PCAP_LOG', None)
    w = _World(cfg, hist, verbose)
    clock = w.clock = _VClock()
    saved = (radiodriver.time, radio_link_statistics.time, getattr(radiodriver, '_nr_of_retries', None))
    radiodriver.time = clock
    radio_link_statistics.time = clock
    try:
        radiodriver.set_retries_before_disconnect(w.N)
        cr = object.__new__(crazyradio.Crazyradio)
        cr.handle = cr.dev = _UsbHandle(w)
        cr.arc = 3
        cr.devid = 0
        cr.version = 0.53
        cr.current_channel = 80
        cr.current_address = (0xe7,) * 5
        cr.current_datarate = 2
        link = w.link = radiodriver.RadioDriver()
        link.in_queue = queue.Queue()
        link.out_queue = _OutQueue(w)
        link.link_error_callback = w.on_link_error
        th = w.thread = radiodriver._RadioDriverThread(cr, link.in_queue, link.out_queue, w.on_stats,
                                                       w.on_link_error, link, w.rate)
        try:
            th.run()
            w.pending = ('returned', ())
            w.bad('crash:run_returned', 'run() returned although nobody stopped the thread')
        except _Stop:
            pass
        except _Fatal as e:
            raise HarnessError(str(e))
        except Exception as e:  # noqa  - the radio thread would die silently: everything after is lost
            w.pending = ('crashed', ())
            w.bad('crash:%s' % type(e).__name__, 'radio thread run() died with %r after %d transmissions; '
                  'no link error reported' % (e, w.ntx))
    finally:
        radiodriver.time, radio_link_statistics.time = saved[0], saved[1]
        if saved[2] is not None:
            radiodriver.set_retries_before_disconnect(saved[2])
    return w


def _h(st):
    return hashlib.blake2b(repr(st).encode(), digest_size=12).digest()


def _mode(w):
    return 'safelink' if w.echoed else ('peer_only_safelink' if w.p_sl else 'plain')


def _expand(args):
    """Worker: run every (history + choice) of a chunk of frontier states."""
    cfg, items = args
    out = []
    for hist, options in items:
        for c in options:
            h2 = hist + (c,)
            w = _build(cfg, h2)
            new_viol = [(sig, what) for (pos, sig, what) in w.viol if pos == len(h2)]
            old_viol = [v for v in w.viol if v[0] < len(h2)]
            if old_viol:
                # the same history was clean when it was explored before in this process: the driver's behaviour depends
                # on something earlier driver threads left behind (module-level state) - this run is a real execution
                # (several driver threads one after the other in one process) and it violates the clause
                new_viol = [(sig + ':after_earlier_driver_threads', what + ' (the same history was clean before other '
                             'driver threads had run in this process)') for (pos, sig, what) in old_viol[:1]]
            if w.state is None and not new_viol:
                raise HarnessError('no state captured for %r' % (h2,))
            key = _h(w.state) if w.state is not None else _h(('dead', h2))
            kind, opts = w.pending if w.pending else ('dead', ())
            outcome = (_mode(w), kind, tuple(sorted(set(w.events))), _canon(getattr(w.thread, '_retry_before_disconnect', None)),
                       w.get_timeouts[-1] if w.get_timeouts else None)
            summ = None
            out.append((h2, key, kind, opts, new_viol, outcome, summ, w.ntx))
    return out


_POOL = None


def _pool(workers):
    global _POOL
    if _POOL is None and workers > 1:
        _POOL = multiprocessing.get_context('fork').Pool(workers)
    return _POOL


def _sample(cfg, hist):
    w = _build(cfg, hist, verbose=True)
    return {'N': cfg[0], 'rate_limit': cfg[1], 'history': list(hist), 'mode': _mode(w),
            'transmissions': w.ntx, 'submitted': w.sub, 'accepted_by_peer': w.acc,
            'downlink_sent': w.dl_sent, 'downlink_received': w.rx, 'null_packets_received': w.nulls_rx,
            'link_errors': len(w.errs), 'trace': w.trace[-6:]}


_SAMPLE_TAGS = [
    ('safelink: retransmission after a lost ack is recognised by the peer, then next packet accepted',
     lambda m, k, ev: m == 'safelink' and 'uplink_retx_ignored' in ev and 'acked' in ev),
    ('safelink: downlink payload re-sent by the peer after ack loss reaches the application once',
     lambda m, k, ev: m == 'safelink' and 'dl_retx' in ev and 'rx' in ev),
    ('safelink: uplink packet accepted while its ack is lost',
     lambda m, k, ev: m == 'safelink' and 'accept' in ev and 'ack_lost' in ev),
    ('safelink: link error after N consecutive unacknowledged transmissions (terminal state)',
     lambda m, k, ev: m == 'safelink' and k == 'end'),
    ('safelink: zero-length ack', lambda m, k, ev: m == 'safelink' and 'dl_empty' in ev and 'acked' in ev),
    ('peer enabled safelink but the echo was lost on every probe (driver falls back, needs_resending=True)',
     lambda m, k, ev: m == 'peer_only_safelink' and 'idle' in ev),
    ('no safelink: frames carry the application header unchanged',
     lambda m, k, ev: m == 'plain' and 'accept_unprotected' in ev),
]


def _bfs(ck, cfg, max_depth):
    """Level-synchronous BFS over choice histories with global de-duplication."""
    p = Partial()
    root = _build(cfg, ())
    seen = {_h(root.state)}
    frontier = [((), root.pending[1])]
    p.states += 1
    depth = 0
    max_tx = 0
    fix = False
    terminal = 0
    by_mode = {}
    sample_for = {}
    while frontier:
        if len(seen) > 600000:
            p.cap('C01 N=%d rate=%r: state cap 600000 reached at depth %d' % (cfg[0], cfg[1], depth))
            break
        if depth >= max_depth:
            p.cap('C01 N=%d rate=%r: BFS depth cap %d reached with %d frontier states' % (
                cfg[0], cfg[1], max_depth, len(frontier)))
            break
        depth += 1
        pool = _pool(ck.workers)
        nchunk = max(1, min(len(frontier), ck.workers * 4))
        chunks = [(cfg, frontier[i::nchunk]) for i in range(nchunk)]
        if pool is None or len(frontier) < 8:
            results = [_expand(c) for c in chunks]
        else:
            results = pool.map(_expand, chunks)
        merged = sorted((r for res in results for r in res), key=lambda r: r[0])
        nxt = []
        for h2, key, kind, opts, new_viol, outcome, summ, ntx in merged:
            p.transitions += 1
            p.points += len(h2)
            max_tx = max(max_tx, ntx)
            p.case(key=(cfg, key), outcome=outcome)
            for sig, what in new_viol:
                p.violation('%s:%s' % (sig, outcome[0]),
                            '%s [N=%d rate_limit=%r history=%r]' % (what, cfg[0], cfg[1], list(h2)),
                            {'part': 'bfs', 'cfg': list(cfg), 'history': list(h2)})
            if new_viol:
                continue
            for name, pred in _SAMPLE_TAGS:          # samples are transitions (may lead to a known state)
                if name not in sample_for and pred(outcome[0], kind, outcome[2]):
                    sample_for[name] = h2
            if 'halfopen_app_frame_dropped' in outcome[2] and 'acked' in outcome[2]:
                p.add('halfopen_safelink_acked_but_dropped_transitions')
            if key in seen:
                continue
            seen.add(key)
            p.states += 1
            by_mode[outcome[0]] = by_mode.get(outcome[0], 0) + 1
            if kind == 'end':
                terminal += 1
            if opts:
                nxt.append((h2, opts))
        frontier = nxt
    else:
        fix = True
    info = {'cfg': list(cfg), 'states': p.states, 'transitions': p.transitions, 'depth': depth,
            'fixpoint': fix, 'terminal_link_error_states': terminal, 'max_transmissions_on_a_path': max_tx,
            'states_by_mode': by_mode}
    for name, _ in _SAMPLE_TAGS:
        if name in sample_for:
            d = _sample(cfg, sample_for[name])
            d['what'] = name
            p.sample(d)
    return p, info, seen


# ---- bounded queue hand-off through RadioDriver.send_packet / receive_packet -----------------------

class _TimeoutQueue(queue.Queue):
    """queue.Queue whose blocking operations time out immediately (virtual time) instead of waiting."""

    def put(self, item, block=True, timeout=None):
        self.calls.append(('put', block, timeout))
        return queue.Queue.put(self, item, False)

    def get(self, block=True, timeout=None):
        self.calls.append(('get', block, timeout))
        return queue.Queue.get(self, False)


def _handoff_seq(p, seq, verbose=False):
    """One op sequence on the real RadioDriver.send_packet / receive_packet over the bounded queues."""
    from cflib.crtp import radiodriver
    from cflib.crtp.crtpstack import CRTPPacket
    link = radiodriver.RadioDriver()
    link.in_queue = _TimeoutQueue()
    link.out_queue = _TimeoutQueue(1)
    link.in_queue.calls = []
    link.out_queue.calls = []
    errs = []
    link.link_error_callback = errs.append
    model_out, model_in = [], []
    nsub = nput = 0
    oc = []
    rp = {'part': 'handoff', 'ops': list(seq)}
    for i, op in enumerate(seq):
        if op == 'send':
            pk = CRTPPacket()
            pk.set_header(2, 1)
            pk.data = bytes([nsub & 0xff])
            nsub += 1
            e0 = len(errs)
            r = link.send_packet(pk)
            room = len(model_out) < 1
            if room:
                model_out.append(pk)
            if verbose:
                print('step %d send_packet(#%d) -> %r, link errors so far %r' % (i, nsub - 1, r, errs))
            if r is not room or (len(errs) - e0) != (0 if room else 1):
                p.violation('handoff:send_result', 'ops %r step %d: send_packet returned %r with %s queue, '
                            '%d link errors reported' % (seq, i, r, 'free' if room else 'full',
                                                         len(errs) - e0), rp)
            if link.out_queue.calls[-1][:2] != ('put', True) or not link.out_queue.calls[-1][2]:
                p.violation('handoff:send_timeout', 'send_packet used out_queue.put%r (must block with a timeout)' % (
                    link.out_queue.calls[-1][1:],), rp)
            oc.append('acc' if room else 'rej')
        elif op == 'drv_get':
            try:
                g = queue.Queue.get(link.out_queue, False)
            except queue.Empty:
                g = None
            exp = model_out.pop(0) if model_out else None
            if verbose:
                print('step %d radio loop dequeues %r' % (i, g and bytes(g.data)))
            if g is not exp:
                p.violation('handoff:out_order', 'ops %r step %d: radio loop dequeued %r, expected %r'
                            % (seq, i, g and bytes(g.data), exp and bytes(exp.data)), rp)
            oc.append('get' if exp else 'get_none')
        elif op == 'drv_put':
            pk = CRTPPacket(0x50, [nput & 0xff])
            nput += 1
            queue.Queue.put(link.in_queue, pk)
            model_in.append(pk)
            oc.append('put')
        else:
            if op == 'recv_block' and not model_in:
                oc.append('skip')
                continue          # would block for ever by contract
            wait = {'recv0': 0, 'recv_t': 0.25, 'recv_block': -1}[op]
            g = link.receive_packet(wait)
            exp = model_in.pop(0) if model_in else None
            if verbose:
                print('step %d receive_packet(%r) -> %r' % (i, wait, g and bytes(g.data)))
            if g is not exp:
                p.violation('handoff:in_order', 'ops %r step %d: receive_packet(%r) returned %r, expected %r'
                            % (seq, i, wait, g and bytes(g.data), exp and bytes(exp.data)), rp)
            oc.append('rx' if exp else 'rx_none')
    return oc, errs


def part_handoff(maxlen):
    import itertools
    p = Partial()
    ops = ('send', 'drv_get', 'drv_put', 'recv0', 'recv_t', 'recv_block')
    for n in range(1, maxlen + 1):
        for seq in itertools.product(ops, repeat=n):
            oc, errs = _handoff_seq(p, seq)
            p.case(key=('handoff', seq), outcome=('handoff', tuple(sorted(set(oc)))))
            if n == maxlen and seq[:3] == ('send', 'send', 'drv_get') and len(p.samples) < 1:
                p.sample({'part': 'handoff', 'ops': list(seq), 'observed': oc, 'link_errors': errs})
    return p


# ---- stateless cross-check of the state abstraction ---------------------------------------------------

_SEEN = None


def part_stateless(job):
    """Enumerate EVERY choice history extending ``prefix`` by up to ``extra`` choices WITHOUT
    de-duplication, re-check the oracle on each, and require that the canonical state of each is one
    the BFS visited.  If the canonical state forgot something that influences the future, histories
    pruned by the BFS as "already seen" would lead here to states outside the visited set."""
    cfg, prefix, extra = job
    p = Partial()
    stack = [tuple(prefix)]
    limit = len(prefix) + extra
    while stack:
        h = stack.pop()
        w = _build(cfg, h)
        p.case(key=('stateless', cfg, h), outcome=None)
        p.add('stateless_histories')
        if w.viol:
            for pos, sig, what in w.viol:
                p.violation('%s:%s' % (sig, _mode(w)), '%s [N=%d rate_limit=%r history=%r]' % (
                    what, cfg[0], cfg[1], list(h)), {'part': 'bfs', 'cfg': list(cfg), 'history': list(h)})
            continue
        if _h(w.state) not in _SEEN:
            raise HarnessError('state abstraction unsound: history %r reaches a canonical state the BFS never '
                               'visited' % (h,))
        if w.pending[0] == 'probe':
            p.add('stateless_stopped_at_probe')      # start-up is covered by the BFS only (10 options per probe)
            continue
        if len(h) < limit:
            for c in w.pending[1]:
                stack.append(h + (c,))
    return p


def _stateless_jobs(cfg, roots, split, extra):
    jobs = []
    for root in roots:
        level = [tuple(root)]
        for _ in range(split):
            nxt = []
            for h in level:
                w = _build(cfg, h)
                if w.pending[0] != 'probe' and not w.viol:
                    nxt += [h + (c,) for c in w.pending[1]]
            level = nxt
        jobs += [(cfg, h, extra - split) for h in level]
    return jobs


# ---- driver ------------------------------------------------------------------------------------------

def _configs(ck):
    if ck.quick:
        return [(2, None, True)]
    return [(2, None, True), (1, None, True), (3, None, True), (5, None, True), (2, 100, True), (3, 100, True)]


def run(ck):
    ck.rule = ('explicit-state BFS over choice histories of the real _RadioDriverThread.run(): per start-up probe '
               '{lost, delivered+ack lost, exact echo, 7 non-echo replies}; per main-loop transmission {uplink lost, '
               'delivered+acked, delivered+ack lost} x peer ack payload {null/resent, new data, zero-length}; per loop '
               '{application submits next packet, idle}; retries-before-disconnect N and rate_limit per configuration. '
               'distinct = canonical states (thread attributes + run() frame locals + peer + monitor, packet ids mod 4); '
               'plus every op sequence over {send, drv_get, drv_put, recv0, recv_t, recv_block} on the bounded '
               'RadioDriver queues')
    ck.assume('peer = alternating-bit safelink model of the nRF51 esb.c firmware written in the check; dongle = real '
              'Crazyradio.send_packet over a scripted USB endpoint (status byte 0 = no ack, 1 = ack + payload)')
    ck.assume('RadioLinkStatistics is an observer: its internal counters/timestamps are excluded from the canonical '
              'state (update() returns nothing and touches only its own object)')
    ck.assume('locals resp and _ of run() are dropped from the state once the while loop is entered only if the '
              'bytecode shows no read of them after that point')
    ck.assume('data independence: packet contents depend on the sequence number modulo 4')
    ck.assume('delivery clauses are checked on executions where safelink was confirmed by the echo; without it the '
              'driver announces needs_resending=True and only the link-error, safelink and header clauses apply')
    infos = []
    all_fix = True
    global _POOL, _SEEN
    for i, cfg in enumerate(_configs(ck)):
        part, info, seen = _bfs(ck, cfg, max_depth=400)
        ck.merge(part)
        infos.append(info)
        all_fix = all_fix and info['fixpoint']
        if _POOL is not None:
            _POOL.close()
            _POOL.join()
            _POOL = None
        if i == 0 or not ck.quick:
            # abstraction cross-check: all histories, no de-duplication, after each kind of start-up
            extra = 8 if ck.quick else (11 if i == 0 else 9)
            roots = [(S_ECHO,), (S_ACKLOST,) + (S_LOST,) * 9, (S_LOST,) * 10]
            _SEEN = seen
            before = ck.evaluations
            ck.pmap(part_stateless, _stateless_jobs(cfg, roots[:1], 3, extra)
                    + _stateless_jobs(cfg, roots[1:], 2, extra - 2))
            info['stateless_histories_cross_checked'] = ck.evaluations - before
            info['stateless_extra_choices_after_startup'] = extra
            _SEEN = None
    ck.pmap(part_handoff, [5 if ck.quick else 6])
    ck.pmap(part_restart, [None])
    ck.note('bfs', infos)
    ck.note('fixpoint_reached_all_configs', all_fix)
    ck.note('run_locals_dropped_after_startup', sorted(_run_info()[1]))
    if OPAQUE:
        ck.cap('state of %s objects could not be read: the state abstraction is coarser there' % sorted(OPAQUE))
    ck.exhaustive = all_fix


def replay(ck, data):
    if data.get('part') == 'handoff':
        oc, errs = _handoff_seq(ck, tuple(data['ops']), verbose=True)
        print('observed %r, link errors %r' % (oc, errs))
        return
    cfg = tuple(data['cfg'])
    hist = tuple(data['history'])
    w = _build(cfg, hist, verbose=True)
    print('config: retries_before_disconnect=%d rate_limit=%r' % (cfg[0], cfg[1]))
    for line in w.trace:
        print(line)
    print('end: mode=%s submitted=%d accepted_by_peer=%d downlink_sent=%d downlink_received=%d link_errors=%r'
          % (_mode(w), w.sub, w.acc, w.dl_sent, w.rx, w.errs))
    print('thread: _has_safelink=%r _curr_up=%r _curr_down=%r _retry_before_disconnect=%r needs_resending=%r'
          % (_uses_safelink(w.thread, w.link), getattr(w.thread, '_curr_up', '?'), getattr(w.thread, '_curr_down', '?'),
             getattr(w.thread, '_retry_before_disconnect', '?'),
             w.link.needs_resending))
    for pos, sig, what in w.viol:
        ck.violation('%s:%s' % (sig, _mode(w)), what)
