"""C02 — connection life-cycle is well-formed and never hangs under any link fault / interleaving.

Real Crazyflie (and SyncCrazyflie) -> SimLink -> SimCF under the controlled scheduler.  Environment
events, each costing one deviation: link error reported from the driver's own thread at any
scheduling point, link error raised inside send_packet at any transmission, the user closing the
link at any point, any other runnable thread picked at a synchronisation point (and, in the
line-level configurations, at every line of the named library functions).  Every execution ends
with a fault-free second session on the same object.
"""
from vf import cfh, simcf, vsched
from vf.core import Partial
from vf.explore import explore

ID = 'C02'
LEVEL = 'exploration'

PROGRESS = ('link_established', 'connected', 'fully_connected')


def _device(cfg):
    if cfg.get('unsol'):
        params = [simcf.ParamVar('ga', 'y', 0x08, 1), simcf.ParamVar('ga', 'z', 0x09, 2), simcf.ParamVar('gb', 'y', 0x06, 3.5)]
        return simcf.SimCF(protocol=cfg['proto'], log=(), params=params)
    return cfh.small_device(protocol=cfg['proto'], versioning=cfg.get('versioning', True), nlog=cfg.get('nlog', 1),
                            nparam=cfg.get('nparam', 2), mems=cfg.get('mems', 0))


def _traced_functions():
    import cflib.crazyflie as cfm
    import cflib.crazyflie.syncCrazyflie as scm
    import cflib.crazyflie.param as pm
    import cflib.crazyflie.link_statistics as lsm
    # the functions with unsynchronised check-then-act on shared attributes.  Named ones that exist are taken as they
    # are; private helpers come and go with refactorings, so every *private* method of the classes involved (and of the
    # private thread classes of these modules) is traced as well - the scheduling points follow the code.
    import threading
    names = [(cfm, '_IncomingPacketHandler.run'), (cfm, 'Crazyflie.open_link'), (cfm, 'Crazyflie.close_link'),
             (cfm, 'Crazyflie.send_packet'), (scm, 'SyncCrazyflie.open_link'), (scm, 'SyncCrazyflie.close_link'),
             (lsm, 'Latency.start'), (lsm, 'Latency.stop')]
    fs = []
    for mod, path in names:
        o = mod
        for part in path.split('.'):
            o = getattr(o, part, None)
            if o is None:
                break
        if o is not None:
            fs.append(o)
    own = {id(getattr(f, '__code__', None)) for f in fs}
    classes = [getattr(cfm, 'Crazyflie', None), getattr(scm, 'SyncCrazyflie', None), getattr(lsm, 'Latency', None)]
    for mod in (cfm, pm):
        classes += [v for v in vars(mod).values() if isinstance(v, type) and issubclass(v, threading.Thread)
                    and v.__module__ == mod.__name__ and v.__name__ != '_ExtendedTypeFetcher']
    skip = ('__init__',)
    for f in cfh.functions_of(*classes, skip=skip):
        if id(f.__code__) not in own and (f.__name__.startswith('_') or f.__name__ in ('run', 'close')):
            fs.append(f)
    return fs


def exec_c02(cfg, devs):
    from cflib.crazyflie import Crazyflie, State
    from cflib.crazyflie.syncCrazyflie import SyncCrazyflie
    p = Partial()
    dev = _device(cfg)
    vsched.clear_traced_functions()
    if cfg.get('lines'):
        vsched.trace_functions(_traced_functions())
    ex = cfh.Exec(devs, dev, time_limit=cfg.get('limit', 14.0), reply_menu=tuple(cfg.get('menu', ('once',))),
                  policy=cfg.get('policy'),
                  send_fault=cfg.get('send_fault', False), needs_resending=cfg.get('resend', True))
    ex.env.on_fault = lambda kind: ex.log('fault', kind)
    ex.env.hello = bool(cfg.get('hello'))
    if len(cfg.get('menu', ())) > 1:
        # link-control / platform requests have no retry: losing or delaying them is outside the statement
        ex.env.reply_filter = lambda h, payload: ('once',) if ((h >> 4) & 15) in (15, 13) else None
    ex.s.eager_start = bool(cfg.get('eager'))
    ex.env.on_rx = lambda idx: ex.log('rx', idx)
    if cfg.get('retry'):
        ex.env.on_rx_wait = lambda idx: ex.log('rxwait', idx)
    info = {}

    def main():
        s = ex.s
        cf = Crazyflie()
        info['cf'] = cf
        if cfg.get('prior'):
            # history: the explored attempt is not the first one on this object - a complete fault-free session (connected,
            # all values fetched, closed by the user) precedes it
            ex.freeze()
            flag0 = {}
            cb0 = lambda uri: flag0.__setitem__('f', 1)  # noqa
            cf.fully_connected.add_callback(cb0)
            cf.open_link('sim://0')
            info['s0_full'] = bool(ex.wait_for(lambda: 'f' in flag0, 6.0, 'wait.session0'))
            cf.fully_connected.remove_callback(cb0)
            cf.close_link()
            s.sleep(0.5, 'settle0')
            del ex.events[:]
            ex.frozen = False
            s.frozen = False
        ex.observe(cf)
        # first in the list: marks the instant the disconnected notification starts
        cf.disconnected.callbacks.insert(0, lambda uri: ex.log('disc_begin', vsched._v_current_thread_name()))
        # log registrations of packet callbacks (a registration made by the dispatcher after the disconnect has begun
        # is how the late-callback finding leaks into the next session)
        orig_add = cf.incoming.add_header_callback

        def logged_add(cb, port, channel, port_mask=0xFF, channel_mask=0xFF):
            ex.log('reg', getattr(cb, '__qualname__', repr(cb))[:40], vsched._v_current_thread_name())
            return orig_add(cb, port, channel, port_mask, channel_mask)
        cf.incoming.add_header_callback = logged_add
        if cfg.get('retry'):
            orig_err = getattr(cf, '_link_error_cb', None)
            info['errpath_seen'] = orig_err is not None

            def logged_err(errmsg):
                me = vsched._v_current_thread_name()
                ex.log('errpath_begin', me)
                try:
                    return orig_err(errmsg)
                finally:
                    ex.log('errpath_end', me)
            if orig_err is not None:
                cf._link_error_cb = logged_err

        def on_connected(uri):
            lg = cfh.toc_fingerprint(cf.log.toc) if cf.log.toc is not None else None
            info.setdefault('tables', []).append((lg == cfh.device_log_fingerprint(dev),
                                                  cfh.toc_fingerprint(cf.param.toc) == cfh.device_param_fingerprint(dev)))

        def on_fully(uri):
            missing = [(g, n) for g in cf.param.toc.toc for n in cf.param.toc.toc[g]
                       if n not in cf.param.values.get(g, {})]
            info.setdefault('values', []).append(missing)
        cf.connected.add_callback(on_connected)
        cf.fully_connected.add_callback(on_fully)

        if cfg.get('driver_fault', True):
            def fault_body():
                s.lazy_point('env.linkfault')
                if ex.env.links:
                    ex.env.links[-1].fail_from_driver_thread()
            s.spawn(None, fault_body, name='env-driver-fault', lazy=False)
            # let it park itself as lazy before anything else happens (no choice: single option)

        if cfg.get('unsol'):
            def unsol_body():
                s.lazy_point('env.value_updated')
                if ex.env.links and not ex.env.links[-1].closed and not ex.frozen:
                    upi = cfg.get('unsol_param', 2)
                    dev.params[upi].value = 7.25 if upi == 2 else 5
                    ex.env.links[-1].inject(*dev.value_updated_packet(upi))
            s.spawn(None, unsol_body, name='env-unsolicited')
        if cfg.get('driver_fault', True) or cfg.get('unsol'):
            # the environment threads park themselves (as lazy threads, one deviation to fire them at any later point)
            # before the application does anything: a fault can then land inside open_link itself
            ex.freeze()
            s.sleep(1e-6, 'let.env.park')
            ex.frozen = False
            s.frozen = False
        if cfg['flavour'] == 'cf':
            ex.log('call', 'open_link')
            try:
                cf.open_link('sim://0')
                ex.log('ret', 'open_link')
            except Exception as e:  # noqa
                ex.log('raise', 'open_link', type(e).__name__ + ':' + str(e)[:60])
            s.lazy_point('user.close', timeout=cfg.get('close_after', 1.0))
            ex.log('call', 'close_link')
            try:
                cf.close_link()
                ex.log('ret', 'close_link')
            except Exception as e:  # noqa
                ex.log('raise', 'close_link', type(e).__name__ + ':' + str(e)[:60])
        else:
            scf = SyncCrazyflie('sim://0', cf=cf)
            info['scf'] = scf
            ex.log('call', 'scf.open_link')
            try:
                scf.open_link()
                ex.log('ret', 'scf.open_link')
            except Exception as e:  # noqa
                ex.log('raise', 'scf.open_link', type(e).__name__)
                if cfg.get('retry'):
                    # the application tries again at once on the same object
                    ex.log('call', 'scf.open_link(retry)')
                    try:
                        scf.open_link()
                        ex.log('ret', 'scf.open_link(retry)')
                    except Exception as e2:  # noqa
                        ex.log('raise', 'scf.open_link', type(e2).__name__)
            s.lazy_point('user.close', timeout=cfg.get('close_after', 1.0))
            ex.log('call', 'scf.close_link')
            try:
                scf.close_link()
                ex.log('ret', 'scf.close_link')
            except Exception as e:  # noqa
                ex.log('raise', 'scf.close_link', type(e).__name__ + ':' + str(e)[:60])
        s.sleep(2.5, 'settle')
        info['state1'] = (cf.state, cf.link is None, cf.incoming.is_alive() if cf.incoming.ident is not None or getattr(
            cf.incoming, '_vf_vt', None) is not None else None)
        ex.log('session2')
        ex.freeze()
        # ---- fault-free second session on the same object ----
        if cfg['flavour'] == 'cf':
            flag = {}
            cb = lambda uri: flag.__setitem__('f', 1)  # noqa
            cf.fully_connected.add_callback(cb)
            cf.open_link('sim://0')
            ex.wait_for(lambda: 'f' in flag, 6.0, 'wait.session2')
            info['s2_full'] = 'f' in flag
            info['values2'] = {g: dict(v) for g, v in cf.param.values.items()}
            cf.close_link()
        else:
            scf = info['scf']
            try:
                scf.open_link()
                scf.wait_for_params()
                info['s2_full'] = True
                info['values2'] = {g: dict(v) for g, v in cf.param.values.items()}
                scf.close_link()
            except Exception as e:  # noqa
                info['s2_full'] = False
                info['s2_exc'] = repr(e)
        s.sleep(0.5, 'settle2')
        info['state2'] = (cf.state, cf.link is None)

    ex.run(main)
    _judge(p, cfg, devs, ex, info, dev)
    return p, ex.ch.ns, ex.ch.labels


def _fclass(ex):
    kinds = set()
    for (_, a, l) in ex.ch.taken:
        if l == 'send_fault':
            kinds.add('sendfault')
        elif l.startswith('L:'):
            kinds.add('line')
        else:
            kinds.add('sched')
    names = [t.name for t in ex.s.threads]
    for ev in ex.events:
        if ev[1] == 'fault':
            kinds.add('fault:' + ev[2])
    return '+'.join(sorted(kinds)) or 'none'


def _judge(p, cfg, devs, ex, info, dev):
    from cflib.crazyflie import State
    s = ex.s
    ev = ex.events
    cname = cfg['name']
    fclass = _fclass(ex)
    rp = {'cfg': cfg, 'devs': list(devs)}
    cut = next((i for i, e in enumerate(ev) if e[1] == 'session2'), len(ev))
    ev1, ev2 = ev[:cut], ev[cut + 1:]
    ev1_all = ev1
    stale = ''
    if cfg.get('retry'):
        # the application retried at once: the grammar clauses are judged on the last attempt of session 1 (the earlier
        # one ended with the exception that made the application retry); liveness and session 2 are judged as always
        starts = [i for i, e in enumerate(ev1) if e[1] == 'cb' and e[2] == 'connection_requested']
        if len(starts) > 1 and not info.get('errpath_seen'):
            # the error path cannot be observed (private name changed): which attempt a late notification belongs to is
            # unknown, so only liveness and the second session are judged for this execution
            ev1 = [e for e in ev1 if e[1] not in ('cb', 'disc_begin', 'fault')] + [
                (0.0, 'cb', 'connection_requested', 'main')]
            info.pop('tables', None)
            info.pop('values', None)
        elif len(starts) > 1:
            sp = starts[-1] - 1 if starts[-1] > 0 and ev1[starts[-1] - 1][1] == 'call' else starts[-1]
            # a thread still inside the error path of the failed attempt when the application retries keeps delivering
            # that attempt's notifications: they belong to the failed attempt, not to the new one
            old_err = set()
            for e in ev1[:sp]:
                if e[1] == 'errpath_begin':
                    old_err.add(e[2])
                elif e[1] == 'errpath_end':
                    old_err.discard(e[2])
            # did the dispatcher hold a packet of the failed attempt's link when the application retried?
            lastrx = [e for e in ev1[:sp] if e[1] in ('rx', 'rxwait')][-1:]
            # (in its hands already, or taken from that link's queue afterwards - it was blocked in its receive call)
            old_links = set(e[2] for e in ev1[:sp] if e[1] in ('rx', 'rxwait'))
            new_links = set(e[2] for e in ev1[sp:] if e[1] == 'rxwait') - old_links
            late_old = any(e[1] == 'rx' and e[2] in old_links and e[2] not in new_links for e in ev1[sp:])
            stale = ':dispatcher_held_packet_of_failed_attempt' if (lastrx and lastrx[0][1] == 'rx') or late_old else ''
            keep = []
            for e in ev1[sp:]:
                if e[1] == 'errpath_end':
                    old_err.discard(e[2])
                if old_err and ((e[1] == 'cb' and e[3] in old_err) or (e[1] == 'disc_begin' and e[2] in old_err)):
                    continue
                keep.append(e)
            ev1 = keep
    cbs1 = [(e[2], e[3]) for e in ev1 if e[1] == 'cb']
    names1 = [c[0] for c in cbs1]
    trace = [(e[1], e[2]) + tuple(e[3:4]) for e in ev1_all if e[1] not in ('rx', 'rxwait', 'reg', 'errpath_begin', 'errpath_end')]
    when_close_early = any(l == 'user.close' for (_, a, l) in ex.ch.taken)

    def viol(clause, what):
        p.violation('life:%s%s|%s|%s' % (clause, stale, cfg['flavour'], fclass),
                    '%s devs=%r [%s]: %s; session-1 trace: %r' % (cname, devs, fclass, what, trace[-(24 if cfg.get('retry') else 14):]), rp)

    outcome = (s.status, tuple(names1), bool(s.died))
    p.case(key=(cname, tuple(devs)), nontrivial=bool(devs), outcome=outcome,
           sample={'config': cname, 'deviations': [(i, a, l) for (i, a, l) in ex.ch.taken],
                   'session1_callbacks': names1, 'status': s.status}
           if (not devs or (hash((cname, tuple(devs))) % 41 == 0)) else None)

    if cfg.get('prior') and not info.get('s0_full'):
        viol('prior_session_incomplete', 'the fault-free session before the explored one did not reach fully_connected')
    # (4) liveness
    if s.died:
        d = s.died[0]
        viol('thread_died:%s:%s' % (d[0].split(':')[0], d[1].split('(')[0]),
             'library thread %s died with %s' % (d[0], d[1]))
    if s.status != 'ok':
        blocked = [(b['thread'], b['label'], b['stack'][-3:]) for b in (s.blocked_report or [])
                   if b['state'] == 'blocked' and not b['thread'].startswith(('env', 'delayed'))]
        who = sorted(set(b[2][-1].split(' ')[-1] if b[2] else b[0] for b in blocked if b[1] not in (
            'time.sleep', 'queue.get(blocked)', 'timer.wait', 'settle')))
        mainb = [b for b in (s.blocked_report or []) if b['thread'] == 'main']
        where = (mainb[0]['stack'][-2:] if mainb else [])
        idle = {('_ParamUpdater', 'queue.get(blocked)'), ('_IncomingPacketHandler', 'time.sleep'),
                ('_IncomingPacketHandler', 'queue.get(blocked)'), ('_ExtendedTypeFetcher', 'queue.get(blocked)')}
        others = sorted(set('%s@%s' % (b['thread'].split(':')[0], b['label'].replace('(blocked)', ''))
                            for b in (s.blocked_report or [])
                            if b['thread'] != 'main' and not b['thread'].startswith(('env', 'delayed'))
                            and (b['thread'].split(':')[0], b['label']) not in idle and b['state'] != 'done'))
        # a progress callback delivered by the dispatcher after the disconnect had begun (known finding) can restart what
        # the teardown has just stopped: such hangs are keyed separately
        k_ = [e[1] if e[1] != 'cb' else e[2] for e in ev1]
        late_conn = 'disc_begin' in k_ and any(x in ('connected', 'link_established') for x in k_[k_.index('disc_begin'):])
        viol('%s:%s:%s%s' % ('hang' if s.status == 'timelimit' else 'deadlock',
                             '/'.join(x.split(' ')[-1] for x in where) or 'main', '+'.join(others) or 'nobody',
                             ':after_late_progress' if late_conn else ''),
             'user call did not complete (%s); main blocked at %r; other blocked threads: %r' % (s.status, where, blocked[:4]))
        return
    for e in ev1:
        if e[1] == 'raise' and e[2] != 'scf.open_link':
            viol('user_call_raised:%s:%s' % (e[2], e[3].split(':')[0]), '%s raised %s' % (e[2], e[3]))
    # (1) grammar
    if not names1 or names1[0] != 'connection_requested' or names1.count('connection_requested') != 1:
        viol('no_single_connection_requested', 'callbacks %r' % (names1,))
    prog = [n for n in names1 if n in PROGRESS]
    if prog != list(PROGRESS[:len(prog)]):
        viol('progress_order:' + '>'.join(prog), 'progress callbacks %r are not a prefix of %r' % (prog, PROGRESS))
    nfail = names1.count('connection_failed')
    if nfail > 1 or (nfail and 'link_established' in names1[:names1.index('connection_failed')]):
        viol('connection_failed_misplaced', 'callbacks %r' % (names1,))
    _k = [e[1] if e[1] != 'cb' else e[2] for e in ev1]
    conn_before_disc = 'connected' in _k and 'disc_begin' not in _k[:_k.index('connected')]
    for ok_tables in info.get('tables', [])[:1]:
        if not all(ok_tables) and conn_before_disc:
            viol('connected_with_incomplete_tables', 'tables at connected equal device: log=%r param=%r' % ok_tables)
    if 'fully_connected' in names1 and info.get('values') and info['values'][0]:
        viol('fully_connected_with_missing_values', 'parameters without a value: %r' % (info['values'][0][:3],))
    # (2) counts
    faults = [e for e in ev1 if e[1] == 'fault']
    ncalls_close = sum(1 for e in ev1 if e[1] in ('ret', 'raise') and e[2] in ('close_link',))
    if cfg['flavour'] == 'scf':
        # SyncCrazyflie.close_link calls cf.close_link only when it believes the link is open
        ncalls_close = None
    ndisc = names1.count('disconnected')
    nlost = names1.count('connection_lost')
    if faults:
        fi = ev1.index(faults[0])
        established_before = any(e[1] == 'cb' and e[2] == 'link_established' for e in ev1[:fi])
        rx_before = faults[0][3] if len(faults[0]) > 3 else None
        # A close_link that overlaps the handling of the fault (called before the error path delivered anything, or
        # the fault hit while close_link was running) may be ordered before the fault: the error then finds the
        # object already DISCONNECTED (disconnected_link_error) - both readings are accepted.
        overlap = False
        for ci, e in enumerate(ev1):
            if e[1] == 'call' and e[2] in ('close_link', 'scf.close_link'):
                ri = next((j for j in range(ci, len(ev1)) if ev1[j][1] in ('ret', 'raise') and ev1[j][2] == e[2]), len(ev1))
                first_effect = next((j for j in range(fi, len(ev1)) if ev1[j][1] in ('disc_begin',) or (
                    ev1[j][1] == 'cb' and ev1[j][2] in ('connection_failed', 'connection_lost', 'disconnected_link_error')
                    )), len(ev1))
                if ci <= fi <= ri or fi <= ci <= first_effect:
                    overlap = True
        if overlap and 'disconnected_link_error' in names1:
            if nlost or nfail or (ncalls_close is not None and ndisc != ncalls_close):
                viol('fault_overlapping_close:inconsistent', 'callbacks %r' % (names1,))
        elif established_before:
            if nlost != 1:
                viol('fault_after_first_packet:connection_lost_x%d' % nlost,
                     'link failed after link_established but connection_lost was delivered %d times' % nlost)
            else:
                li = names1.index('connection_lost')
                if 'disconnected' not in names1[:li]:
                    viol('connection_lost_without_prior_disconnected', 'callbacks %r' % (names1,))
            if nfail:
                viol('fault_after_first_packet:connection_failed', 'callbacks %r' % (names1,))
            if ncalls_close is not None and ndisc != 1 + ncalls_close:
                viol('disconnected_count:%d_expected_%d' % (ndisc, 1 + ncalls_close),
                     'one link failure after the first packet and %d close_link calls but %d disconnected' % (
                         ncalls_close, ndisc))
        else:
            # before link_established: connection_failed (if nothing had arrived) or the lost pair
            if not ((nfail == 1 and nlost == 0) or (nfail == 0 and nlost == 1)):
                viol('fault_before_established:failed_x%d_lost_x%d' % (nfail, nlost),
                     'link failed before link_established: connection_failed x%d, connection_lost x%d' % (nfail, nlost))
    else:
        if nlost:
            viol('connection_lost_without_fault', 'callbacks %r' % (names1,))
        if ncalls_close is not None and ndisc != ncalls_close:
            viol('disconnected_count:%d_expected_%d' % (ndisc, ncalls_close),
                 '%d close_link calls and no link failure but %d disconnected' % (ncalls_close, ndisc))
    # (3) nothing after the first disconnected (counted from the instant its notification starts)
    kinds = [e[1] if e[1] != 'cb' or e[2] != 'connection_failed' else 'disc_begin' for e in ev1]
    inflight = None
    late = []
    if 'disc_begin' in kinds:
        di = kinds.index('disc_begin')
        late = [(i, e) for i, e in enumerate(ev1) if i > di and e[1] == 'cb' and e[2] in PROGRESS]
        if late:
            i0, e0 = late[0]
            by = e0[3].split(':')[0]
            inflight = by == '_IncomingPacketHandler'
            # how did the dispatcher come by the packet it is still handling?  'inflight': it had taken it before the
            # disconnect began (the known finding: dispatch is not excluded from teardown); otherwise it took it from
            # the link afterwards
            how = ''
            if inflight:
                rxs = [i for i, e in enumerate(ev1) if e[1] == 'rx' and i < i0]
                how = ':inflight' if rxs and rxs[-1] < di else ':taken_after_disconnect_began'
            viol('progress_after_disconnected:%s:by%s%s' % ('+'.join(e[2] for _, e in late), by, how),
                 'callbacks %r' % (names1,))
    # (4b) reached disconnected
    st = info.get('state1')
    if st is not None:
        if st[0] != State.DISCONNECTED or not st[1]:
            why = ''
            if st[0] == State.CONNECTED and inflight and any(e[2] == 'link_established' for _, e in late):
                why = ':set_by_inflight_first_packet'
            viol('not_disconnected_after_settle:state%d_linknone%s%s' % (st[0], st[1], why),
                 '2.5 s after the last close/fault: state=%r, link is None=%r' % (st[0], st[1]))
        if st[2] is False:
            viol('dispatcher_dead', 'Crazyflie.incoming is not alive')
    # (5) second session
    names2 = [e[2] for e in ev2 if e[1] == 'cb']
    prog2 = [n for n in names2 if n in PROGRESS]
    if info.get('s2_full') and (prog2 != list(PROGRESS) or names2.count('connection_requested') != 1):
        k1 = [e[1] for e in ev1]
        late_reg = 'disc_begin' in k1 and any(e[1] == 'reg' and e[3].startswith('_IncomingPacketHandler')
                                              for e in ev1[k1.index('disc_begin'):])
        viol('second_session_grammar:' + '>'.join(prog2) + (':after_late_registration' if late_reg else ''),
             'fault-free second session delivered %r%s' % (names2, '; in session 1 the dispatcher registered a packet callback '
                                                          'after the disconnect had begun' if late_reg else ''))
    if not info.get('s2_full'):
        names2 = [e[2] for e in ev2 if e[1] == 'cb']
        viol('second_session_incomplete:' + (names2[-1] if names2 else 'nothing') + (
            ':' + info['s2_exc'].split("'")[1][:30] if "'" in info.get('s2_exc', '') else ''),
             'fault-free second session did not reach fully_connected: callbacks %r %s' % (names2, info.get('s2_exc', '')))
    else:
        exp = {}
        for v in dev.params:
            exp.setdefault(v.group, {})[v.name] = str(v.value)
        if info.get('values2') != exp:
            viol('second_session_values', 'values after second session %r, device %r' % (info.get('values2'), exp))
        st2 = info.get('state2')
        if st2 and (st2[0] != State.DISCONNECTED or not st2[1]):
            viol('second_session_not_disconnected', 'state %r' % (st2,))


def _cfg(name, flavour='cf', proto=10, **kw):
    d = dict(name=name, flavour=flavour, proto=proto)
    d.update(kw)
    return d


def configs(quick):
    out = [
        _cfg('cf:p10', 'cf', 10, send_fault=True),
        _cfg('scf:p10', 'scf', 10, send_fault=True),
        _cfg('cf:p3', 'cf', 3, send_fault=True, nparam=1),
        _cfg('cf:p10:mem', 'cf', 10, send_fault=True, mems=1, nlog=0, nparam=1),
        _cfg('cf:p10:rel', 'cf', 10, send_fault=True, resend=False, nparam=1),
        _cfg('cf:p10:hello', 'cf', 10, send_fault=True, nlog=0, nparam=1, hello=True),
        _cfg('cf:p10:hello:eager', 'cf', 10, send_fault=True, nlog=0, nparam=1, hello=True, eager=True),
        _cfg('scf:p10:hello:eager', 'scf', 10, send_fault=True, nlog=0, nparam=1, hello=True, eager=True),
        _cfg('cf:p10:unsol', 'cf', 10, unsol=True, driver_fault=False, send_fault=False),
        # the notification is about the parameter that is read first (it repeats a value the download already has)
        _cfg('cf:p10:unsol0', 'cf', 10, unsol=True, unsol_param=0, driver_fault=False, send_fault=False),
        # the same on an object that has had a complete session before (state carried from one connection to the next)
        _cfg('cf:p10:unsol:after_session', 'cf', 10, unsol=True, driver_fault=False, send_fault=False, prior=True),
        _cfg('cf:p10:unsol0:after_session', 'cf', 10, unsol=True, unsol_param=0, driver_fault=False, send_fault=False, prior=True),
        _cfg('cf:p10:min:after_session', 'cf', 10, send_fault=True, nlog=0, nparam=1, prior=True),
        _cfg('scf:p10:min:after_session', 'scf', 10, send_fault=True, nlog=0, nparam=1, prior=True),
        _cfg('scf:p10:retry', 'scf', 10, nlog=0, nparam=1, retry=True),
        _cfg('scf:p10:retry:handoff', 'scf', 10, nlog=0, nparam=1, retry=True, policy='handoff'),
        _cfg('cf:p10:hello:handoff', 'cf', 10, send_fault=True, nlog=0, nparam=1, hello=True, policy='handoff'),
        _cfg('scf:p10:handoff', 'scf', 10, send_fault=True, nlog=0, nparam=1, policy='handoff'),
        # two parameter reads in flight / queued when the user closes; the thread that a release wakes runs at once
        _cfg('cf:p10:2params:handoff', 'cf', 10, nlog=0, nparam=2, policy='handoff', driver_fault=False),
        # slow answers: a reply exactly at the retry instant, just after it, or lost (retry timers fire during the
        # handshake)
        _cfg('cf:p10:slow', 'cf', 10, nlog=0, nparam=1, menu=('once', 'delay0.2', 'delay0.25', 'drop'), driver_fault=False),
        _cfg('scf:p10:slow', 'scf', 10, nlog=0, nparam=1, menu=('once', 'delay0.2', 'drop'), driver_fault=False),
    ]
    return out


def configs_deep():
    return [_cfg('cf:p10:min', 'cf', 10, send_fault=True, nlog=0, nparam=1),
            _cfg('scf:p10:min', 'scf', 10, send_fault=True, nlog=0, nparam=1)]


def configs_lines():
    return [_cfg('cf:p10:lines', 'cf', 10, lines=True, nlog=0, nparam=1, send_fault=False, hello=True),
            _cfg('scf:p10:lines', 'scf', 10, lines=True, nlog=0, nparam=1, send_fault=False, hello=True)]


def _close_filter(devs, i, alt, label):
    if not devs:
        return any(a == alt and nm == 'user.close' for a, nm in getattr(label, 'lazy', ()))
    return i <= devs[0][0] + 30


def _env_filter(devs, i, alt, label):
    return not devs and any(a == alt for a, nm in getattr(label, 'lazy', ()))


def _slow_filter(devs, i, alt, label):
    if not devs:
        return label.startswith('reply:')
    return i <= devs[0][0] + 60 and not label.startswith('reply:')


def _focus_filter(devs, i, alt, label):
    if not devs:
        return True
    return label.startswith('L:') and i <= devs[0][0] + 25


def run(ck):
    cfh.setup()
    ck.rule = ('configurations (API flavour, protocol generation, memories, link kind) x deviation vectors; deviations: '
               'driver-thread link error at any scheduling point, link error inside send_packet at any transmission, '
               'user close_link at any point, any other runnable thread at any synchronisation point (line-level '
               'configurations: every line of 17 named functions); each execution = faulty session + settle + '
               'fault-free second session (four configurations: preceded by a complete fault-free session on the same object); non-trivial = at least one deviation')
    ck.assume('SimLink mirrors RadioDriver: error callback from the driver thread or from inside send_packet on the '
              'caller thread; close() clears the callback')
    ck.assume('virtual time: a running library thread is infinitely fast relative to timers at other instants')
    r = explore(ck, exec_c02, configs(ck.quick), 1)
    ck.note('sync_point_exploration', r)
    r2 = explore(ck, exec_c02, configs_lines(), 1)
    ck.note('line_level_exploration', r2)
    # a slow answer (at / just after the retry instant, or lost) plus one thread switch within the next 60 points: the
    # retry timer racing with the dispatcher that handles the late answer
    slow = [_cfg('cf:p10:slow:focus2', 'cf', 10, nlog=0, nparam=1, menu=('once', 'delay0.2', 'drop'), driver_fault=False)]
    r5 = explore(ck, exec_c02, slow, 2, child_filter=_slow_filter, max_execs=1500000)
    ck.note('slow_answer_plus_one_switch', r5)
    # the link is lost (or the user closes) at any line, and the interrupted thread stays paused until the error path has
    # run to its end with whatever other threads it needs (scheduling policy env_first): one deviation reaches "the whole
    # disconnect happened between these two lines"
    ef = [dict(c, name=c['name'] + ':env_first', policy='env_first') for c in configs_lines()]
    r7 = explore(ck, exec_c02, ef, 1, child_filter=_env_filter)
    ck.note('environment_event_handled_completely_at_any_line', r7)
    if not ck.quick:
        r3 = explore(ck, exec_c02, configs_deep(), 2, max_execs=1500000)
        ck.note('two_deviation_exploration', r3)
        # focused: any first deviation (fault / close / switch at any line), then one more switch at a line of the traced
        # functions within the next 25 points - the interleaving of an error or close path with the other threads
        r4 = explore(ck, exec_c02, [dict(c, name=c['name'] + ':focus2') for c in configs_lines()], 2,
                     child_filter=_focus_filter, max_execs=2500000)
        ck.note('focused_two_deviations_line_level', r4)
        # the user closes at any point and one more switch follows within 30 points (close racing with the updater /
        # dispatcher hand-overs), default and hand-off schedules
        cl = [_cfg('cf:p10:2params:close+1', 'cf', 10, nlog=0, nparam=2, driver_fault=False),
              _cfg('cf:p10:2params:handoff:close+1', 'cf', 10, nlog=0, nparam=2, policy='handoff', driver_fault=False),
              _cfg('scf:p10:2params:handoff:close+1', 'scf', 10, nlog=0, nparam=2, policy='handoff', driver_fault=False)]
        r6 = explore(ck, exec_c02, cl, 2, child_filter=_close_filter, max_execs=2500000)
        ck.note('close_plus_one_switch', r6)
    ck.exhaustive = True


def replay(ck, data):
    cfh.setup()
    p, ns, labels = exec_c02(data['cfg'], tuple(tuple(d) for d in data['devs']))
    ck.merge(p)
    print('config %s deviations %r -> %d choice points' % (data['cfg']['name'], data['devs'], len(ns)))
    for v in p.violations:
        print(' ', v['sig'], '::', v['what'])
