"""C11 — the TOC cache never yields a wrong table, even after a crash.

Crash model: the cache file is written with open('w') / write / close (no sync, no rename), so
after a crash it is a prefix of the intended content.  Enumerated: every prefix length of the
cache files of a set of tables (fetch level: all; connect level: all for small tables, a stride
plus both ends for larger ones), unparsable / non-UTF-8 / directory-instead-of-file entries,
checksum values next to the stored one, a log/param checksum collision in both storing orders,
and the combinations of read-only / read-write directories.
"""
import hashlib
import os
import tempfile

from vf import cfh, simcf
from vf.core import Partial

ID = 'C11'
LEVEL = 'fault_enumeration'

LOG_CODES = [1, 2, 3, 4, 5, 6, 7, 8]
PARAM_CODES = [0x08, 0x09, 0x0A, 0x0B, 0x00, 0x01, 0x02, 0x03, 0x06, 0x07]


def _log_table(n, tag='l'):
    out = []
    for i in range(n):
        g = 'g\xe9%d' % (i // 3) if i % 5 == 4 else 'grp%d' % (i // 3)
        out.append(simcf.LogVar(g, '%s%d' % (tag, i), LOG_CODES[i % 8]))
    return out


def _param_table(n, ext=False, fp16=False):
    out = []
    codes = PARAM_CODES + ([0x05] if fp16 else [])     # half-float parameters: in tables that are never read for values
    for i in range(n):
        g = 'p\xf8%d' % (i // 3) if i % 5 == 3 else 'pg%d' % (i // 3)
        out.append(simcf.ParamVar(g, 'p%d' % i, codes[i % len(codes)], value=i % 50, ro=(i % 4 == 1),
                                  extended=ext and (i % 2 == 0), persistent=ext and (i % 4 == 0)))
    return out


def _device(nlog, nparam, log_crc, param_crc, ext=False, fp16=False):
    return simcf.SimCF(protocol=10, log=_log_table(nlog), params=_param_table(nparam, ext, fp16), log_crc=log_crc,
                       param_crc=param_crc)


def _elements_from_device(dev, which):
    """Build the toc dict exactly as the library does after a download (real element classes fed with wire bytes)."""
    from cflib.crazyflie.log import LogTocElement
    from cflib.crazyflie.param import ParamTocElement
    from cflib.crazyflie.toc import Toc
    toc = Toc()
    if which == 'log':
        for i in range(len(dev.log)):
            toc.add_element(LogTocElement(i, bytearray(dev._log_item(i))))
    else:
        for i in range(len(dev.params)):
            toc.add_element(ParamTocElement(i, bytearray(dev._param_item(i))))
    return toc.toc


def _fp(tocdict):
    out = {}
    for g, names in tocdict.items():
        for n, e in names.items():
            out[(g, n)] = (type(e).__name__, e.ident, e.group, e.name, e.ctype, e.pytype, e.access,
                           getattr(e, 'extended', None))
    return out


def _tree_hash(d):
    out = []
    for root, dirs, files in os.walk(d):
        dirs.sort()
        for f in sorted(files):
            pth = os.path.join(root, f)
            with open(pth, 'rb') as fh:
                out.append((os.path.relpath(pth, d), hashlib.sha1(fh.read()).hexdigest()))
        for dd in dirs:
            out.append((os.path.relpath(os.path.join(root, dd), d) + '/', ''))
    return out


# ---------------------------------------------------------------------------------------------
# fetch level
# ---------------------------------------------------------------------------------------------
def part_fetch(job):
    from cflib.crazyflie.toccache import TocCache
    which, n, ext, lo, hi = job
    p = Partial()
    dev = _device(n if which == 'log' else 1, n if which == 'param' else 1, 0x1234ABCD, 0x0BADF00D, ext, fp16=True)
    crc = 0x1234ABCD if which == 'log' else 0x0BADF00D
    stored = _elements_from_device(dev, which)
    ref = _fp(stored)
    with tempfile.TemporaryDirectory() as d0:
        TocCache(rw_cache=d0).insert(crc, stored)
        written = sorted(os.listdir(d0))
        if len(written) != 1:
            p.violation('cache:insert_wrote_nothing', 'insert(%08X) left %r in the rw directory' % (crc, written), {'part': 'fetch', 'job': list(job)})
            return p
        cname = written[0]
        with open(os.path.join(d0, cname), 'rb') as fh:
            full = fh.read()
    hi = min(hi, len(full))
    dctx = tempfile.TemporaryDirectory()
    d = dctx.name
    for k in list(range(lo, hi + 1)) + ([len(full)] if hi < len(full) and lo == 0 else []):
        if True:
            with open(os.path.join(d, cname), 'wb') as fh:
                fh.write(full[:k])
            try:
                got = TocCache(rw_cache=d).fetch(crc)
                err = None
            except Exception as e:  # noqa
                got, err = None, e
            cls = 'full' if k == len(full) else 'empty' if k == 0 else 'prefix'
            p.case(key=(which, n, ext, k), outcome=(cls, got is None),
                   sample={'table': '%s x%d%s' % (which, n, ' ext' if ext else ''), 'file_bytes': len(full), 'cut_at': k,
                           'fetch': 'None' if got is None else '%d groups' % len(got)} if k in (0, len(full) // 2, len(full)) else None)
            rp = {'part': 'fetch', 'which': which, 'n': n, 'ext': ext, 'cut': k}
            if err is not None:
                p.violation('cache:fetch_raises:%s' % cls, 'fetch of a cache file cut at byte %d/%d raised %r' % (k, len(full), err), rp)
            elif got is not None and _fp(got) != ref:
                p.violation('cache:partial_or_wrong_table:%s' % cls, 'cache file (%s table, %d entries) cut at byte %d/%d: fetch returned '
                            '%d entries %r.., stored were %d' % (which, n, k, len(full), len(_fp(got)), sorted(_fp(got))[:2], len(ref)), rp)
            elif k == len(full) and n > 0 and got is None:
                p.violation('cache:complete_file_missed', 'complete cache file was not loaded', rp)
    dctx.cleanup()
    return p


def part_odd_files(_):
    from cflib.crazyflie.toccache import TocCache
    cfh.setup()
    p = Partial()
    crc = 0x1234ABCD
    dev = _device(3, 1, crc, 1)
    stored = _elements_from_device(dev, 'log')
    contents = {
        'garbage': b'\x00\x01\x02not json at all',
        'non_utf8': b'{"a": "\xff\xfe\xfd"}',
        'json_list': b'[1, 2, 3]',
        'json_scalar': b'42',
        'wrong_class': b'{"g": {"n": {"__class__": "os.system", "ident": 0, "group": "g", "name": "n", "ctype": "x", "pytype": "<B", "access": 0}}}',
        'missing_field': b'{"g": {"n": {"__class__": "LogTocElement", "ident": 0}}}',
        'truncated_unicode': '{"gé'.encode('utf-8')[:-1],
    }
    for name, content in contents.items():
        with tempfile.TemporaryDirectory() as d:
            with open(os.path.join(d, '%08X.json' % crc), 'wb') as fh:
                fh.write(content)
            try:
                got = TocCache(rw_cache=d).fetch(crc)
                err = None
            except BaseException as e:  # noqa
                got, err = None, e
            p.case(key=('odd', name), outcome=(name, got is None))
            usable = isinstance(got, dict) and all(isinstance(v, dict) for v in got.values()) and got
            if err is not None or usable:
                p.violation('cache:unparsable_file:%s' % name, 'cache file with %s content: fetch returned %r / raised %r' % (
                    name, got, err), {'part': 'odd', 'name': name})
    with tempfile.TemporaryDirectory() as d:
        os.mkdir(os.path.join(d, '%08X.json' % crc))
        try:
            got = TocCache(rw_cache=d).fetch(crc)
            err = None
        except Exception as e:  # noqa
            got, err = None, e
        p.case(key=('odd', 'directory'), outcome=('directory', got is None))
        if err is not None or got is not None:
            p.violation('cache:unparsable_file:directory', 'directory in place of the cache file: %r / %r' % (got, err), {'part': 'odd', 'name': 'directory'})
    # the same odd entries at connect level: the connection must complete with downloaded tables
    for name, content in list(contents.items()) + [('json_dict_of_scalars', b'{"a": 1, "b": 2}'), ('json_nested_empty', b'{"a": {}}')]:
        dev2 = _device(3, 2, crc, 0x0BADF00D)
        with tempfile.TemporaryDirectory() as d:
            with open(os.path.join(d, '%08X.json' % crc), 'wb') as fh:
                fh.write(content)
            snap = _connect_once(dev2, {'rw_cache': d})
            p.case(key=('odd-connect', name), outcome=(name, snap.get('n')))
            if snap['status'] != 'ok' or snap.get('n') != 1 or snap.get('log') != cfh.device_log_fingerprint(dev2) or \
                    snap.get('param') != cfh.device_param_fingerprint(dev2):
                p.violation('cache:unparsable_file_breaks_connect:%s' % name, 'cache file with %s content: connect gave status=%s '
                            'connected x%r log entries=%r' % (name, snap['status'], snap.get('n'), len(snap.get('log') or ())),
                            {'part': 'odd-connect', 'name': name})
    # neighbouring checksums must miss
    with tempfile.TemporaryDirectory() as d:
        TocCache(rw_cache=d).insert(crc, stored)
        near = [crc ^ (1 << b) for b in range(32)] + [crc >> 4, (crc << 4) & 0xFFFFFFFF, crc & 0xFFFF, crc & 0xFFFFFF, 0, 0xFFFFFFFF,
                                                       int('%08X' % crc, 16) ^ 0xA]
        near += [0x0034ABCD, 0x0000ABCD, 0x000000CD, 0x0234ABCD]
        for other in near:
            if other == crc:
                continue
            got = TocCache(rw_cache=d).fetch(other)
            p.case(key=('near', other), outcome=('near', got is None))
            if got is not None:
                p.violation('cache:hit_on_other_checksum', 'table stored under %08X was returned for checksum %08X' % (crc, other),
                            {'part': 'near', 'other': other})
        got = TocCache(rw_cache=d).fetch(crc)
        if got is None or _fp(got) != _fp(stored):
            p.violation('cache:roundtrip', 'table stored under %08X does not load back equal' % crc, {'part': 'near'})
    return p


# ---------------------------------------------------------------------------------------------
# connect level
# ---------------------------------------------------------------------------------------------
def _connect_once(dev, kw):
    """One real connect (controlled scheduler, default schedule).  Returns snapshot dict."""
    from cflib.crazyflie import Crazyflie
    ex = cfh.Exec((), dev, time_limit=60.0, reply_menu=('once',), needs_resending=True)
    ex.freeze()
    snap = {}

    def main():
        cf = Crazyflie(**kw)

        def on_connected(uri):
            snap['n'] = snap.get('n', 0) + 1
            snap['log'] = cfh.toc_fingerprint(cf.log.toc) if cf.log.toc is not None else None
            snap['param'] = cfh.toc_fingerprint(cf.param.toc)
            snap['log_cls'] = sorted(set(type(e).__name__ for g in cf.log.toc.toc.values() for e in g.values())) if cf.log.toc else []
            snap['param_cls'] = sorted(set(type(e).__name__ for g in cf.param.toc.toc.values() for e in g.values()))
        cf.connected.add_callback(on_connected)
        cf.connection_failed.add_callback(lambda *a: snap.__setitem__('failed', a))
        cf.open_link('sim://0')
        ex.wait_for(lambda: 'n' in snap or 'failed' in snap, 20.0, 'wait.connected')
        cf.link_statistics.stop()
        ex.s.sleep(0.3)
        cf.close_link()
    ex.run(main)
    snap['status'] = ex.s.status
    snap['died'] = ex.s.died[:1]
    snap['elem_requests'] = {port: sum(1 for r in dev.rx if r[1] == port and r[2] == 0 and r[3][:1] in (b'\x00', b'\x02'))
                             for port in (2, 5)}
    return snap


def part_connect(job):
    from cflib.crazyflie.toccache import TocCache
    cfh.setup()
    which, n, cuts = job
    p = Partial()
    log_crc, param_crc = 0x1234ABCD, 0x0BADF00D
    nlog, nparam = (n, 2) if which == 'log' else (2, n)
    crc = log_crc if which == 'log' else param_crc
    dev0 = _device(nlog, nparam, log_crc, param_crc)
    stored = _elements_from_device(dev0, which)
    with tempfile.TemporaryDirectory() as d0:
        TocCache(rw_cache=d0).insert(crc, stored)
        written = sorted(os.listdir(d0))
        if len(written) != 1:
            p.violation('cache:insert_wrote_nothing', 'insert(%08X) left %r in the rw directory' % (crc, written), {'part': 'connect', 'job': list(job)})
            return p
        cname = written[0]
        with open(os.path.join(d0, cname), 'rb') as fh:
            full = fh.read()
    if cuts == 'all':
        ks = list(range(len(full) + 1))
    else:
        step = max(1, len(full) // cuts)
        ks = sorted(set(list(range(0, len(full), step)) + [1, 2, len(full) - 2, len(full) - 1, len(full)]))
    for k in ks:
        dev = _device(nlog, nparam, log_crc, param_crc)
        with tempfile.TemporaryDirectory() as d:
            fname = os.path.join(d, cname)
            with open(fname, 'wb') as fh:
                fh.write(full[:k])
            snap = _connect_once(dev, {'rw_cache': d})
            cls = 'full' if k == len(full) else 'empty' if k == 0 else 'prefix'
            p.case(key=(which, n, k), outcome=(cls, snap.get('n'), snap['elem_requests'][5 if which == 'log' else 2] > 0),
                   sample={'table': '%s x%d' % (which, n), 'cut_at': k, 'file_bytes': len(full), 'connected': snap.get('n'),
                           'element_requests': snap['elem_requests']} if k in (0, ks[len(ks) // 2], len(full)) else None)
            rp = {'part': 'connect', 'which': which, 'n': n, 'cut': k}
            if snap['status'] != 'ok' or snap['died'] or snap.get('n') != 1:
                p.violation('cache:connect_failed:%s' % cls, 'cache file cut at %d/%d: connection did not complete (status %s, '
                            'connected x%r, failed=%r, died=%r)' % (k, len(full), snap['status'], snap.get('n'), snap.get('failed'), snap['died']), rp)
                continue
            if snap.get('log') != cfh.device_log_fingerprint(dev) or snap.get('param') != cfh.device_param_fingerprint(dev):
                p.violation('cache:wrong_table_after_connect:%s' % cls, 'cache file cut at %d/%d: tables after connected differ from '
                            'the device (log %d/%d entries, param %d/%d)' % (k, len(full), len(snap['log'] or ()), len(dev.log),
                                                                            len(snap['param']), len(dev.params)), rp)
            port = 5 if which == 'log' else 2
            if k < len(full) and n > 0 and snap['elem_requests'][port] < n:
                p.violation('cache:truncated_file_not_downloaded', 'cut at %d/%d but only %d element requests' % (
                    k, len(full), snap['elem_requests'][port]), rp)
            if k == len(full) and n > 0 and snap['elem_requests'][port] != 0:
                p.violation('cache:complete_file_not_used', 'complete cache file present but %d element requests were sent' % (
                    snap['elem_requests'][port]), rp)
            try:
                with open(fname, 'rb') as fh:
                    now = fh.read()
            except OSError:
                now = None
            if n > 0 and now != full:
                p.violation('cache:file_not_rewritten:%s' % cls, 'after the connect the cache file is %r bytes, a complete one has %d'
                            % (None if now is None else len(now), len(full)), rp)
    return p


def part_dirs(_):
    """Directory combinations, read-only tree untouched, checksum collision between the two tables."""
    from cflib.crazyflie.toccache import TocCache
    cfh.setup()
    p = Partial()
    log_crc, param_crc = 0x1234ABCD, 0x0BADF00D
    for combo in ('none', 'rw', 'ro', 'both_ro_hit', 'both_rw_hit', 'ro_missing_dir', 'ro_miss', 'both_miss',
                  'both_ro_truncated', 'ro_truncated', 'both_ro_other_kind'):
        dev = _device(3, 4, log_crc, param_crc)
        with tempfile.TemporaryDirectory() as base:
            ro = os.path.join(base, 'ro')
            rw = os.path.join(base, 'rw')
            os.mkdir(ro)
            kw = {}
            if combo in ('ro', 'both_ro_hit'):
                c = TocCache(rw_cache=ro)
                c.insert(log_crc, _elements_from_device(dev, 'log'))
                c.insert(param_crc, _elements_from_device(dev, 'param'))
            if combo in ('ro_miss', 'both_miss'):
                # read-only directory holds tables of another firmware only
                other = _device(2, 2, log_crc ^ 0x10, param_crc ^ 0x10)
                c = TocCache(rw_cache=ro)
                c.insert(log_crc ^ 0x10, _elements_from_device(other, 'log'))
                c.insert(param_crc ^ 0x10, _elements_from_device(other, 'param'))
            if combo in ('both_ro_truncated', 'ro_truncated', 'both_ro_other_kind'):
                # the read-only directory holds an unusable entry for exactly the announced checksums
                tmpd = os.path.join(base, 'tmp')
                os.mkdir(tmpd)
                c = TocCache(rw_cache=tmpd)
                if combo == 'both_ro_other_kind':
                    c.insert(log_crc, _elements_from_device(dev, 'param'))
                    c.insert(param_crc, _elements_from_device(dev, 'log'))
                else:
                    c.insert(log_crc, _elements_from_device(dev, 'log'))
                    c.insert(param_crc, _elements_from_device(dev, 'param'))
                for fn in os.listdir(tmpd):
                    with open(os.path.join(tmpd, fn), 'rb') as fh:
                        content = fh.read()
                    with open(os.path.join(ro, fn), 'wb') as fh:
                        fh.write(content if combo == 'both_ro_other_kind' else content[:len(content) // 2])
            if combo in ('ro', 'both_ro_hit', 'both_rw_hit', 'ro_miss', 'both_miss', 'both_ro_truncated', 'ro_truncated',
                         'both_ro_other_kind'):
                kw['ro_cache'] = ro
            if combo == 'ro_missing_dir':
                kw['ro_cache'] = os.path.join(base, 'does-not-exist')
            if combo in ('rw', 'both_ro_hit', 'both_rw_hit', 'both_miss', 'both_ro_truncated', 'both_ro_other_kind'):
                kw['rw_cache'] = rw
            if combo == 'both_rw_hit':
                os.mkdir(rw)
                c = TocCache(rw_cache=rw)
                c.insert(log_crc, _elements_from_device(dev, 'log'))
                c.insert(param_crc, _elements_from_device(dev, 'param'))
                with open(os.path.join(ro, 'unrelated.json'), 'w') as fh:
                    fh.write('{"x": 1}')
            before = _tree_hash(ro)
            snap = _connect_once(dev, kw)
            after = _tree_hash(ro)
            hit = combo in ('ro', 'both_ro_hit', 'both_rw_hit')
            p.case(key=('dirs', combo), outcome=(combo, snap.get('n'), snap['elem_requests'][5]),
                   sample={'directories': combo, 'connected': snap.get('n'), 'element_requests': snap['elem_requests']})
            rp = {'part': 'dirs', 'combo': combo}
            if before != after:
                p.violation('cache:read_only_dir_written', '%s: read-only cache tree changed: %r -> %r' % (combo, before, after), rp)
            if snap['status'] != 'ok' or snap.get('n') != 1:
                p.violation('cache:connect_failed:dirs', '%s: connection did not complete: %r' % (combo, snap), rp)
                continue
            if snap.get('log') != cfh.device_log_fingerprint(dev) or snap.get('param') != cfh.device_param_fingerprint(dev):
                p.violation('cache:wrong_table_after_connect:dirs', '%s: tables differ from the device' % combo, rp)
            if hit and (snap['elem_requests'][5] or snap['elem_requests'][2]):
                p.violation('cache:complete_file_not_used', '%s: %r element requests despite cache files' % (combo, snap['elem_requests']), rp)
            if combo == 'rw' and sorted(os.listdir(rw)) != ['%08X.json' % param_crc, '%08X.json' % log_crc]:
                p.violation('cache:not_stored', 'rw directory holds %r after a download' % (sorted(os.listdir(rw)),), rp)
            if combo == 'rw':
                # second object: loads what the first one stored, entry for entry
                dev2 = _device(3, 4, log_crc, param_crc)
                snap2 = _connect_once(dev2, {'rw_cache': rw})
                p.case(key=('dirs', 'rw-second'), outcome=('rw2', snap2.get('n')))
                if snap2.get('n') != 1 or snap2['elem_requests'][5] or snap2['elem_requests'][2] or \
                        snap2['log'] != cfh.device_log_fingerprint(dev2) or snap2['param'] != cfh.device_param_fingerprint(dev2):
                    p.violation('cache:stored_tables_not_reloaded', 'second session with the rw cache: %r' % (snap2,), rp)
    # checksum collision: both tables announce the same checksum
    # (tables of different sizes, and of the same size: the stored file then also has the announced number of entries)
    for order, nlog, nparam in [(o, a, b) for (a, b) in ((3, 4), (3, 3), (1, 1)) for o in ('fresh', 'log_file_present',
                                                                                           'param_file_present')]:
        crc = 0x0C0111DE
        dev = _device(nlog, nparam, crc, crc)
        with tempfile.TemporaryDirectory() as d:
            if order == 'log_file_present':
                TocCache(rw_cache=d).insert(crc, _elements_from_device(dev, 'log'))
            elif order == 'param_file_present':
                TocCache(rw_cache=d).insert(crc, _elements_from_device(dev, 'param'))
            snaps = [_connect_once(_device(nlog, nparam, crc, crc), {'rw_cache': d}) for _ in range(2)]
            for si, snap in enumerate(snaps):
                p.case(key=('collision', order, nlog, nparam, si), outcome=('collision', snap.get('n'), tuple(snap.get('log_cls', ())), tuple(snap.get('param_cls', ()))),
                       sample={'collision': order, 'session': si, 'log_element_classes': snap.get('log_cls'),
                               'param_element_classes': snap.get('param_cls')})
                rp = {'part': 'collision', 'order': order, 'session': si, 'nlog': nlog, 'nparam': nparam}
                order = '%s:%dlog_%dparam' % (order.split(':')[0], nlog, nparam)
                if snap['status'] != 'ok' or snap.get('n') != 1:
                    p.violation('cache:collision:connect_failed', 'log and param checksum both %08X (%s, session %d): %r' % (
                        crc, order, si, {k: snap.get(k) for k in ('status', 'n', 'failed', 'died')}), rp)
                elif snap.get('log') != cfh.device_log_fingerprint(dev) or snap.get('param') != cfh.device_param_fingerprint(dev):
                    p.violation('cache:collision:wrong_table', 'log and param checksum both %08X (%s, session %d): log table holds %r '
                                'elements, param table holds %r elements; log equal=%r param equal=%r' % (
                                    crc, order, si, snap.get('log_cls'), snap.get('param_cls'),
                                    snap['log'] == cfh.device_log_fingerprint(dev), snap['param'] == cfh.device_param_fingerprint(dev)), rp)
    return p


def _dispatch(job):
    name, arg = job
    return globals()['part_' + name](arg)


def run(ck):
    cfh.setup()
    ck.rule = ('fetch level: every prefix length of the cache file of log/param tables with 0, 1, 3, 40 entries (plain and '
               'extended) -> fetch is None or entry-for-entry equal; 8 kinds of unparsable entries; 39 neighbouring checksums. '
               'connect level: a real connect with the rw cache file cut at every byte (1- and 3-entry tables) or at a stride '
               'plus both ends (40 entries): connected once, tables equal the device, truncated file downloaded and rewritten '
               'whole, complete file used without any element request; 11 directory combinations with a hash of the read-only '
               'tree; log/param checksum collision in 3 storing orders x 3 table-size pairs (different and equal sizes) x 2 sessions. distinct = (table, cut position)')
    ck.assume('crash model: the cache file after a crash is a prefix of the intended content (open/write/close, no rename)')
    ck.assume('SimCF announces the checksums; element objects for the stored table are built with the library\'s own element '
              'classes from wire bytes, as a download does')
    jobs = []
    for which in ('log', 'param'):
        for n, ext in ((0, False), (1, False), (3, False), (3, True), (40, False), (40, True)):
            if which == 'log' and ext:
                continue
            # split prefix ranges over workers
            for lo in range(0, 12000, 1500):
                jobs.append(('fetch', (which, n, ext, lo, lo + 1499)))
    jobs.append(('odd_files', None))
    jobs.append(('dirs', None))
    for which in ('log', 'param'):
        jobs.append(('connect', (which, 1, 'all' if not ck.quick else 24)))
        jobs.append(('connect', (which, 3, 'all' if not ck.quick else 24)))
        jobs.append(('connect', (which, 40, 150 if not ck.quick else 12)))
    ck.pmap(_dispatch, jobs)
    ck.exhaustive = True


def replay(ck, data):
    cfh.setup()
    part = data.get('part')
    if part == 'fetch':
        ck.merge(part_fetch((data['which'], data['n'], data['ext'], data['cut'], data['cut'])))
    elif part in ('dirs', 'collision'):
        ck.merge(part_dirs(None))
    elif part == 'connect':
        print('connect-level case: re-run the check;', data)
    else:
        print('re-run the check;', data)
    for v in ck.violations:
        print(' ', v['sig'], '::', v['what'])
