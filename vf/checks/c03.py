"""C03 — downloaded log/param tables equal the device's tables.

Real Crazyflie -> SimLink -> SimCF under the controlled scheduler.  Configurations enumerate table
sizes (incl. 0 and > 255), every type code, name-length extremes, protocol generations, cache
modes and link kinds; for every configuration the explorer runs every combination of at most
`bound` deviations among: per-reply {duplicate, delay past the retry timer (-> stale reply later),
drop (-> retry)} and thread-order deviations (timer vs dispatcher ...).
"""
import os
import tempfile

from vf import cfh, simcf, vsched
from vf.core import Partial
from vf.explore import explore

ID = 'C03'
LEVEL = 'exploration'

LOG_CODES = [1, 2, 3, 4, 5, 6, 7, 8]
PARAM_CODES = [0x08, 0x09, 0x0A, 0x0B, 0x00, 0x01, 0x02, 0x03, 0x06, 0x07]


def _names(i, n, v2, style):
    """Distinct (group, name) with length extremes; total must fit the 30-byte reply."""
    room = 24 if v2 else 25           # bytes available for group+name (without the two NULs)
    if style == 'long' and i % 5 == 0:
        g = 'G%d' % i
        nm = 'n' * (room - len(g))
        return g, nm
    if style == 'long' and i % 5 == 1:
        nm = 'x%d' % i
        g = 'g' * (room - len(nm))
        return g, nm
    if i % 11 == 3:
        return 'gr\xe9', 'n\xf8%d' % i          # ISO-8859-1 characters
    if i % 7 == 2:
        return 'g', 'n%d' % i                   # shortest
    return 'grp%d' % (i // 4), 'var%d' % i


def build_device(cfg):
    v2 = cfg['proto'] >= 4 and cfg['versioning']
    log = []
    for i in range(cfg['nlog']):
        g, n = _names(i, cfg['nlog'], v2, cfg['style'])
        log.append(simcf.LogVar(g, n, LOG_CODES[i % len(LOG_CODES)]))
    params = []
    for i in range(cfg['nparam']):
        g, n = _names(i, cfg['nparam'], v2, cfg['style'])
        code = PARAM_CODES[i % len(PARAM_CODES)]
        ext = v2 and (i % 3 != 2)
        params.append(simcf.ParamVar(g, 'p' + n[1:] if len(n) > 1 else n, code, value=(i % 100),
                                     ro=(i % 4 == 2), extended=ext, persistent=ext and (i % 2 == 1)))
    mems = [simcf.SimMem(0, 16)] if cfg.get('mem') else []
    return simcf.SimCF(protocol=cfg['proto'], versioning=cfg['versioning'], log=log, params=params, mems=mems,
                       log_crc=0xA0000000 | cfg['nlog'], param_crc=0xB0000000 | cfg['nparam'])


def _lookups_consistent(toc, fp):
    """get_element_by_complete_name / by_id / get_element / get_element_id agree."""
    probs = []
    for (g, n), t in list(fp.items())[:400]:
        cn = '%s.%s' % (g, n)
        if '.' in g or '.' in n:
            continue
        e1 = toc.get_element(g, n)
        e2 = toc.get_element_by_id(t[0])
        e3 = toc.get_element_by_complete_name(cn)
        i4 = toc.get_element_id(cn)
        if not (e1 is e2 is e3) or i4 != t[0] or e1 is None:
            probs.append(cn)
    if toc.get_element('nope', 'nope') is not None or toc.get_element_id('nope.nope') is not None:
        probs.append('absent-name')
    try:
        if toc.get_element_by_complete_name('nope.nope') is not None:
            probs.append('absent-complete-name')
    except Exception as e:  # noqa
        probs.append('absent-complete-name raises %r' % (e,))
    return probs


def _session(ex, cf, snap, T):
    def on_connected(uri):
        snap['connected'] = snap.get('connected', 0) + 1
        if snap['connected'] == 1:
            snap['log'] = cfh.toc_fingerprint(cf.log.toc) if cf.log.toc is not None else None
            snap['param'] = cfh.toc_fingerprint(cf.param.toc)
            snap['lookup'] = (_lookups_consistent(cf.log.toc, snap['log']) if cf.log.toc is not None else ['no log toc'],
                              _lookups_consistent(cf.param.toc, snap['param']))
            snap['t'] = ex.s.elapsed()
            ex.freeze()
    cf.connected.add_callback(on_connected)
    cf.connection_failed.add_callback(lambda *a: snap.__setitem__('failed', a))
    cf.open_link('sim://0')
    ex.wait_for(lambda: 'connected' in snap or 'failed' in snap, T, 'wait.connected')
    ex.freeze()
    ex.s.sleep(0.5)
    cf.connected.remove_callback(on_connected)
    cf.close_link()
    ex.s.sleep(0.3)


def exec_c03(cfg, devs):
    from cflib.crazyflie import Crazyflie
    p = Partial()
    dev = build_device(cfg)
    menu = ('once', 'dup', 'delay') + (('drop',) if cfg['resend'] else ())
    vsched.clear_traced_functions()
    if cfg.get('lines'):
        # line-level scheduling points in the download machinery: the TOC fetcher, the extended-type fetcher thread and
        # the reply handlers of the log and parameter subsystems, plus the retry machinery of Crazyflie
        import threading
        import cflib.crazyflie as cfm
        import cflib.crazyflie.toc as tm
        import cflib.crazyflie.param as pm
        import cflib.crazyflie.log as lm
        fs = cfh.functions_of(getattr(tm, 'TocFetcher', None), skip=('__init__',))
        fs += cfh.functions_of(*[v for v in vars(pm).values() if isinstance(v, type) and issubclass(v, threading.Thread)
                                 and v.__module__ == pm.__name__], skip=('__init__',))
        fs += [f for f in cfh.functions_of(pm.Param, lm.Log, cfm.Crazyflie, skip=('__init__',))
               if f.__name__.startswith('_') or f.__name__ in ('refresh_toc', 'send_packet')]
        vsched.trace_functions(fs)
    ex = cfh.Exec(devs, dev, time_limit=60.0, reply_menu=menu, needs_resending=cfg['resend'], delay=0.25, policy=cfg.get('policy'))
    def label_fn(h, payload):
        port, chan = (h >> 4) & 15, h & 3
        if chan == 0 and port in (2, 5) and payload[:1] in (b'\x00', b'\x02') and len(payload) > 3:
            n = len(dev.log) if port == 5 else len(dev.params)
            idx = payload[1] if payload[:1] == b'\x00' else payload[1] | (payload[2] << 8)
            if idx in (0, 1, 253, 254, 255, 256, 257, n - 2, n - 1):
                return ':sel'
        elif chan == 0 and port in (2, 5):
            return ':sel'
        return ''
    ex.env.label_fn = label_fn
    if cfg.get('unsol_at_connect') and dev.params:
        # the firmware announces a changed parameter value right at connect, before any table has been downloaded
        ex.env.hello_packets = [dev.value_updated_packet(0)]
    nodrop = tuple(m for m in menu if m != 'drop')
    # link-control / platform requests carry no expected reply (no retry): losing them is outside C03
    ex.env.reply_filter = lambda h, payload: nodrop if ((h >> 4) & 15) in (15, 13) else None
    snap = {}
    tmp = tempfile.TemporaryDirectory() if cfg['cache'] != 'none' else None
    try:
        def main():
            kw = {}
            if cfg['cache'] == 'rw':
                kw['rw_cache'] = tmp.name
            elif cfg['cache'] == 'ro':
                # first a clean session fills a rw dir, which then serves as ro dir
                ex0frozen = ex.frozen
                ex.freeze()
                cf0 = Crazyflie(rw_cache=tmp.name)
                s0 = {}
                _session(ex, cf0, s0, 30.0)
                ex.frozen = ex0frozen
                ex.s.frozen = ex0frozen
                kw['ro_cache'] = tmp.name
                snap['prefill'] = s0.get('connected')
                snap['rx_before'] = len(dev.rx)
            cf = Crazyflie(**kw)
            if cfg.get('prior'):
                # history: the same Crazyflie object has had a complete fault-free session with ANOTHER device before
                # (other protocol generation / no versioning / other tables): nothing of it may survive into this one
                dev0 = build_device(dict(cfg, **cfg['prior']))
                fr = ex.frozen
                ex.freeze()
                ex.env.dev = dev0
                s0 = {}
                _session(ex, cf, s0, 30.0)
                ex.env.dev = dev
                ex.frozen = fr
                ex.s.frozen = fr
                snap['prior_connected'] = s0.get('connected')
            _session(ex, cf, snap, cfg['T'])
            snap['state_end'] = cf.state
        ex.run(main)
    finally:
        if tmp is not None:
            tmp.cleanup()
    s = ex.s
    taken = ex.ch.taken
    fclass = ','.join(sorted(set('%s@%s' % (menu[a] if l.startswith('reply:') else 'sched', l.split(':')[1] + ':' + l.split(':')[2]
                                           if l.startswith('reply:') else '') for (_, a, l) in taken))) or 'none'
    rp = {'cfg': cfg, 'devs': list(devs)}
    cname = cfg['name']
    key = (cname, tuple(devs))
    exp_log = cfh.device_log_fingerprint(dev)
    exp_param = cfh.device_param_fingerprint(dev)
    outcome = (s.status, snap.get('connected'), 'failed' in snap)
    p.case(key=key, nontrivial=bool(devs), outcome=(outcome, fclass),
           sample={'config': cname, 'deviations': [(i, a, l) for (i, a, l) in taken], 'connected_at': snap.get('t'),
                   'log_entries': len(snap.get('log') or ()), 'param_entries': len(snap.get('param') or ()),
                   'requests_seen_by_device': len(dev.rx)} if len(devs) in (0, 1, 2) and (hash(key) % 13 == 0 or not devs) else None)
    if s.died:
        p.violation('toc:thread_died|%s' % fclass, '%s devs=%r: library thread died: %s' % (cname, devs, s.died[0][:2]), rp)
    if s.status != 'ok':
        p.violation('toc:%s|%s' % (s.status, fclass), '%s devs=%r: %s; blocked: %r' % (cname, devs, s.status, s.blocked_report), rp)
        return p, ex.ch.ns, ex.ch.labels
    if cfg.get('prior') and snap.get('prior_connected') != 1:
        p.violation('toc:prior_session_incomplete|%s' % fclass, '%s: the fault-free session with the first device signalled '
                    'connected %r times' % (cname, snap.get('prior_connected')), rp)
        return p, ex.ch.ns, ex.ch.labels
    if 'connected' not in snap:
        p.violation('toc:never_connected|%s' % fclass,
                    '%s devs=%r (%s): connected was never signalled within %.1f s (failed=%r)' % (
                        cname, devs, fclass, cfg['T'], snap.get('failed')), rp)
        return p, ex.ch.ns, ex.ch.labels
    if snap['connected'] != 1:
        p.violation('toc:connected_%d_times|%s' % (snap['connected'], fclass),
                    '%s devs=%r: connected signalled %d times' % (cname, devs, snap['connected']), rp)
    for tname, got, exp in (('log', snap['log'], exp_log), ('param', snap['param'], exp_param)):
        if got != exp:
            got = got or {}
            missing = sorted(set(exp) - set(got))[:3]
            extra = sorted(set(got) - set(exp))[:3]
            diff = [(k, got[k], exp[k]) for k in sorted(set(got) & set(exp)) if got[k] != exp[k]][:3]
            kind = 'missing' if missing else 'extra' if extra else 'attr'
            if kind == 'attr':
                g, e = diff[0][1], diff[0][2]
                fields = ('ident', 'ctype', 'pytype', 'access', 'extended', 'persistent')
                kind = 'attr:' + ','.join(f for f, a, b in zip(fields, g, e) if a != b)
            p.violation('toc:%s_table_%s|%s' % (tname, kind, fclass),
                        '%s devs=%r (%s): %s table differs from the device: missing=%r extra=%r different=%r '
                        '(library has %d entries, device %d)' % (cname, devs, fclass, tname, missing, extra, diff,
                                                                  len(got), len(exp)), rp)
    for tname, probs in zip(('log', 'param'), snap['lookup']):
        if probs:
            p.violation('toc:%s_lookup_inconsistent|%s' % (tname, fclass), '%s devs=%r: lookups disagree for %r' % (
                cname, devs, probs[:4]), rp)
    # request counts
    if cfg['cache'] == 'ro' and snap.get('prefill') == 1:
        reqs = [r for r in dev.rx[snap['rx_before']:] if r[2] == 0 and r[1] in (2, 5) and r[3][:1] in (b'\x00', b'\x02')]
        if reqs:
            p.violation('toc:cache_hit_but_downloaded|%s' % fclass, '%s devs=%r: %d element requests despite a cache hit'
                        % (cname, devs, len(reqs)), rp)
    elif cfg['cache'] == 'none':
        for port, n in ((5, cfg['nlog']), (2, cfg['nparam'])):
            idx = set()
            for r in dev.rx:
                if r[1] == port and r[2] == 0 and r[3][:1] in (b'\x00', b'\x02'):
                    idx.add(bytes(r[3][1:]))
            if len(idx) < n:
                p.violation('toc:too_few_requests|%s' % fclass, '%s devs=%r: only %d distinct element requests on port %d '
                            'for a table of %d' % (cname, devs, len(idx), port, n), rp)
    return p, ex.ch.ns, ex.ch.labels


def _cfg(name, proto=10, versioning=True, nlog=2, nparam=2, style='short', resend=True, cache='none', T=8.0, mem=False):
    return dict(name=name, proto=proto, versioning=versioning, nlog=nlog, nparam=nparam, style=style, resend=resend,
                cache=cache, T=T, mem=mem)


def configs_small():
    out = []
    for proto, ver in ((10, True), (4, True), (3, True), (10, False)):
        for (nl, np_) in ((0, 0), (1, 1), (2, 3), (3, 2)):
            for resend in (True, False):
                tag = 'p%s%s' % (proto, '' if ver else 'nov')
                out.append(_cfg('small:%s:l%dp%d:%s' % (tag, nl, np_, 'rs' if resend else 'rel'), proto, ver, nl, np_,
                                style='long', resend=resend, mem=(nl == 2)))
    for pol in ('handoff', 'eager'):
        c = _cfg('small:p10:l2p3:rs:%s' % pol, 10, True, 2, 3, style='long', resend=True)
        c['policy'] = pol
        out.append(c)
    for cache in ('rw', 'ro'):
        out.append(_cfg('small:cache-%s' % cache, 10, True, 2, 3, cache=cache))
        c = _cfg('small:cache-%s:unsol' % cache, 10, True, 2, 3, cache=cache)
        c['unsol_at_connect'] = True
        out.append(c)
        out.append(_cfg('small:cache-%s-v1' % cache, 3, True, 2, 2, cache=cache))
    c = _cfg('small:p10:l2p3:rs:unsol', 10, True, 2, 3, style='long', resend=True)
    c['unsol_at_connect'] = True
    out.append(c)
    # the same object after a complete session with another device
    for nm, (proto, ver, nl, np_), prior, cache in (
            ('p10>p3', (3, True, 2, 2), {'proto': 10}, 'none'),
            ('p10>nov', (10, False, 2, 2), {'versioning': True}, 'none'),
            ('p3>p10', (10, True, 2, 3), {'proto': 3}, 'none'),
            ('nov>p10', (10, True, 2, 3), {'versioning': False}, 'none'),
            ('p4>p10', (10, True, 2, 3), {'proto': 4}, 'none'),
            ('l3p2>l2p3', (10, True, 2, 3), {'nlog': 3, 'nparam': 2}, 'none'),
            ('l3p4>l2p3:cache', (10, True, 2, 3), {'nlog': 3, 'nparam': 4}, 'rw'),
            ('l1p1>l2p3:cache', (10, True, 2, 3), {'nlog': 1, 'nparam': 1}, 'rw')):
        c = _cfg('small:after_other_device:%s' % nm, proto, ver, nl, np_, style='long', cache=cache)
        c['prior'] = prior
        out.append(c)
    return out


def configs_large(quick):
    out = []
    sizes_v2 = [(257, 2), (2, 257)] if quick else \
        [(254, 3), (255, 256), (256, 255), (257, 2), (2, 257), (3, 300), (300, 257), (600, 3)]
    for nl, np_ in sizes_v2:
        out.append(_cfg('large:v2:l%dp%d' % (nl, np_), 10, True, nl, np_, style='long', T=30.0))
    out.append(_cfg('large:v2p4:l257p2', 4, True, 257, 2, style='long', T=30.0))
    if not quick:
        out.append(_cfg('large:v2p4:l2p300', 4, True, 2, 300, style='long', T=30.0))
    for nl, np_ in ((255, 2),) if quick else ((255, 2), (2, 255)):
        out.append(_cfg('large:v1:l%dp%d' % (nl, np_), 3, True, nl, np_, style='long', T=30.0))
    if not quick:
        out.append(_cfg('large:v2:cache-ro', 10, True, 256, 257, cache='ro', T=30.0))
    return out


def _filter_large(devs, i, alt, label):
    # large tables: deviate only at replies (not at every scheduling point), first-level only
    return label.startswith('reply:')


def run(ck):
    cfh.setup()
    ck.rule = ('configurations x deviation vectors: each execution is a full connect of a real Crazyflie to SimCF; '
               'deviations = per-reply {dup, delay 0.25 s (past the 0.2 s retry -> stale reply later), drop (lossy '
               'links only)} and thread-order choices at every synchronisation point; non-trivial = at least one '
               'deviation; distinct = (configuration, vector); 8 configurations put a complete session of the same object with another device (other protocol generation, no versioning, other tables, with and without cache) in front')
    ck.assume('SimCF (vf/simcf.py) is the reference for the device tables and the TOC wire protocol (V1 and V2)')
    ck.assume('a library thread that is slow by itself for longer than a retry period is outside the explored space')
    ck.assume('unsolicited packets: one parameter value-changed notification queued at connect (three configurations); names '
              'containing "." are not exercised')
    small = configs_small()
    large = configs_large(ck.quick)
    r1 = explore(ck, exec_c03, small, 1)
    if not ck.quick:
        deep = [c for c in small if c['name'] in ('small:p10:l1p1:rs', 'small:p10:l2p3:rs', 'small:p3:l2p3:rs',
                                                  'small:cache-rw')]
        r1b = explore(ck, exec_c03, deep, 2, max_execs=900000)
        ck.note('executions_deep', r1b)
        ck.note('deep_configurations', [c['name'] for c in deep])
    r2 = explore(ck, exec_c03, large, 1, child_filter=_filter_sample_large, max_execs=100000, chunksize=1)
    # focused line-level search: one reply fault (dup / delay / drop) and one thread switch at a line of the download
    # machinery within the next 40 points (thorough: two switches, the second within 20 points of the first)
    fnames = ('small:p10:l1p1:rs',) if ck.quick else ('small:p10:l1p1:rs', 'small:p10:l2p3:rs', 'small:p3:l2p3:rs')
    focus = [dict(c, name=c['name'] + ':lines', lines=True) for c in small if c['name'] in fnames]
    r3 = explore(ck, exec_c03, focus, 2 if ck.quick else 3, child_filter=_focus_filter, max_execs=3000000)
    ck.note('focused_line_level', r3)
    ck.note('small_configurations', len(small))
    ck.note('large_configurations', len(large))
    ck.note('executions_small', r1)
    ck.note('executions_large', r2)
    ck.exhaustive = True


def _focus_filter(devs, i, alt, label):
    if not devs:
        return label.startswith('reply:')
    if len(devs) == 1:
        return label.startswith('L:') and i <= devs[0][0] + 40
    return label.startswith('L:') and i <= devs[1][0] + 20


def _filter_sample_large(devs, i, alt, label):
    """Large tables: one deviation, at replies only, and only at the structurally interesting indices
    (first, second, 254..257, last) - label carries no index, so filter on point position parity via
    the label prefix and leave the index selection to the TOC label."""
    return label.startswith('reply:') and label.endswith(':sel')


def replay(ck, data):
    cfh.setup()
    p, ns, labels = exec_c03(data['cfg'], tuple(tuple(d) for d in data['devs']))
    ck.merge(p)
    print('config %s deviations %r -> %d choice points, violations: %r' % (
        data['cfg']['name'], data['devs'], len(ns), [v['sig'] for v in p.violations]))
