"""C14 — stored configuration images round-trip and validity follows the checksum.

Every image family is driven on the real element classes through a byte-array device memory
(vf/c14_dev.ByteMem, same delivery discipline as cflib's Memory subsystem) or a temp directory
(YAML managers) and compared with independent reference codecs (vf/c14_dev, struct/zlib only):

  eeprom_rt / eeprom_corrupt   I2CElement, versions 0/1, checksum = sum mod 256 over [0,15) / [0,20)
  ow_rt / ow_corrupt           OWElement, crc32&0xff over header [0,7) and TLV area [8,10+L)
  lh_mem / lh_helper           LighthouseMemory / LighthouseMemHelper geometry + calibration
  lh_file / param_file         LighthouseConfigFileManager / ParamFileManager YAML files
  traj / led                   write-only layouts: Poly4D, Compressed*, LED timing sequences
  deck / loco                  DeckMemoryManager info section, LocoMemory / LocoMemory2 anchor data
  realmem                      the same images through the real Memory class over a packet-level fake device:
                               confirms that ByteMem delivers what Memory delivers (disagreement = harness error)
"""
import itertools
import math
import os
import struct
import tempfile
import warnings

from vf.core import Partial
from vf import c14_dev as D
from vf.c14_dev import ByteMem, fl, same_f32, same_float, same_floats32

warnings.filterwarnings('ignore', message='pkg_resources is deprecated')

ID = 'C14'
LEVEL = 'exploration'

QUICK_MASKS = (1, 2, 4, 8, 16, 32, 64, 128)
ALL_MASKS = tuple(range(1, 256))


def _masks(tier):
    return QUICK_MASKS if tier == 'quick' else ALL_MASKS


def _text(n, seed):
    """n characters walking over all 256 ISO-8859-1 code points (incl. NUL and 0xFF)."""
    return ''.join(chr((seed * 7 + i * 37 + 65) % 256) for i in range(n))


def _exc(e):
    return '%s: %s' % (type(e).__name__, e)


# =================================================================================== EEPROM ====

EE_ADDR = (0, 0xE7E7E7E7E7, 2 ** 40 - 1, 0x0123456789, 0xFF00000000, 0x00FFFFFFFF, 0x0100000000)
EE_TRIMS = (0.0, -0.0, 1.5, -1.5, D.F32_MAX, -D.F32_MAX, 1e-45, float('inf'), float('nan'))


def gen_eeprom_rt(tier):
    for ver in (0, 1):
        for ch in (0, 80, 125, 255):
            for sp in (0, 1, 2):
                for pi, pitch in enumerate(EE_TRIMS):
                    for ri, roll in enumerate(EE_TRIMS):
                        addrs = EE_ADDR if ver == 1 else (None,)
                        for ai, addr in enumerate(addrs):
                            yield {'version': ver, 'channel': ch, 'speed': sp, 'pitch': pitch, 'roll': roll,
                                   'address': addr, 'fill': 0xFF if (pi + ri + ai) % 2 else 0x00}


def _ee_fields_equal(got, exp):
    bad = []
    for k, v in exp.items():
        g = got.get(k, '<missing>')
        if k in ('pitch_trim', 'roll_trim'):
            ok = same_f32(g, v)
        else:
            ok = (not isinstance(g, bool)) and isinstance(g, int) and g == v
        if not ok:
            bad.append((k, g, v))
    return bad


def _ee_read(img):
    """Parse an EEPROM image with a fresh I2CElement. -> (element, calls, exception text)"""
    from cflib.crazyflie.mem.i2c_element import I2CElement
    h = ByteMem(0, image=img)
    r = h.attach(I2CElement(id=0, type=0, size=h.size, mem_handler=h))
    calls = []
    err = None
    try:
        r.update(lambda m: calls.append(m is r))
        h.pump()
    except Exception as e:  # noqa
        err = _exc(e)
    return r, calls, err


def case_eeprom_rt(p, prm):
    from cflib.crazyflie.mem.i2c_element import I2CElement
    ver, ch, sp = prm['version'], prm['channel'], prm['speed']
    pitch, roll, addr, fill = fl(prm['pitch']), fl(prm['roll']), prm['address'], prm['fill']
    rp = dict(prm, part='eeprom_rt')
    cls = 'v%d' % ver
    fields = {'version': ver, 'radio_channel': ch, 'radio_speed': sp, 'pitch_trim': pitch, 'roll_trim': roll}
    if ver == 1:
        fields['radio_address'] = addr
    h = ByteMem(64, fill=fill)
    w = h.attach(I2CElement(id=0, type=0, size=64, mem_handler=h))
    w.elements = dict(fields)
    obs = {'image': 'EEPROM', 'fields': {k: repr(v) for k, v in fields.items()}}
    try:
        w.write_data(lambda m, a: None)
        h.pump()
    except Exception as e:  # noqa
        p.case(key=('ee_rt', repr(prm)), outcome=('write_raises', cls))
        p.violation('eeprom:write_raises:' + cls, 'writing EEPROM fields %r raised %s' % (fields, _exc(e)), rp)
        return obs
    exp = D.eeprom_image(ver, ch, sp, pitch, roll, addr)
    img = bytes(h.img)
    obs['written'] = img[:len(exp)].hex()
    if img[:len(exp)] != exp:
        p.violation('eeprom:layout:' + cls, 'EEPROM fields %r written as %s, firmware layout is %s'
                    % (fields, img[:len(exp)].hex(), exp.hex()), rp)
    if img[len(exp):] != bytes([fill]) * (64 - len(exp)):
        p.violation('eeprom:layout:writes_outside_image:' + cls, 'EEPROM write touched bytes after the image: %s'
                    % img.hex(), rp)
    r, calls, err = _ee_read(img)
    obs['parsed'] = {k: repr(v) for k, v in r.elements.items()}
    obs['valid'] = r.valid
    p.case(key=('ee_rt', repr(prm)), outcome=(cls, r.valid, err is None, len(calls)))
    if err:
        p.violation('eeprom:read_raises:' + cls, 'parsing the image written for %r raised %s' % (fields, err), rp)
        return obs
    if calls != [True]:
        p.violation('eeprom:no_report:' + cls, 'update callback called %d times for a correctly written image'
                    % len(calls), rp)
    if r.valid is not True:
        p.violation('eeprom:valid_image_rejected:' + cls, 'correctly written image %s (fields %r) reported valid=%r'
                    % (img[:len(exp)].hex(), fields, r.valid), rp)
    for k, g, v in _ee_fields_equal(r.elements, fields):
        p.violation('eeprom:roundtrip:%s:%s' % (cls, k), 'field %s written as %r read back as %r (image %s)'
                    % (k, v, g, img[:len(exp)].hex()), rp)
    return obs


EE_BASES = (
    (0, 80, 0, 0.0, 0.0, None), (0, 125, 2, 1.5, -1.5, None), (0, 255, 1, D.F32_MAX, 1e-45, None),
    (0, 1, 0, 0.0078125, 0.0, None),
    (1, 80, 2, 0.0, 0.0, 0xE7E7E7E7E7), (1, 0, 0, -1.5, 1.5, 0), (1, 255, 2, 1e-45, -D.F32_MAX, 2 ** 40 - 1),
    (1, 44, 1, 0.25, -0.5, 0x0123456789),
)
EE_BASES_THOROUGH = EE_BASES + tuple(
    (v, c, s, pt, rl, (a if v else None))
    for v in (0, 1) for c, s, pt, rl, a in (
        (3, 0, 2.0, 3.0, 0x0100000000), (77, 1, -0.0, float('inf'), 0xFF00000000),
        (129, 2, 100.0, -100.0, 0x00FFFFFFFF), (200, 0, 1e-3, 1e3, 0x8000000001)))


def gen_eeprom_corrupt(tier):
    bases = EE_BASES_THOROUGH
    for bi, b in enumerate(bases):
        for fill in (0x00, 0xFF):
            n = 16 if b[0] == 0 else 21
            for pos in range(n + 3):
                yield {'base': list(b), 'fill': fill, 'pos': pos}


def _ee_region(ver, pos):
    if pos < 4:
        return 'token'
    if pos == 4:
        return 'version'
    n = 15 if ver == 0 else 20
    if pos < 15:
        return 'payload'
    if pos < n:
        return 'address'
    if pos == n:
        return 'checksum'
    return 'outside'


def case_eeprom_corrupt(p, prm, tier='thorough'):
    ver, ch, sp, pitch, roll, addr = prm['base']
    pitch, roll = fl(pitch), fl(roll)
    fill, pos = prm['fill'], prm['pos']
    good = D.eeprom_image(ver, ch, sp, pitch, roll, addr)
    good = bytearray(good + bytes([fill]) * (32 - len(good)))
    region = _ee_region(ver, pos)
    masks = (prm['mask'],) if 'mask' in prm else _masks(tier)
    obs = None
    for mask in masks:
        img = bytearray(good)
        img[pos] ^= mask
        ref = D.eeprom_verdict(img)
        r, calls, err = _ee_read(img)
        rp = {'part': 'eeprom_corrupt', 'base': prm['base'], 'fill': fill, 'pos': pos, 'mask': mask}
        p.case(key=('ee_c', tuple(map(repr, prm['base'])), fill, pos, mask),
               outcome=(region, ref, r.valid, len(calls), err is None))
        p.add('corruptions_eeprom')
        obs = {'image': 'EEPROM corrupted', 'good': bytes(good[:22]).hex(), 'byte': pos, 'xor': '0x%02x' % mask,
               'region': region, 'recomputed_checksum_matches': ref, 'library_valid': r.valid}
        what = 'EEPROM image %s with byte %d ^= 0x%02x (%s): ' % (bytes(good[:22]).hex(), pos, mask, region)
        if err:
            p.violation('eeprom:corrupt:raises:' + region, what + 'parsing raised ' + err, rp)
            continue
        if ref is None:
            p.add('eeprom_unknown_version_not_judged')
            continue
        if region not in ('version', 'outside'):
            # layout unchanged: one changed byte always changes the sum or the stored checksum,
            # so "valid follows the checksum" here means "every such corruption is detected"
            if ref:
                raise AssertionError('oracle: single byte change left the checksum intact')
            p.add('eeprom_single_byte_corruptions_detected' if not r.valid else 'eeprom_single_byte_corruptions_missed')
        if bool(r.valid) != ref:
            p.violation('eeprom:corrupt:valid_mismatch:%s:lib_%s' % (region, bool(r.valid)),
                        what + 'library valid=%r but recomputed checksum %s the stored one%s'
                        % (r.valid, 'equals' if ref else 'differs from',
                           '' if ref else ' (single-byte corruption not detected)'), rp)
        if calls != [True]:
            p.violation('eeprom:corrupt:no_report:' + region, what + 'update callback called %d times'
                        % len(calls), rp)
        if ref and r.valid:
            for k, g, v in _ee_fields_equal(r.elements, D.eeprom_decode(img)):
                p.violation('eeprom:corrupt:fields:%s:%s' % (region, k),
                            what + 'valid image decodes %s=%r, stored bytes say %r' % (k, g, v), rp)
        # the same element object reads the good image first and the corrupted one afterwards (and back):
        # the verdict must follow the image read last, not an earlier one
        if ref is not None and region != 'version':
            from cflib.crazyflie.mem.i2c_element import I2CElement
            h = ByteMem(0, image=good)
            el = h.attach(I2CElement(id=0, type=0, size=h.size, mem_handler=h))
            verdicts = []
            try:
                for image in (good, img, good):
                    h.img[:] = image
                    el.update(lambda m: None)
                    h.pump()
                    verdicts.append(bool(el.valid))
            except Exception as e:  # noqa
                verdicts.append(_exc(e))
            p.case(key=('ee_reread', tuple(map(repr, prm['base'])), fill, pos, mask), outcome=('reread', region, tuple(verdicts)))
            if verdicts != [True, bool(ref), True]:
                p.violation('eeprom:reread:valid_does_not_follow_last_image:' + region,
                            what + 'one element reading good / corrupted / good image reports valid=%r, the recomputed '
                            'checksums say %r' % (verdicts, [True, bool(ref), True]), rp)
    return obs


# =================================================================================== 1-wire ====

OW_KEYS = ('Board name', 'Board revision', 'Custom')
OW_HDR = [(pins, vid, pid) for pins in (0, 1, 0x80000000, 0xFFFFFFFF, 0x12345678)
          for vid in (0, 0xBC, 0xFF) for pid in (0, 1, 0xFF)]


def gen_ow_rt(tier):
    quick = tier == 'quick'
    k = 0

    def mk(order, lens):
        nonlocal k
        k += 1
        pins, vid, pid = OW_HDR[k % len(OW_HDR)]
        return {'pins': pins, 'vid': vid, 'pid': pid, 'order': list(order), 'lens': list(lens), 'seed': k}

    yield mk((), ())
    for key in range(3):                       # one element, every length that fits the length byte
        for n in range(0, 254):
            yield mk((key,), (n,))
    for a, b in itertools.permutations(range(3), 2):   # two elements, both insertion orders
        for la in range(31):
            for lb in range(31):
                yield mk((a, b), (la, lb))
    tl = (0, 1, 2, 3, 30) if quick else tuple(range(0, 13)) + (30,)
    for perm in itertools.permutations(range(3), 3):
        for lens in itertools.product(tl, repeat=3):
            yield mk(perm, lens)
    # header extremes x a few dictionaries
    for pins, vid, pid in OW_HDR:
        for order, lens in (((), ()), ((0,), (4,)), ((1, 0), (2, 9)), ((0, 1, 2), (7, 1, 20)),
                            ((2,), (99,)), ((0, 1), (30, 30))):
            d = mk(order, lens)
            d.update(pins=pins, vid=vid, pid=pid)
            yield d


def _ow_read(img, size, with_bystander=False):
    from cflib.crazyflie.mem.ow_element import OWElement
    h = ByteMem(0, image=img[:size])
    r = h.attach(OWElement(id=1, type=1, size=size, addr='0D00000000000001', mem_handler=h))
    other = None
    if with_bystander:
        other = h.attach(OWElement(id=2, type=1, size=size, addr='0D00000000000002', mem_handler=h))
        other.vid, other.pid, other.pins, other.elements = 0x11, 0x22, 0x33, {'Board name': 'other'}
    calls = []
    err = None
    try:
        r.update(lambda m: calls.append(m is r))
        h.pump()
    except Exception as e:  # noqa
        err = _exc(e)
    return r, calls, err, other, h


def case_ow_rt(p, prm):
    from cflib.crazyflie.mem.ow_element import OWElement
    pins, vid, pid = prm['pins'], prm['vid'], prm['pid']
    elems = {}
    for j, (ki, n) in enumerate(zip(prm['order'], prm['lens'])):
        elems[OW_KEYS[ki]] = _text(n, prm['seed'] + j)
    area = sum(2 + n for n in prm['lens'])
    fits = 8 + 2 + area + 1 <= 112
    size = 112 if fits else 300
    fitcls = 'fits_112_bytes' if fits else 'larger_than_112_bytes'
    rp = dict(prm, part='ow_rt')
    obs = {'image': '1-wire', 'pins': pins, 'vid': vid, 'pid': pid, 'elements': dict(elems), 'area_len': area}
    key = ('ow_rt', pins, vid, pid, tuple(prm['order']), tuple(prm['lens']), prm['seed'])
    if area > 255:
        p.case(key=key, nontrivial=False, outcome='not_representable')
        return obs
    h = ByteMem(size, fill=0xFF)
    w = h.attach(OWElement(id=1, type=1, size=size, addr='0D00000000000001', mem_handler=h))
    w.pins, w.vid, w.pid = pins, vid, pid
    w.elements = dict(elems)
    try:
        w.write_data(lambda m, a: None)
        h.pump()
    except Exception as e:  # noqa
        p.case(key=key, outcome=('write_raises', fitcls))
        p.violation('ow:write_raises:' + fitcls, '1-wire write of %r raised %s' % (elems, _exc(e)), rp)
        return obs
    img = bytes(h.img)
    used = 11 + area
    obs['written'] = img[:used].hex()
    coll = 'lenbyte_crc_equals_next_byte' if D.ow_collision(img) else 'no_crc_coincidence'
    # -- layout: the firmware-style reader must accept the image and see the same content
    lay = None
    if not D.ow_verdict(img, size):
        lay = 'header or element CRC/marker wrong'
    else:
        dp, dv, dpi, de = D.ow_decode(img)
        if (dp, dv, dpi) != (pins, vid, pid):
            lay = 'header decodes to pins=%r vid=%r pid=%r' % (dp, dv, dpi)
        elif de != elems:
            lay = 'element area decodes to %r' % (de,)
        elif img[8] != 0 or img[9] != area:
            lay = 'TLV version/length bytes %d/%d' % (img[8], img[9])
    if lay:
        p.violation('ow:layout:' + fitcls, '1-wire image for pins=%#x vid=%#x pid=%#x elements=%r is %s: %s'
                    % (pins, vid, pid, elems, img[:used].hex(), lay), rp)
    if img[used:] != b'\xff' * (size - used):
        p.violation('ow:layout:writes_outside_image', '1-wire write touched bytes after the image', rp)
    # -- read back
    r, calls, err, other, _ = _ow_read(img, size, with_bystander=True)
    obs['parsed'] = {'valid': r.valid, 'pins': r.pins, 'vid': r.vid, 'pid': r.pid, 'elements': dict(r.elements)}
    p.case(key=key, outcome=(fitcls, coll, r.valid, err is None, len(calls), len(r.elements), len(elems)))
    tag = '%s:%s' % (fitcls, coll)
    what = '1-wire image %s (pins=%#x vid=%#x pid=%#x elements=%r, area length %d): ' % (
        img[:used].hex(), pins, vid, pid, elems, area)
    if err:
        p.violation('ow:read_raises:' + tag, what + 'parsing raised ' + err, rp)
        return obs
    if calls != [True]:
        p.violation('ow:no_report:' + tag, what + 'update callback called %d times' % len(calls), rp)
    if r.valid is not True:
        p.violation('ow:valid_image_rejected:' + tag, what + 'reported valid=%r' % (r.valid,), rp)
    if (r.pins, r.vid, r.pid) != (pins, vid, pid):
        p.violation('ow:roundtrip:header:' + tag, what + 'header read back as pins=%r vid=%r pid=%r'
                    % (r.pins, r.vid, r.pid), rp)
    if r.elements != elems:
        lost = 'elements_lost' if len(r.elements) < len(elems) else 'elements_differ'
        p.violation('ow:roundtrip:%s:%s' % (lost, tag), what + 'valid=%r but elements read back as %r'
                    % (r.valid, r.elements), rp)
    if (other.vid, other.pid, other.pins, other.elements, other.valid) != (
            0x11, 0x22, 0x33, {'Board name': 'other'}, False):
        p.violation('ow:other_memory_disturbed', what + 'reading memory id 1 changed the element with id 2', rp)
    return obs


def _ow_bases(tier):
    b = lambda *e: [(i, _text(n, 3 * i + n).encode('latin-1')) for i, n in e]  # noqa
    bases = [
        (0, 0xBC, 1, []),
        (0x0C, 0xBC, 0x06, b((1, 9), (2, 1))),
        (0xFFFFFFFF, 0xFF, 0xFF, b((2, 3))),          # area length 5, first id 2
        (1, 0xBC, 0x0A, b((1, 3))),                   # area length 5, first id 1
        (0, 0, 0, b((3, 0))),
        (0x12345678, 0xBC, 0x12, b((2, 2), (1, 12), (3, 4))),
        (0, 0xBC, 2, b((1, 1))),
        (0x80000000, 1, 2, b((3, 72))),               # area length 74, first id 3
    ]
    bases += [
        (5, 0xBC, 9, b((1, 0), (2, 0), (3, 0))),
        (7, 0xBC, 8, b((1, 99))),
        (0, 0xBC, 7, b((2, 1), (1, 0))),          # area length 5, first id 2
        (0, 0xBC, 5, b((3, 30), (1, 30))),
        (0xEB, 0xEB, 0xEB, b((2, 5))),
        (0, 0xBC, 4, b((1, 2))),                  # area length 4: one bit away from 5
    ]
    k = 0
    for eid in (1, 2, 3):                         # every single element of length 0..12
        for n in range(13):
            k += 1
            pins, vid, pid = OW_HDR[(k * 7) % len(OW_HDR)]
            bases.append((pins, vid, pid, b((eid, n))))
    top = 3 if tier == 'quick' else 5
    for a, c in itertools.permutations((1, 2, 3), 2):   # every ordered pair with short lengths
        for la in range(top):
            for lc in range(top):
                k += 1
                pins, vid, pid = OW_HDR[(k * 7) % len(OW_HDR)]
                bases.append((pins, vid, pid, b((a, la), (c, lc))))
    return bases


def gen_ow_corrupt(tier):
    for bi, base in enumerate(_ow_bases(tier)):
        pins, vid, pid, we = base
        n = len(D.ow_image(pins, vid, pid, we))
        for pos in range(min(n + 2, 112)):
            yield {'base': bi, 'pos': pos, 'tier_bases': tier}


def _ow_region(pos, n):
    if pos == 0:
        return 'marker'
    if pos < 7:
        return 'header'
    if pos == 7:
        return 'header_crc'
    if pos == 8:
        return 'tlv_version'
    if pos == 9:
        return 'tlv_length'
    if pos < n - 1:
        return 'elements'
    if pos == n - 1:
        return 'element_crc'
    return 'outside'


def _ow_cls(region, coll):
    """One input class per suspected cause: the CRC coincidence names itself, otherwise the corrupted region."""
    return coll if coll == 'lenbyte_crc_equals_next_byte' else '%s:%s' % (region, coll)


def case_ow_corrupt(p, prm, tier='thorough'):
    pins, vid, pid, we = _ow_bases(prm['tier_bases'])[prm['base']]
    good = D.ow_image(pins, vid, pid, we)
    n = len(good)
    size = 112
    good = bytearray(good + b'\xff' * (size - n))
    pos = prm['pos']
    region = _ow_region(pos, n)
    masks = (prm['mask'],) if 'mask' in prm else _masks(tier)
    obs = None
    for mask in masks:
        img = bytearray(good)
        img[pos] ^= mask
        ref = D.ow_verdict(img, size)
        coll = 'lenbyte_crc_equals_next_byte' if D.ow_collision(img) else 'no_crc_coincidence'
        r, calls, err, _, h = _ow_read(img, size)
        rp = {'part': 'ow_corrupt', 'base': prm['base'], 'tier_bases': prm['tier_bases'], 'pos': pos, 'mask': mask}
        unreadable = any(not ok for _, _, ok in h.reads)
        p.case(key=('ow_c', prm['tier_bases'], prm['base'], pos, mask),
               outcome=(region, ref, r.valid, len(calls), err is None, unreadable, coll))
        p.add('corruptions_1wire')
        obs = {'image': '1-wire corrupted', 'good': bytes(good[:n]).hex(), 'byte': pos, 'xor': '0x%02x' % mask,
               'region': region, 'recomputed_crcs_match': ref, 'library_valid': r.valid}
        what = '1-wire image %s with byte %d ^= 0x%02x (%s): ' % (bytes(good[:n]).hex(), pos, mask, region)
        dec = D.ow_decode(img) if ref else None
        if err:
            if ref and dec[3] is None:
                # CRCs hold by coincidence but the TLV structure is not one the format defines
                p.add('ow_crc_ok_malformed_tlv_raises_not_judged')
                continue
            p.violation('ow:corrupt:raises:%s' % _ow_cls(region, coll), what + 'parsing raised ' + err, rp)
            continue
        if bool(r.valid) != ref:
            p.violation('ow:corrupt:valid_mismatch:lib_%s:%s' % (bool(r.valid), _ow_cls(region, coll)),
                        what + 'library valid=%r (elements %r) but recomputed header/element CRCs %s'
                        % (r.valid, r.elements, 'match' if ref else 'do not both match'), rp)
            continue
        if not unreadable and calls != [True]:
            p.violation('ow:corrupt:no_report:' + region, what + 'update callback called %d times' % len(calls), rp)
        if ref and dec[3] is not None:
            if (r.pins, r.vid, r.pid) != dec[:3] or r.elements != dec[3]:
                p.violation('ow:corrupt:fields:%s' % _ow_cls(region, coll),
                            what + 'valid image decodes to %r/%r, stored bytes say %r'
                            % ((r.pins, r.vid, r.pid), r.elements, dec), rp)
        # one element object reading good / corrupted / good: the verdict follows the image read last
        if not ref and not unreadable and (mask in (0x01, 0x80) or 'mask' in prm):
            from cflib.crazyflie.mem.ow_element import OWElement
            h2 = ByteMem(0, image=good[:size])
            el = h2.attach(OWElement(id=1, type=1, size=size, addr='0D00000000000001', mem_handler=h2))
            verdicts = []
            try:
                for image in (good, img, good):
                    h2.img[:] = image[:size]
                    el.update(lambda m: None)
                    h2.pump()
                    verdicts.append(bool(el.valid))
            except Exception as e:  # noqa
                verdicts.append(_exc(e))
            p.case(key=('ow_reread', prm['tier_bases'], prm['base'], pos, mask), outcome=('reread', region, tuple(verdicts)))
            if verdicts != [True, False, True]:
                p.violation('ow:reread:valid_does_not_follow_last_image:' + region,
                            what + 'one element reading good / corrupted / good image reports valid=%r' % (verdicts,), rp)
    return obs


# =============================================================================== lighthouse ====

LH_VALUES = D.F32_EXTREMES + [0.1, 1.0 / 3.0, 123.456, -2.75]
LH_UIDS = (0, 1, 0xFFFFFFFF, 0x12345678, 0x80000000)


def _lh_vals(n, k, exact32):
    """n distinct-by-position values; slot (k mod n) carries extreme number k."""
    vals = [(j + 1) * 1.25 + k * 0.0625 for j in range(n)]
    vals[k % n] = LH_VALUES[k % len(LH_VALUES)]
    vals[(k + 5) % n] = LH_VALUES[(k + 3) % len(LH_VALUES)]
    if exact32:
        vals = [D.f32(v) for v in vals]
    return vals


def _mk_geo(k, valid, exact32=True, forms=False):
    import numpy as np
    from cflib.crazyflie.mem.lighthouse_memory import LighthouseBsGeometry
    v = _lh_vals(12, k, exact32)
    g = LighthouseBsGeometry()
    g.origin = v[0:3]
    g.rotation_matrix = [v[3:6], v[6:9], v[9:12]]
    # the containers a caller has at hand: lists, numpy arrays (the geometry estimator's output), tuples (memory layout
    # only: the YAML file format is defined for lists)
    if not forms:
        pass
    elif k % 3 == 1:
        g.origin = np.array(g.origin, dtype=float)
        g.rotation_matrix = np.array(g.rotation_matrix, dtype=float)
    elif k % 3 == 2:
        g.origin = tuple(g.origin)
        g.rotation_matrix = tuple(tuple(r) for r in g.rotation_matrix)
    g.valid = valid
    return g, v


def _mk_calib(k, valid, exact32=True):
    from cflib.crazyflie.mem.lighthouse_memory import LighthouseBsCalibration
    v = _lh_vals(14, k, exact32)
    c = LighthouseBsCalibration()
    for s in range(2):
        for j, f in enumerate(D.SWEEP_FIELDS):
            setattr(c.sweeps[s], f, v[s * 7 + j])
    c.uid = LH_UIDS[k % len(LH_UIDS)]
    c.valid = valid
    return c, v


def _geo_diff(g, v, valid, cmp=same_f32):
    flat = list(g.origin) + [x for row in g.rotation_matrix for x in row]
    ok = len(g.origin) == 3 and len(g.rotation_matrix) == 3 and all(len(r) == 3 for r in g.rotation_matrix)
    ok = ok and len(flat) == 12 and all(cmp(a, b) for a, b in zip(flat, v))
    if not ok:
        return 'origin/rotation %r, expected %r' % (flat, v)
    if g.valid is not valid:
        return 'valid flag %r, expected %r' % (g.valid, valid)
    return None


def _calib_diff(c, v, uid, valid, cmp=same_f32):
    flat = [getattr(c.sweeps[s], f) for s in range(2) for f in D.SWEEP_FIELDS]
    if not all(cmp(a, b) for a, b in zip(flat, v)):
        return 'sweeps %r, expected %r' % (flat, v)
    if isinstance(c.uid, bool) or c.uid != uid:
        return 'uid %r, expected %r' % (c.uid, uid)
    if c.valid is not valid:
        return 'valid flag %r, expected %r' % (c.valid, valid)
    return None


def gen_lh_mem(tier):
    for kind in ('geo', 'calib'):
        for bs in range(16):
            for valid in (True, False):
                for k in range(len(LH_VALUES) * (1 if tier == 'quick' else 3)):
                    yield {'kind': kind, 'bs': bs, 'valid': valid, 'k': k, 'fill': 0xFF if k % 2 else 0}


def case_lh_mem(p, prm):
    from cflib.crazyflie.mem.lighthouse_memory import LighthouseMemory
    kind, bs, valid, k, fill = prm['kind'], prm['bs'], prm['valid'], prm['k'], prm['fill']
    rp = dict(prm, part='lh_mem')
    h = ByteMem(0x2000, fill=fill)
    m = h.attach(LighthouseMemory(id=4, type=0x14, size=0x2000, mem_handler=h))
    if kind == 'geo':
        obj, v = _mk_geo(k, valid, forms=True)
        addr, exp = bs * 0x100, D.geo_image(v[0:3], [v[3:6], v[6:9], v[9:12]], valid)
    else:
        obj, v = _mk_calib(k, valid)
        addr, exp = 0x1000 + bs * 0x100, D.calib_image([v[0:7], v[7:14]], obj.uid, valid)
    obs = {'image': 'lighthouse ' + kind, 'base_station': bs, 'values': [repr(x) for x in v], 'valid': valid}
    wd, wf, got, rf = [], [], [], []
    cls = '%s' % kind
    try:
        (m.write_geo_data if kind == 'geo' else m.write_calib_data)(
            bs, obj, lambda mm, a: wd.append(a), write_failed_cb=lambda mm, a: wf.append(a))
        h.pump()
        img = bytes(h.img)
        (m.read_geo_data if kind == 'geo' else m.read_calib_data)(
            bs, lambda mm, d: got.append(d), update_failed_cb=lambda mm: rf.append(1))
        h.pump()
    except Exception as e:  # noqa
        p.case(key=('lh_mem', repr(prm)), outcome=('raises', kind))
        p.violation('lh_mem:raises:' + cls, 'lighthouse %s bs %d values %r raised %s' % (kind, bs, v, _exc(e)), rp)
        return obs
    obs['written_at'] = '0x%04x' % addr
    obs['written'] = img[addr:addr + len(exp)].hex()
    p.case(key=('lh_mem', repr(prm)), outcome=(kind, valid, len(got), len(wd)))
    blank = bytearray([fill]) * 0x2000
    blank[addr:addr + len(exp)] = exp
    if img != bytes(blank):
        where = 'layout' if img[addr:addr + len(exp)] != exp else 'writes_outside_image'
        p.violation('lh_mem:%s:%s' % (where, cls), 'lighthouse %s for bs %d values %r valid=%r written as %s at '
                    '0x%x region, firmware layout is %s (and nothing else may change)'
                    % (kind, bs, v, valid, img[addr:addr + len(exp)].hex(), addr, exp.hex()), rp)
    if len(got) != 1 or rf or wf or wd != [addr]:
        p.violation('lh_mem:no_report:' + cls, 'lighthouse %s bs %d: write done %r failed %r, read results %d '
                    'failed %r' % (kind, bs, wd, wf, len(got), rf), rp)
        return obs
    d = _geo_diff(got[0], v, valid) if kind == 'geo' else _calib_diff(got[0], v, obj.uid, valid)
    if d:
        p.violation('lh_mem:roundtrip:' + cls, 'lighthouse %s bs %d read back with %s' % (kind, bs, d), rp)
    return obs


class _FakeMemSub:
    def __init__(self, mems):
        self._mems = mems

    def get_mems(self, t):
        return tuple(m for m in self._mems if m.type == t)


class _FakeCfMem:
    def __init__(self, mems):
        self.mem = _FakeMemSub(mems)


def _subsets(max_size):
    for n in range(max_size + 1):
        for s in itertools.combinations(range(16), n):
            yield s


def gen_lh_helper(tier):
    k = 0
    for s in _subsets(2 if tier == 'quick' else 4):
        for nbs in (16, 2):
            k += 1
            yield {'ids': list(s), 'nbs': nbs, 'k': k, 'descending': bool(k % 2)}


def case_lh_helper(p, prm):
    """LighthouseMemHelper: write a dict for a subset of base stations, then read all back from a device that
    supports `nbs` base stations (accesses to others fail, as in the firmware)."""
    from cflib.crazyflie.mem.lighthouse_memory import LighthouseMemory, LighthouseMemHelper
    ids, nbs, k = prm['ids'], prm['nbs'], prm['k']
    rp = dict(prm, part='lh_helper')

    def access(addr, n):
        page, off = (addr & 0xFFF) >> 8, addr & 0xFF
        lim = D.GEO_SIZE if addr < 0x1000 else D.CALIB_SIZE
        return addr < 0x2000 and page < nbs and off + n <= lim

    h = ByteMem(0x2000, fill=0, access=access)
    m = h.attach(LighthouseMemory(id=4, type=0x14, size=0x2000, mem_handler=h))
    order = sorted(ids, reverse=prm['descending'])
    geos, calibs, gv, cv = {}, {}, {}, {}
    for i in order:
        geos[i], gv[i] = _mk_geo(k + i, True)
        calibs[i], cv[i] = _mk_calib(k + 2 * i, (i + k) % 3 != 0)
    obs = {'image': 'lighthouse helper', 'written_ids': order, 'device_base_stations': nbs}
    res = {}
    try:
        helper = LighthouseMemHelper(_FakeCfMem([m]))
        helper.write_geos(geos, lambda ok: res.setdefault('wg', []).append(ok))
        h.pump()
        helper.write_calibs(calibs, lambda ok: res.setdefault('wc', []).append(ok))
        h.pump()
        helper.read_all_geos(lambda d: res.setdefault('rg', []).append(d))
        h.pump()
        helper.read_all_calibs(lambda d: res.setdefault('rc', []).append(d))
        h.pump()
    except Exception as e:  # noqa
        p.case(key=('lh_helper', repr(prm)), outcome='raises')
        p.violation('lh_helper:raises', 'helper with ids %r on a %d-station device raised %s' % (order, nbs, _exc(e)), rp)
        return obs
    all_fit = all(i < nbs for i in ids)
    p.case(key=('lh_helper', tuple(order), nbs), outcome=(len(ids), nbs, all_fit, repr(res.get('wg'))))
    if any(len(res.get(x, [])) != 1 for x in ('wg', 'wc', 'rg', 'rc')):
        p.violation('lh_helper:no_report', 'helper callbacks for ids %r: %r' % (order, {a: len(b) for a, b in res.items()}), rp)
        return obs
    rg, rc = res['rg'][0], res['rc'][0]
    obs['read_ids'] = sorted(rg)
    if sorted(rg) != list(range(nbs)) or sorted(rc) != list(range(nbs)):
        p.violation('lh_helper:ids', 'read_all on a %d-station device returned geo ids %r calib ids %r'
                    % (nbs, sorted(rg), sorted(rc)), rp)
        return obs
    if res['wg'] != [all_fit] or res['wc'] != [all_fit]:
        p.violation('lh_helper:write_status', 'writing ids %r to a %d-station device reported %r/%r'
                    % (order, nbs, res['wg'], res['wc']), rp)
    zeros12, zeros14 = [0.0] * 12, [0.0] * 14
    for i in range(nbs):
        if i in geos:
            dg = _geo_diff(rg[i], gv[i], True)
            dc = _calib_diff(rc[i], cv[i], calibs[i].uid, calibs[i].valid)
        else:
            dg = _geo_diff(rg[i], zeros12, False)
            dc = _calib_diff(rc[i], zeros14, 0, False)
        if dg or dc:
            p.violation('lh_helper:roundtrip:' + ('written' if i in geos else 'untouched'),
                        'after writing ids %r, base station %d reads back with %s' % (order, i, dg or dc), rp)
    return obs


def gen_lh_file(tier):
    k = 0
    for s in _subsets(2 if tier == 'quick' else 4):
        k += 1
        yield {'ids': list(s), 'k': k, 'system_type': 1 + k % 2}
    for k2 in range(len(LH_VALUES)):                 # every extreme value in every slot class, all 16 ids
        yield {'ids': list(range(16)), 'k': 1000 + k2, 'system_type': 2}


def case_lh_file(p, prm, tmpdir=None):
    import yaml
    from cflib.localization.lighthouse_config_manager import LighthouseConfigFileManager as M
    if tmpdir is None:
        with tempfile.TemporaryDirectory() as t:
            return case_lh_file(p, prm, t)
    ids, k, st = prm['ids'], prm['k'], prm['system_type']
    rp = dict(prm, part='lh_file')
    geos, calibs, gv, cv = {}, {}, {}, {}
    calib_ids = [(i * 7 + k) % 16 for i in ids]      # a different subset for the calibrations
    for j, i in enumerate(ids):
        geos[i], gv[i] = _mk_geo(k + i, (j + k) % 4 != 0, exact32=False)
    for j, i in enumerate(calib_ids):
        calibs[i], cv[i] = _mk_calib(k + i, (j + k) % 5 != 0, exact32=False)
    exp_g = sorted(i for i in geos if geos[i].valid)
    exp_c = sorted(i for i in calibs if calibs[i].valid)
    obs = {'image': 'lighthouse YAML file', 'geo_ids': sorted(geos), 'calib_ids': sorted(calibs),
           'valid_geo_ids': exp_g, 'valid_calib_ids': exp_c, 'system_type': st}
    fn = os.path.join(tmpdir, 'lh.yaml')
    try:
        M.write(fn, geos=geos, calibs=calibs, system_type=st)
        rg, rc, rst = M.read(fn)
    except Exception as e:  # noqa
        p.case(key=('lh_file', repr(prm)), outcome='raises')
        p.violation('lh_file:raises', 'file round trip for geo ids %r calib ids %r raised %s'
                    % (sorted(geos), sorted(calibs), _exc(e)), rp)
        return obs
    p.case(key=('lh_file', tuple(ids), k), outcome=(len(exp_g), len(exp_c), st))
    what = 'file with geos %r (valid %r) calibs %r (valid %r) system type %d: ' % (
        sorted(geos), exp_g, sorted(calibs), exp_c, st)
    if sorted(rg) != exp_g or sorted(rc) != exp_c or rst != st:
        p.violation('lh_file:roundtrip:ids', what + 'read back geo ids %r calib ids %r system type %r'
                    % (sorted(rg), sorted(rc), rst), rp)
        return obs
    for i in exp_g:
        d = _geo_diff(rg[i], gv[i], True, cmp=same_float)
        if d:
            p.violation('lh_file:roundtrip:geo', what + 'geometry %d read back with %s' % (i, d), rp)
    for i in exp_c:
        d = _calib_diff(rc[i], cv[i], calibs[i].uid, True, cmp=same_float)
        if d:
            p.violation('lh_file:roundtrip:calib', what + 'calibration %d read back with %s' % (i, d), rp)
    # file format seen by another reader (plain YAML), and a file produced by another writer
    with open(fn) as f:
        doc = yaml.safe_load(f)
    ok = (isinstance(doc, dict) and doc.get('type') == 'lighthouse_system_configuration' and doc.get('version') == '1'
          and doc.get('systemType') == st and sorted(doc.get('geos', {})) == exp_g
          and sorted(doc.get('calibs', {})) == exp_c)
    if ok:
        for i in exp_g:
            e = doc['geos'][i]
            ok = ok and sorted(e) == ['origin', 'rotation'] and all(
                same_float(a, b) for a, b in zip(list(e['origin']) + [x for r in e['rotation'] for x in r], gv[i]))
        for i in exp_c:
            e = doc['calibs'][i]
            ok = ok and sorted(e) == ['sweeps', 'uid'] and e['uid'] == calibs[i].uid and len(e['sweeps']) == 2
            for s in range(2):
                ok = ok and sorted(e['sweeps'][s]) == sorted(D.SWEEP_FIELDS) and all(
                    same_float(e['sweeps'][s][f], cv[i][s * 7 + j]) for j, f in enumerate(D.SWEEP_FIELDS))
    if not ok:
        p.violation('lh_file:layout', what + 'the YAML document is %r' % (doc,), rp)
    ref_doc = {'type': 'lighthouse_system_configuration', 'version': '1', 'systemType': st,
               'geos': {i: {'origin': gv[i][0:3], 'rotation': [gv[i][3:6], gv[i][6:9], gv[i][9:12]]} for i in exp_g},
               'calibs': {i: {'uid': calibs[i].uid, 'sweeps': [
                   {f: cv[i][s * 7 + j] for j, f in enumerate(D.SWEEP_FIELDS)} for s in range(2)]} for i in exp_c}}
    with open(fn, 'w') as f:
        yaml.safe_dump(ref_doc, f)
    try:
        rg, rc, rst = M.read(fn)
        bad = sorted(rg) != exp_g or sorted(rc) != exp_c or rst != st
        bad = bad or any(_geo_diff(rg[i], gv[i], True, cmp=same_float) for i in exp_g)
        bad = bad or any(_calib_diff(rc[i], cv[i], calibs[i].uid, True, cmp=same_float) for i in exp_c)
    except Exception as e:  # noqa
        bad = _exc(e)
    if bad:
        p.violation('lh_file:reference_file_misread', what + 'a reference-written file is read back wrongly (%r)' % (bad,), rp)
    return obs


# =============================================================================== param file ====

PF_VALUES = (0, 1, -1, 255, 65535, 2 ** 32 - 1, -2 ** 31, 0.0, -0.0, 1.5, 0.1, D.F32_MAX, 1e-45,
             float('inf'), float('nan'))
PF_NAMES = ('ring.effect', 'a.b', 'y', 'null', '1.5', 'on', 'group.name with space', '', '~', 'activeMarker.mode',
            'x: y', '#c', 'Ünï.cødé')


def gen_param_file(tier):
    k = 0
    for di, dv in enumerate(PF_VALUES):
        for si in range(-1, len(PF_VALUES)):
            k += 1
            yield {'entries': [[PF_NAMES[k % len(PF_NAMES)], si >= 0, di, si]]}
    yield {'entries': []}
    for n in (2, 3, len(PF_NAMES)):
        for rot in range(len(PF_VALUES) if tier != 'quick' else 5):
            yield {'entries': [[PF_NAMES[(j + rot) % len(PF_NAMES)], (j + rot) % 3 != 0, (j + rot) % len(PF_VALUES),
                                (2 * j + rot) % len(PF_VALUES)] for j in range(n)]}


def _pf_same(a, b):
    if a is None or b is None or isinstance(a, bool) or isinstance(b, bool):
        return a is b
    return type(a) is type(b) and same_float(a, b)


def case_param_file(p, prm, tmpdir=None):
    from cflib.crazyflie.param import PersistentParamState
    from cflib.localization.param_io import ParamFileManager
    if tmpdir is None:
        with tempfile.TemporaryDirectory() as t:
            return case_param_file(p, prm, t)
    rp = dict(prm, part='param_file')
    params = {}
    for name, stored, di, si in prm['entries']:
        params[name] = PersistentParamState(stored, PF_VALUES[di], PF_VALUES[si] if stored else None)
    obs = {'image': 'persistent parameter YAML file', 'params': {k: repr(tuple(v)) for k, v in params.items()}}
    fn = os.path.join(tmpdir, 'params.yaml')
    try:
        ParamFileManager.write(fn, params)
        got = ParamFileManager.read(fn)
    except Exception as e:  # noqa
        p.case(key=('pf', repr(prm)), outcome='raises')
        p.violation('param_file:raises', 'round trip of %r raised %s' % (params, _exc(e)), rp)
        return obs
    p.case(key=('pf', repr(prm)), outcome=(len(params), tuple(sorted(type(v.default_value).__name__ for v in params.values()))))
    ok = isinstance(got, dict) and sorted(got) == sorted(params)
    if ok:
        for name, st in params.items():
            g = got[name]
            ok = ok and isinstance(g, PersistentParamState) and g.is_stored is st.is_stored and _pf_same(
                g.default_value, st.default_value) and _pf_same(g.stored_value, st.stored_value)
    if not ok:
        p.violation('param_file:roundtrip', 'wrote %r, read back %r' % (params, got), rp)
    return obs


# =============================================================================== trajectory ====

def gen_traj(tier):
    # Poly4D: one piece with every extreme in every one of the 33 slots; sequences of 0..3 pieces
    for slot in range(33):
        for e in range(len(D.F32_EXTREMES)):
            yield {'kind': 'poly', 'n': 1, 'slot': slot, 'extreme': e, 'start': (0, 132, 4000)[(slot + e) % 3]}
    for n in (0, 1, 2, 3):
        for start in (0, 132, 4000):
            yield {'kind': 'poly', 'n': n, 'slot': None, 'extreme': 0, 'start': start}
    # compressed: every combination of element types, one segment; then 2-3 segment sequences
    for types in range(256):
        yield {'kind': 'comp', 'types': [types], 'dur': [(0.0, 0.125, 1.0, 65.5)[types % 4]], 'start': (0, 8, 4000)[types % 3]}
    for t in range(0, 256, 1 if tier != 'quick' else 5):
        yield {'kind': 'comp', 'types': [t, (t * 7 + 3) % 256, 255 - t], 'dur': [0.25, 2.0, 0.001], 'start': 0}


def _poly_vals(piece):
    return [D.f32(piece * 100 + a * 10 + c + 0.5) for a in range(4) for c in range(8)] + [D.f32(piece + 0.75)]


def case_traj(p, prm):
    from cflib.crazyflie.mem.trajectory_memory import (CompressedSegment, CompressedStart, Poly4D,
                                                       TrajectoryMemory)
    rp = dict(prm, part='traj')
    start = prm['start']
    h = ByteMem(4096 + 1024, fill=0xA5)
    m = h.attach(TrajectoryMemory(id=3, type=0x12, size=h.size, mem_handler=h))
    obs = {'image': 'trajectory ' + prm['kind'], 'start_addr': start}
    wd = []
    if prm['kind'] == 'poly':
        pieces = []
        for k in range(prm['n']):
            v = _poly_vals(k)
            if prm['slot'] is not None:
                v[prm['slot']] = D.F32_EXTREMES[prm['extreme']]
            pieces.append(v)
        exp = b''.join(D.poly4d_image(v[0:8], v[8:16], v[16:24], v[24:32], v[32]) for v in pieces)
        traj = [Poly4D(v[32], Poly4D.Poly(v[0:8]), Poly4D.Poly(v[8:16]), Poly4D.Poly(v[16:24]), Poly4D.Poly(v[24:32]))
                for v in pieces]
        cls = 'poly4d'
        obs['pieces'] = [[repr(x) for x in v] for v in pieces][:1]
    else:
        cls = 'compressed'
        sx, sy, sz, syaw = 0.125, -0.25, 1.5, math.radians(90.0)
        traj = [CompressedStart(sx, sy, sz, syaw)]
        want = [('start', None, [125], [-250], [1500], [900.0])]
        for si, (types, dur) in enumerate(zip(prm['types'], prm['dur'])):
            el = []
            for axis in range(4):
                n = D.LEN_OF_TYPE[(types >> (2 * axis)) & 3]
                if axis < 3:     # multiples of 1/8 m: v*1000 is exact
                    el.append([(((si * 4 + axis) * 8 + j + 1) * (-1) ** j) * 0.125 for j in range(n)])
                else:
                    el.append([math.radians(((si * 8 + j + 1) * 11.5) * (-1) ** j) for j in range(n)])
            traj.append(CompressedSegment(dur, el[0], el[1], el[2], el[3]))
            want.append(('seg', dur * 1000.0, [v * 1000.0 for v in el[0]], [v * 1000.0 for v in el[1]],
                         [v * 1000.0 for v in el[2]], [math.degrees(a) * 10.0 for a in el[3]]))
        obs['types'] = prm['types']
        exp = None
    try:
        m.trajectory = traj
        m.write_data(lambda mm, a: wd.append(a), start_addr=start)
        h.pump()
    except Exception as e:  # noqa
        p.case(key=('traj', repr(prm)), outcome=('raises', cls))
        p.violation('traj:raises:' + cls, 'trajectory %r raised %s' % (prm, _exc(e)), rp)
        return obs
    img = bytes(h.img)
    wlen = h.writes[-1][1] if h.writes else 0
    obs['written'] = img[start:start + min(wlen, 40)].hex() + ('...' if wlen > 40 else '')
    p.case(key=('traj', repr(prm)), outcome=(cls, wlen))
    if img[:start] != b'\xa5' * start or img[start + wlen:] != b'\xa5' * (len(img) - start - wlen) or wd != [start]:
        p.violation('traj:writes_outside_image:' + cls, 'trajectory write at 0x%x: done callbacks %r, bytes outside '
                    'the written range changed' % (start, wd), rp)
    if cls == 'poly4d':
        if img[start:start + wlen] != exp:
            p.violation('traj:layout:poly4d:' + ('extreme' if prm['slot'] is not None else 'n=%d' % prm['n']),
                        'Poly4D pieces %r written as %s, firmware layout is %s'
                        % (pieces, img[start:start + wlen].hex(), exp.hex()), rp)
        return obs
    raw = img[start:start + wlen]
    bad = None
    try:
        got_start = struct.unpack('<hhhh', raw[:8])
        pos = 8
        decoded = [('start', None, [got_start[0]], [got_start[1]], [got_start[2]], [got_start[3]])]
        while pos < len(raw):
            ms, x, y, z, yaw, used = D.decode_compressed_segment(raw[pos:])
            decoded.append(('seg', ms, x, y, z, yaw))
            pos += used
        if pos != len(raw) or len(decoded) != len(want):
            bad = 'decodes to %d elements / %d bytes, expected %d elements' % (len(decoded), pos, len(want))
    except Exception as e:  # noqa
        bad = 'not decodable: ' + _exc(e)
    if not bad:
        for d, w in zip(decoded, want):
            if w[1] is not None and abs(d[1] - w[1]) >= 1:
                bad = 'duration %r ms, expected %r' % (d[1], w[1])
            for axis in range(4):
                if len(d[2 + axis]) != len(w[2 + axis]) or any(
                        abs(a - b) >= 1 for a, b in zip(d[2 + axis], w[2 + axis])):
                    bad = 'axis %d values %r, expected %r' % (axis, d[2 + axis], w[2 + axis])
    if bad:
        p.violation('traj:layout:compressed:' + ('single' if len(prm['types']) == 1 else 'sequence'),
                    'compressed trajectory types %r written as %s: %s' % (prm['types'], raw.hex(), bad), rp)
    return obs


# ============================================================================== LED timings ====

LED_COLOURS = ((0, 0, 0), (255, 255, 255), (255, 0, 0), (0, 255, 0), (0, 0, 255), (8, 4, 8), (100, 150, 200), (2, 1, 3))
LED_DARK = ((0, 0, 0), (2, 1, 3))     # colours below half a step of every RGB565 channel: stored as 0 whatever the rounding


def gen_led(tier):
    for t in (0, 1, 255):
        for leds in range(16):
            for fade in (False, True):
                for rot in range(8):
                    for ci in range(len(LED_COLOURS)):
                        yield {'seq': [[t, ci, leds, fade, rot]]}
    pool = [[0, 0, 0, False, 0], [5, 1, 3, True, 2], [0, 0, 1, False, 0], [255, 3, 15, True, 7], [1, 0, 0, False, 0],
            [0, 5, 0, False, 0], [0, 7, 0, False, 0]]
    yield {'seq': []}
    for n in (2, 3):
        for s in itertools.product(range(len(pool)), repeat=n):
            yield {'seq': [pool[i] for i in s]}


def case_led(p, prm):
    from cflib.crazyflie.mem.led_timings_driver_memory import LEDTimingsDriverMemory
    rp = dict(prm, part='led')
    h = ByteMem(256, fill=0xA5)
    m = h.attach(LEDTimingsDriverMemory(id=6, type=0x17, size=256, mem_handler=h))
    want = []
    for t, ci, leds, fade, rot in prm['seq']:
        r, g, b = LED_COLOURS[ci]
        m.add(time=t, rgb={'r': r, 'g': g, 'b': b}, leds=leds, fade=fade, rotate=rot)
        if t == 0 and (r, g, b) in LED_DARK and leds == 0 and not fade and rot == 0:
            continue                 # a zero-duration no-op whose colour is stored as black equals the end marker; cannot be stored
        want.append((t, (r, g, b), leds, fade, rot))
    has_noop = len(want) != len(prm['seq'])
    obs = {'image': 'LED timing sequence', 'sequence': prm['seq']}
    try:
        m.write_data(lambda mm, a: None)
        h.pump()
    except Exception as e:  # noqa
        p.case(key=('led', repr(prm)), outcome='raises')
        p.violation('led_timing:raises', 'sequence %r raised %s' % (prm['seq'], _exc(e)), rp)
        return obs
    wlen = h.writes[-1][1] if h.writes else 0
    img = bytes(h.img[:wlen])
    obs['written'] = img.hex()
    p.case(key=('led', repr(prm)), outcome=(len(want), has_noop))
    cls = 'len%d%s' % (min(len(prm['seq']), 2), ':with_noop_entry' if has_noop else '')
    played = D.led_timing_read(img)
    bad = None
    if h.writes[-1][0] != 0 or bytes(h.img[wlen:]) != b'\xa5' * (256 - wlen):
        bad = 'written at %r or bytes outside changed' % (h.writes[-1][0],)
    elif played is None:
        bad = 'no end marker'
    elif len(played) != len(want):
        bad = 'firmware would play %d entries, expected %d' % (len(played), len(want))
    else:
        for e, (t, rgb, leds, fade, rot) in zip(played, want):
            if (e['time'], e['leds'], e['fade'], e['rotate']) != (t, leds, fade, rot):
                bad = 'entry plays as %r, expected time=%d leds=%d fade=%r rotate=%d' % (e, t, leds, fade, rot)
            for ch, mx, lvl in (('r5', 31, rgb[0]), ('g6', 63, rgb[1]), ('b5', 31, rgb[2])):
                if (lvl == 0 and e[ch] != 0) or (lvl == 255 and e[ch] != mx) or abs(e[ch] - lvl * mx / 255.0) > 1:
                    bad = 'colour %r stored as %r' % (rgb, (e['r5'], e['g6'], e['b5']))
    if bad:
        p.violation('led_timing:layout:' + cls, 'LED timing sequence %r written as %s: %s' % (prm['seq'], img.hex(), bad), rp)
    return obs


# ============================================================================== deck memory ====

def _deck_name(n, seed, junk):
    s = bytes(33 + (seed * 5 + i * 11) % 94 for i in range(n))        # printable ASCII
    if junk == 2 and n < 17:
        s += b'\0' + b'\xff' * (17 - n)                                # erased-flash filler after the terminator (not text)
    elif junk and n < 17:
        s += b'\0' + bytes([0x41 + seed % 26]) * (17 - n)             # stale bytes after the terminator
    return s


def gen_deck(tier):
    k = 0
    for slot in range(8):
        for bf1 in range(128):
            for bf2 in range(4):
                k += 1
                yield {'slot': slot, 'bf1': bf1, 'bf2': bf2, 'k': k, 'version': 3, 'junk_bits': False}
    for slot in range(8):
        for n in range(19):
            for junk in (False, True, 2):
                k += 1
                yield {'slot': slot, 'bf1': 1 | (n * 2) % 128, 'bf2': n % 4, 'k': k, 'version': 3, 'name_len': n,
                       'name_junk': junk, 'junk_bits': False}
    if tier != 'quick':
        for slot in (0, 7):
            for bf1 in range(128):
                for bf2 in range(4):
                    k += 1
                    yield {'slot': slot, 'bf1': bf1, 'bf2': bf2, 'k': k, 'version': 3, 'junk_bits': True}
    # a valid record whose name bytes are not text (an uninitialised or foreign deck memory): what the library makes of that
    # record is not judged, but the query completes and the well-formed records next to it are delivered exactly
    for slot in range(8):
        for bad in ('b54465636b', 'ff' * 18, '6263e9', 'c328', '80'):
            k += 1
            yield {'slot': slot, 'bf1': 0x0F, 'bf2': 1, 'k': k, 'version': 3, 'junk_bits': False, 'bad_name': bad}
    for v in range(256):
        if v != 3:
            k += 1
            yield {'slot': v % 8, 'bf1': 0x0F, 'bf2': 3, 'k': k, 'version': v, 'junk_bits': False}


_DECK_U32 = (0, 1, 0xFFFFFFFF, 0x12345678, 0x10000000, 0x80000000)


def case_deck(p, prm):
    from cflib.crazyflie.mem.deck_memory import DeckMemoryManager
    rp = dict(prm, part='deck')
    k, slot = prm['k'], prm['slot']
    infos = []
    for i in range(8):
        if i == slot:
            bf1, bf2 = prm['bf1'], prm['bf2']
            n = prm.get('name_len', k % 19)
            junk = prm.get('name_junk', bool(k % 2))
        else:
            bf1, bf2 = (k * 37 + i * 53) % 128, (k + i) % 4
            n, junk = (k + 3 * i) % 19, bool((k + i) % 2)
        wire1, wire2 = bf1, bf2
        if prm['junk_bits']:
            wire1, wire2 = bf1 | 0x80, bf2 | 0xFC
        nm = _deck_name(n, k + i, junk)
        if i == slot and prm.get('bad_name'):
            nm = bytes.fromhex(prm['bad_name'])
            nm = nm + b'\0' * (18 - len(nm)) if len(nm) < 18 else nm
            text = None
        else:
            text = nm.split(b'\0')[0].decode('ascii')
        infos.append((wire1, wire2, _DECK_U32[(k + i) % 6], _DECK_U32[(k + i + 2) % 6], _DECK_U32[(k + i + 4) % 6], nm,
                      bf1, bf2, text))
    img = D.deck_info_image(prm['version'], [e[:6] for e in infos])
    h = ByteMem(0x2000, fill=0)
    h.img[:len(img)] = img
    m = h.attach(DeckMemoryManager(id=7, type=0x19, size=0x2000, mem_handler=h))
    okc, failc = [], []
    obs = {'image': 'deck memory info section', 'version': prm['version'],
           'slot_%d' % slot: {'bitfield1': infos[slot][0], 'bitfield2': infos[slot][1], 'name': infos[slot][8]}}
    try:
        m.query_decks(okc.append, failc.append)
        h.pump()
    except Exception as e:  # noqa
        p.case(key=('deck', repr(prm)), outcome='raises')
        p.violation('deck:raises', 'info section %s raised %s' % (img.hex(), _exc(e)), rp)
        return obs
    if prm['version'] != 3:
        p.case(key=('deck', repr(prm)), outcome=('unsupported_version', len(okc), len(failc)))
        p.add('deck_unsupported_version_not_judged')
        return obs
    p.case(key=('deck', slot, prm['bf1'], prm['bf2'], k), outcome=(prm['bf1'], prm['bf2'], prm['junk_bits']))
    cls = 'reserved_bits_set' if prm['junk_bits'] else 'defined_bits'
    if len(okc) != 1 or failc:
        p.violation('deck:no_report:' + cls, 'query of a version-3 info section: complete x%d failed %r'
                    % (len(okc), failc), rp)
        return obs
    res = okc[0]
    exp_keys = [i for i in range(8) if infos[i][6] & 1]
    if prm.get('bad_name'):
        # the record with the undecodable name: present or skipped, not judged
        cls = 'next_to_undecodable_name'
        exp_keys = [i for i in exp_keys if i != slot]
        res = {i: d for i, d in res.items() if i != slot}
    if sorted(res) != exp_keys:
        p.violation('deck:decks_present:' + cls, 'valid bits set for slots %r, query returned %r' % (exp_keys, sorted(res)), rp)
        return obs
    for i in exp_keys:
        d, e = res[i], infos[i]
        bf1, bf2 = e[6], e[7]
        got = (d.is_valid, d.is_started, d.supports_read, d.supports_write, d.supports_fw_upgrade,
               d.is_fw_upgrade_required, d.is_bootloader_active, d.supports_reset_to_fw, d.supports_reset_to_bootloader)
        want = tuple(bool(bf1 & (1 << b)) for b in range(7)) + (bool(bf2 & 1), bool(bf2 & 2))
        if got != want:
            p.violation('deck:flags:' + cls, 'slot %d bit fields 0x%02x/0x%02x decode to flags %r, expected %r'
                        % (i, e[0], e[1], got, want), rp)
        if (d.required_hash, d.required_length, d._base_address) != e[2:5]:
            p.violation('deck:numbers:' + cls, 'slot %d hash/length/base %r decode to %r'
                        % (i, e[2:5], (d.required_hash, d.required_length, d._base_address)), rp)
        if d.name != e[8]:
            ncls = 'len18_no_terminator' if len(e[8]) == 18 else (
                'terminated_stale_bytes_follow' if len(e[5]) > len(e[8]) else 'terminated')
            p.violation('deck:name:' + ncls, 'slot %d name bytes %r decode to %r, expected %r' % (i, e[5], d.name, e[8]), rp)
    obs['decks_found'] = sorted(res)
    return obs


# ===================================================================================== loco ====

_ID_PERM = [(i * 149 + 17) % 256 for i in range(256)]       # a fixed permutation of 0..255


def gen_loco(tier):
    for n in list(range(17)) + [32]:
        for k in range(len(D.F32_EXTREMES)):
            yield {'kind': 'loco1', 'n': n, 'k': k}
    for n in range(17):
        for sel in range(6 if tier == 'quick' else 16):
            yield {'kind': 'loco2', 'n': n, 'sel': sel, 'k': n + sel}


def _anchor(k, i):
    v = [D.f32((i + 1) * 1.5 + k * 0.25), D.f32(-(i + 1) * 2.25), D.f32(i * 0.125 + 0.5)]
    v[(i + k) % 3] = D.F32_EXTREMES[(i + k) % len(D.F32_EXTREMES)]
    return v, bool((i + k) % 3)


def case_loco(p, prm):
    rp = dict(prm, part='loco')
    n, k = prm['n'], prm['k']
    obs = {'image': prm['kind'], 'anchors': n}
    if prm['kind'] == 'loco1':
        from cflib.crazyflie.mem.loco_memory import LocoMemory
        h = ByteMem(0x1000 + 0x100 * 40, fill=0xEE)
        h.img[0] = n
        exp = []
        for i in range(n):
            v, ok = _anchor(k, i)
            exp.append((v, ok))
            h.img[0x1000 + 0x100 * i:0x1000 + 0x100 * i + 13] = struct.pack('<fff?', v[0], v[1], v[2], ok)
        m = h.attach(LocoMemory(id=8, type=0x11, size=h.size, mem_handler=h))
        calls = []
        try:
            m.update(lambda mm: calls.append(1))
            h.pump()
        except Exception as e:  # noqa
            p.case(key=('loco', repr(prm)), outcome='raises')
            p.violation('loco:raises', '%d anchors raised %s' % (n, _exc(e)), rp)
            return obs
        p.case(key=('loco', repr(prm)), outcome=(n, len(calls), m.valid))
        bad = None
        if calls != [1] or m.valid is not True:
            bad = 'update callback x%d valid=%r' % (len(calls), m.valid)
        elif m.nr_of_anchors != n or len(m.anchor_data) != n:
            bad = 'nr_of_anchors %r, %d anchor records' % (m.nr_of_anchors, len(m.anchor_data))
        else:
            for i, (v, ok) in enumerate(exp):
                a = m.anchor_data[i]
                if not same_floats32(a.position, v) or a.is_valid is not ok:
                    bad = 'anchor %d decoded %r/%r, device encoded %r/%r' % (i, a.position, a.is_valid, v, ok)
        if bad:
            p.violation('loco:anchors:n%s' % ('0' if n == 0 else '>0'), 'LocoMemory with %d anchors: %s' % (n, bad), rp)
        return obs
    from cflib.crazyflie.mem.loco_memory_2 import LocoMemory2
    sel = prm['sel']
    if sel == 0:
        ids = list(range(n))
    elif sel == 1:
        ids = list(range(255, 255 - n, -1))
    else:
        ids = [_ID_PERM[(sel * 31 + j) % 256] for j in range(n)]
    active = [i for j, i in enumerate(ids) if (j + sel) % 2 == 0]
    h = ByteMem(0x2000 + 0x100 * 256, fill=0xEE)
    h.img[0:1 + n] = bytes([n] + ids)
    h.img[0x1000:0x1001 + len(active)] = bytes([len(active)] + active)
    exp = {}
    for i in ids:
        v, ok = _anchor(k, i)
        exp[i] = (v, ok)
        h.img[0x2000 + 0x100 * i:0x2000 + 0x100 * i + 13] = struct.pack('<fff?', v[0], v[1], v[2], ok)
    m = h.attach(LocoMemory2(id=9, type=0x13, size=h.size, mem_handler=h))
    obs.update(ids=ids, active=active)
    calls = []
    try:
        m.update_id_list(lambda mm: calls.append('ids'))
        h.pump()
        m.update_active_id_list(lambda mm: calls.append('active'))
        h.pump()
        if n:
            m.update_data(lambda mm: calls.append('data'))
            h.pump()
    except Exception as e:  # noqa
        p.case(key=('loco', repr(prm)), outcome='raises')
        p.violation('loco2:raises', 'ids %r raised %s' % (ids, _exc(e)), rp)
        return obs
    p.case(key=('loco', repr(prm)), outcome=(n, tuple(calls)))
    idc = 'ids_%s' % ('consecutive' if sel == 0 else 'descending' if sel == 1 else 'scattered')
    if calls != ['ids', 'active'] + (['data'] if n else []):
        p.violation('loco2:no_report:' + idc, 'callbacks %r for id list %r' % (calls, ids), rp)
        return obs
    if list(m.anchor_ids) != ids or m.nr_of_anchors != n or m.ids_valid is not True:
        p.violation('loco2:id_list:' + idc, 'device id list %r decoded as %r (count %r)' % (ids, m.anchor_ids, m.nr_of_anchors), rp)
    if list(m.active_anchor_ids) != active or m.active_ids_valid is not True:
        p.violation('loco2:active_id_list:' + idc, 'device active list %r decoded as %r' % (active, m.active_anchor_ids), rp)
    if n:
        bad = None
        if sorted(m.anchor_data) != sorted(ids) or m.data_valid is not True:
            bad = 'anchor data for ids %r, data_valid=%r' % (sorted(m.anchor_data), m.data_valid)
        else:
            for i in ids:
                a = m.anchor_data[i]
                if not same_floats32(a.position, exp[i][0]) or a.is_valid is not exp[i][1]:
                    bad = 'anchor %d decoded %r/%r, device encoded %r' % (i, a.position, a.is_valid, exp[i])
        if bad:
            p.violation('loco2:anchors:' + idc, 'LocoMemory2 ids %r: %s' % (ids, bad), rp)
    return obs


# ================================================= environment model vs. the real Memory class ====

class _CrtpDevice:
    """A Crazyflie seen from below cflib.crazyflie.mem.Memory: answers MEM-port packets from byte images.
    Used only to confirm that ByteMem delivers what the real Memory class delivers."""

    def __init__(self, mems):
        from cflib.utils.callbacks import Caller
        self.mems = mems                      # list of (type, bytearray image, addr8)
        self.disconnected = Caller()
        self.link = self                      # Memory refuses requests while cf.link is None
        self.port_cb = None
        self.replies = []
        self.sent = 0

    def add_port_callback(self, port, cb):
        self.port_cb = cb

    def send_packet(self, pk, expected_reply=(), resend=False, timeout=0.2):
        from cflib.crtp.crtpstack import CRTPPacket
        self.sent += 1
        d = bytes(pk.data)
        out = CRTPPacket()
        out.set_header(pk.port, pk.channel)
        if pk.channel == 0:
            if d[0] == 1:
                out.data = bytes([1, len(self.mems)])
            else:
                t, img, a8 = self.mems[d[1]]
                out.data = bytes([2, d[1], t]) + struct.pack('<I', len(img)) + a8
        elif pk.channel == 1:
            mid, addr, n = struct.unpack('<BIB', d)
            img = self.mems[mid][1]
            if addr + n <= len(img):
                out.data = struct.pack('<BIB', mid, addr, 0) + bytes(img[addr:addr + n])
            else:
                out.data = struct.pack('<BIB', mid, addr, 5)
        else:
            mid, addr = struct.unpack('<BI', d[:5])
            img = self.mems[mid][1]
            if addr + len(d) - 5 <= len(img):
                img[addr:addr + len(d) - 5] = d[5:]
                out.data = struct.pack('<BIB', mid, addr, 0)
            else:
                out.data = struct.pack('<BIB', mid, addr, 5)
        self.replies.append(out)

    def pump(self):
        n = 0
        while self.replies:
            n += 1
            self.port_cb(self.replies.pop(0))
        return n


def gen_realmem(tier):
    for bi in range(len(_ow_bases(tier))):
        yield {'kind': 'ow', 'base': bi, 'tier_bases': tier}
    for bi in range(len(EE_BASES_THOROUGH)):
        for pos, mask in ((None, 0), (4, 1), (7, 0x80), (15, 1), (0, 2)):
            yield {'kind': 'ee', 'base': bi, 'pos': pos, 'mask': mask}
    for bs in (0, 1, 15):
        yield {'kind': 'lh', 'bs': bs}


def case_realmem(p, prm):
    from cflib.crazyflie.mem import Memory
    obs = {'image': 'same image through the real Memory class and through ByteMem', 'kind': prm['kind']}
    if prm['kind'] == 'ow':
        pins, vid, pid, we = _ow_bases(prm['tier_bases'])[prm['base']]
        img = D.ow_image(pins, vid, pid, we)
        img = bytearray(img + b'\xff' * (112 - len(img)))
        dev = _CrtpDevice([(0, bytearray(64), bytes(8)), (1, bytearray(img), bytes(range(8)))])
        mem = Memory(dev)
        done = []
        mem.refresh(lambda: done.append(1))
        pk = dev.pump()
        a = mem.get_mem(1)
        b, calls, err, _, _ = _ow_read(img, 112)
        sa = (a.valid, a.pins, a.vid, a.pid, dict(a.elements), len(done))
        sb = (b.valid, b.pins, b.vid, b.pid, dict(b.elements), len(calls))
    elif prm['kind'] == 'ee':
        ver, ch, sp, pitch, roll, addr = EE_BASES_THOROUGH[prm['base']]
        img = D.eeprom_image(ver, ch, sp, pitch, roll, addr)
        img = bytearray(img + b'\xff' * (32 - len(img)))
        if prm['pos'] is not None:
            img[prm['pos']] ^= prm['mask']
        dev = _CrtpDevice([(0, bytearray(img), bytes(8))])
        mem = Memory(dev)
        mem.refresh(lambda: None)
        dev.pump()
        a = mem.get_mem(0)
        done = []
        a.update(lambda m: done.append(1))
        pk = dev.pump()
        b, calls, err = _ee_read(img)
        sa = (a.valid, repr(sorted(a.elements.items())), len(done))
        sb = (b.valid, repr(sorted(b.elements.items())), len(calls))
    else:
        bs = prm['bs']
        dev = _CrtpDevice([(0x14, bytearray(0x2000), bytes(8))])
        mem = Memory(dev)
        mem.refresh(lambda: None)
        dev.pump()
        a = mem.get_mem(0)
        geo, v = _mk_geo(bs, True)
        got = []
        a.write_geo_data(bs, geo, lambda m, ad: got.append(ad))
        pk = dev.pump()
        a.read_geo_data(bs, lambda m, g: got.append(_geo_diff(g, v, True)))
        pk += dev.pump()
        h = ByteMem(0x2000, fill=0)
        from cflib.crazyflie.mem.lighthouse_memory import LighthouseMemory
        m2 = h.attach(LighthouseMemory(id=0, type=0x14, size=0x2000, mem_handler=h))
        got2 = []
        m2.write_geo_data(bs, geo, lambda m, ad: got2.append(ad))
        h.pump()
        m2.read_geo_data(bs, lambda m, g: got2.append(_geo_diff(g, v, True)))
        h.pump()
        sa = (bytes(dev.mems[0][1]), got)
        sb = (bytes(h.img), got2)
    obs['crtp_packets'] = pk
    obs['agree'] = sa == sb
    p.case(key=('realmem', repr(prm)), outcome=(prm['kind'], sa == sb))
    p.add('traces_validated_against_impl')
    if sa != sb:
        from vf.core import HarnessError
        raise HarnessError('ByteMem and the real Memory class disagree for %r: %r vs %r' % (prm, sa, sb))
    return obs


# ==================================================================================== driver ====

PARTS = {
    'eeprom_rt': (gen_eeprom_rt, case_eeprom_rt, 4),
    'eeprom_corrupt': (gen_eeprom_corrupt, case_eeprom_corrupt, 8),
    'ow_rt': (gen_ow_rt, case_ow_rt, 12),
    'ow_corrupt': (gen_ow_corrupt, case_ow_corrupt, 16),
    'lh_mem': (gen_lh_mem, case_lh_mem, 4),
    'lh_helper': (gen_lh_helper, case_lh_helper, 12),
    'lh_file': (gen_lh_file, case_lh_file, 16),
    'param_file': (gen_param_file, case_param_file, 4),
    'traj': (gen_traj, case_traj, 2),
    'led': (gen_led, case_led, 2),
    'deck': (gen_deck, case_deck, 8),
    'loco': (gen_loco, case_loco, 2),
    'realmem': (gen_realmem, case_realmem, 1),
}
SAMPLE_AT = {'eeprom_rt': 5000, 'eeprom_corrupt': 300, 'ow_rt': 2000, 'ow_corrupt': 40, 'lh_mem': 500, 'lh_helper': 40,
             'lh_file': 60, 'param_file': 50, 'traj': 340, 'led': 3000, 'deck': 1500, 'loco': 250, 'realmem': 9}
NEEDS_TIER = ('eeprom_corrupt', 'ow_corrupt')
NEEDS_TMP = ('lh_file', 'param_file')


def _work(job):
    name, idx, n, tier = job
    gen, case, _ = PARTS[name]
    p = Partial()
    tmp = tempfile.TemporaryDirectory() if name in NEEDS_TMP else None
    try:
        for k, prm in enumerate(gen(tier)):
            if k % n != idx:
                continue
            if name in NEEDS_TIER:
                obs = case(p, prm, tier)
            elif tmp is not None:
                obs = case(p, prm, tmp.name)
            else:
                obs = case(p, prm)
            if k == SAMPLE_AT.get(name, 0) and obs is not None:
                p.sample(obs)
            p.add('cases_' + name)
    finally:
        if tmp is not None:
            tmp.cleanup()
    return p


def run(ck):
    ck.rule = ('complete cross products of the stated field alphabets per image family (EEPROM: 2 versions x 4 channels '
               'x 3 speeds x 9x9 float32 trims x 7 addresses; 1-wire: every single-element length 0..253 per id, every '
               'ordered pair of ids x lengths 0..30 x 0..30, triples, 45 header combinations; lighthouse: 16 base '
               'stations x valid flag x float32 extremes in every slot, every subset of <=2 (quick) / <=4 '
               '(thorough) of 16 stations; all 128x4 deck bit-field combinations in each of 8 slots; names of '
               'length 0..18; 0..16 anchors), and for corruption every byte position of each base image x XOR masks '
               '(quick: 8 single-bit, thorough: all 255). distinct = distinct (family, input) tuples; an outcome is the '
               'observed verdict class')
    ck.assume('reference codecs (vf/c14_dev.py) follow the firmware structs: EEPROM checksum = sum mod 256 over bytes '
              '[0,15) (v0) / [0,20) (v1); 1-wire header CRC = zlib.crc32 & 0xff over [0,7), element CRC over [8,10+L)')
    ck.assume('ByteMem delivers a whole requested range in one deferred callback to every registered element, as '
              'Memory does after reassembly; ranges outside the device memory produce the failed callbacks')
    ck.assume('PyYAML safe_load/safe_dump are trusted as the independent reader/writer of the YAML files')
    ck.assume('EEPROM images with a version byte other than 0/1 and CRC-valid 1-wire areas with malformed TLVs have no '
              'defined layout: counted, not judged')
    jobs = []
    for name, (_, _, n) in PARTS.items():
        jobs += [(name, i, n, ck.tier) for i in range(n)]
    ck.pmap(_work, jobs)
    ck.exhaustive = True
    ck.note('xor_masks', len(_masks(ck.tier)))
    ck.note('families', sorted(PARTS))


def replay(ck, data):
    part = data.get('part')
    if part not in PARTS:
        print('unknown part %r' % (part,))
        return
    prm = {k: v for k, v in data.items() if k != 'part'}
    case = PARTS[part][1]
    p = Partial()
    obs = case(p, prm, 'thorough') if part in NEEDS_TIER else case(p, prm)
    print('replayed %s case %r' % (part, prm))
    print('observed: %r' % (obs,))
    for v in p.violations:
        ck.violation(v['sig'], v['what'], v['replay'])
