"""C18 — CPX framing and routing preserve packets under any stream fragmentation.

Everything runs the real cflib code (CPXPacket, SocketTransport, UARTTransport, CPXRouter, CPX,
TcpDriver, SerialDriver and their receive threads) over scripted in-memory devices.  No real socket,
serial port or thread is ever created: the module globals `socket`/`serial`/`Lock` of
`cflib.cpx.transports`, `queue`/`CPXRouter` of `cflib.cpx` and `_CPXReceiveThread`/`list_ports` of the two
drivers are rebound to fakes; thread bodies (`run()`) are called synchronously and stopped by a private
BaseException raised by the scripted device when it has nothing more to say.

Parts
  codec    every (source, destination, function, lastPacket) x payload length through the real
           encoder/decoder against an independent reference; every one of the 65 536 header byte pairs
           through the real decoder (unsupported versions must be rejected); frames written by
           CPX.sendPacket on the scripted socket.
  frag     short streams of 1..k packets, ALL 2^(n-1) compositions of the n stream bytes into recv
           chunks (recv(k) answers min(k, rest of the current chunk)), through SocketTransport.readPacket.
  fragbig  long frames (length prefix >= 256, MTU 1022): every single cut, every composition of the first
           bytes x several tail chunkings.
  router   real CPXRouter.run over the real SocketTransport; all interleavings of router steps with
           receivePacket(function, timeout=0) calls of three receivers, all packet sequences over
           {CRTP, APP, CONSOLE, bad-version}.
  tcp      CRTP through TcpDriver (send_packet / _CPXReceiveThread.run / receive_packet), all 256 headers
           x payload lengths.
  serial   the same through SerialDriver/UARTTransport with a fake pyserial (pyserial is not installed).
"""
import contextlib
import logging
import queue as _rq
import struct

from vf.core import HarnessError
from vf.core import Partial

ID = 'C18'
LEVEL = 'model_checking'

TARGETS = (1, 2, 3, 4)
TNAME = {1: 'STM32', 2: 'ESP32', 3: 'HOST', 4: 'GAP8'}
FUNCS = (1, 2, 3, 4, 5, 0x0E, 0x0F)
FNAME = {1: 'SYSTEM', 2: 'CONSOLE', 3: 'CRTP', 4: 'WIFI_CTRL', 5: 'APP', 0x0E: 'TEST', 0x0F: 'BOOTLOADER'}
STM32, HOST = 1, 3
F_CRTP = 3


# ---------------------------------------------------------------------------------------------------
# independent reference of the CPX wire format (Bitcraze CPX documentation)
#   byte 0: bits 0-2 destination, bits 3-5 source, bit 6 lastPacket, bit 7 reserved
#   byte 1: bits 0-5 function, bits 6-7 version (0 is the only supported one)
#   TCP: little-endian uint16 (2 + payload length) in front of the two header bytes
#   UART: 0xFF, length byte (2 + payload length), header, payload, XOR of everything before
# ---------------------------------------------------------------------------------------------------

def ref_hdr(src, dst, fn, last, ver=0):
    return bytes([((src & 7) << 3) | (dst & 7) | (0x40 if last else 0), (fn & 0x3f) | ((ver & 3) << 6)])


def ref_frame(src, dst, fn, last, payload, ver=0):
    body = ref_hdr(src, dst, fn, last, ver) + bytes(payload)
    return struct.pack('<H', len(body)) + body


def ref_uart(src, dst, fn, last, payload):
    body = ref_hdr(src, dst, fn, last) + bytes(payload)
    fr = bytes([0xFF, len(body)]) + body
    x = 0
    for b in fr:
        x ^= b
    return fr + bytes([x])


def _val(x):
    return getattr(x, 'value', x)


def _fields(pkt):
    """(source, destination, function, lastPacket, payload) of a real CPXPacket, as plain values."""
    return (_val(pkt.source), _val(pkt.destination), _val(pkt.function), bool(pkt.lastPacket), bytes(pkt.data))


def _show(f):
    s, d, fn, last, pl = f
    return '%s->%s/%s last=%d payload=%s' % (TNAME.get(s, s), TNAME.get(d, d), FNAME.get(fn, fn), last,
                                              pl.hex() if len(pl) <= 24 else '%s..(%d bytes)' % (pl[:8].hex(), len(pl)))


# ---------------------------------------------------------------------------------------------------
# scripted environment
# ---------------------------------------------------------------------------------------------------

class _Exhausted(BaseException):
    """The scripted device has nothing more to deliver: a real recv()/read() would block for ever.
    Used to leave thread bodies that are run synchronously (cflib has no bare except)."""


class _Deadlock(BaseException):
    """A blocking call that can never return in the scripted world."""


class _Null:
    def write(self, s):
        return len(s)

    def flush(self):
        pass


@contextlib.contextmanager
def _quiet():
    logging.disable(logging.CRITICAL)
    try:
        with contextlib.redirect_stdout(_Null()):
            yield
    finally:
        logging.disable(logging.NOTSET)


class _Net:
    """Host side of one TCP connection: a byte stream cut into chunks + everything the host sent."""

    def __init__(self):
        self.stream = b''
        self.n = 0
        self.bounds = [0]
        self.bi = 0
        self.pos = 0
        self.answers = []
        self.sent = bytearray()
        self.hook = None
        self.opened = []
        self.calls = 0

    def load(self, stream, bounds):
        self.stream = stream
        self.n = len(stream)
        self.bounds = bounds
        self.bi = 0
        self.pos = 0
        self.answers = []
        self.calls = 0

    def recv(self, want):
        self.calls += 1
        if self.calls > 8 * self.n + 64:
            raise _Deadlock('reader keeps calling recv without consuming the stream')
        if self.hook is not None:
            self.hook(self.pos)
        pos = self.pos
        if want < 0:
            raise ValueError('negative buffersize in recv')
        if want == 0:
            return b''
        if pos >= self.n:
            raise _Exhausted()
        b = self.bounds
        bi = self.bi
        while b[bi] <= pos:
            bi += 1
        self.bi = bi
        k = b[bi] - pos
        if want < k:
            k = want
        self.pos = pos + k
        self.answers.append(k)
        return self.stream[pos:pos + k]


class _FakeSock:
    def __init__(self, net):
        self.net = net

    def connect(self, addr):
        self.net.opened.append(addr)

    gate = None       # part 'senders': parks the calling thread before every send

    def send(self, data, *flags):
        if _FakeSock.gate is not None:
            _FakeSock.gate.before_send()
        self.net.sent += bytes(data)
        return len(data)

    def sendall(self, data, *flags):
        if _FakeSock.gate is not None:
            _FakeSock.gate.before_send()
        self.net.sent += bytes(data)

    def recv(self, n, *flags):
        return self.net.recv(n)

    def recv_into(self, buffer, nbytes=0, *flags):
        # same stream, same fragmentation: at most nbytes (0 = the whole buffer) are stored at the start of `buffer`
        mv = memoryview(buffer).cast('B')
        n = nbytes or len(mv)
        if n > len(mv):
            raise ValueError('buffer too small for requested bytes')
        got = self.net.recv(n)
        mv[:len(got)] = got
        return len(got)

    def shutdown(self, how):
        pass

    def close(self):
        pass

    def settimeout(self, t):
        pass

    def setsockopt(self, *a):
        pass


class _FakeSocketModule:
    AF_INET, SOCK_STREAM, SHUT_RD, SHUT_WR, SHUT_RDWR = 2, 1, 0, 1, 2
    IPPROTO_TCP, TCP_NODELAY, SOL_SOCKET, SO_REUSEADDR = 6, 1, 1, 2
    error = OSError
    timeout = TimeoutError

    def __init__(self, net):
        self.net = net

    def socket(self, *a, **k):
        return _FakeSock(self.net)


class _FakeSerial:
    """pyserial.Serial with timeout=None: read(n) returns exactly n bytes (blocks until it has them)."""

    def __init__(self, env, device, baudrate, timeout):
        self.env = env
        env.serial_opened.append((device, baudrate, timeout))

    def read(self, n=1):
        e = self.env
        if len(e.dev_tx) - e.dev_pos < n:
            raise _Exhausted()
        r = bytes(e.dev_tx[e.dev_pos:e.dev_pos + n])
        e.dev_pos += n
        return r

    def write(self, data):
        b = bytes(data)
        e = self.env
        e.host_tx.append(b)
        if b != b'\xff\x00' and e.auto_cts:
            e.dev_tx += b'\xff\x00'      # the device acknowledges every data frame with clear-to-send
        return len(b)

    def close(self):
        pass

    def flush(self):
        pass


class _FakeSerialModule:
    def __init__(self, env):
        self.env = env

    def Serial(self, device, baudrate=9600, timeout=None, **kw):
        return _FakeSerial(self.env, device, baudrate, timeout)


class _Port:
    def __init__(self, name, device):
        self.name = name
        self.device = device


class _FakeListPorts:
    @staticmethod
    def comports():
        return [_Port('ttyVF0', '/dev/ttyVF0'), _Port('', '/dev/ttyVF1')]


class _FakeLock:
    """threading.Lock for a single-threaded world: a blocked acquire lets 'the other thread' (the
    router) run until the device script is exhausted; still held afterwards = blocked for ever."""

    def __init__(self, env):
        self.env = env
        self.held = False

    def acquire(self, blocking=True, timeout=-1):
        if self.held:
            self.env.on_block()
            if self.held:
                raise _Deadlock('lock never released')
        self.held = True
        return True

    def release(self):
        if not self.held:
            raise RuntimeError('release unlocked lock')
        self.held = False

    def locked(self):
        return self.held

    __enter__ = acquire

    def __exit__(self, *a):
        self.release()


def _make_queue_module(env):
    """stdlib `queue` without wall-clock waiting: a get() on an empty queue reports Empty at once
    (nothing else can run in the meantime) after telling the harness."""

    class _GetMixin:
        def get(self, block=True, timeout=None):
            if not self._qsize():
                if env.on_empty is not None:
                    env.on_empty()
                if block and timeout is None:
                    raise _Deadlock('blocking get on an empty queue')
                raise _rq.Empty
            return super().get(False)

    class Queue(_GetMixin, _rq.Queue):
        pass

    class LifoQueue(_GetMixin, _rq.LifoQueue):
        pass

    class PriorityQueue(_GetMixin, _rq.PriorityQueue):
        pass

    class _Mod:
        Empty = _rq.Empty
        Full = _rq.Full
    _Mod.Queue = Queue
    _Mod.LifoQueue = LifoQueue
    _Mod.PriorityQueue = PriorityQueue
    if hasattr(_rq, 'SimpleQueue'):
        _Mod.SimpleQueue = Queue
    return _Mod


_MISSING = object()


class _Env:
    """Binds the fakes into the cflib modules (and restores them)."""

    def __init__(self, serial=False, hook_queue=False):
        self.net = _Net()
        self.use_serial = serial
        self.use_hook_queue = hook_queue
        self.saved = []
        self.routers = []
        self.rx_threads = []
        self.on_empty = None
        self.link_errors = []
        # serial world
        self.serial_opened = []
        self.dev_tx = bytearray()
        self.dev_pos = 0
        self.host_tx = []
        self.auto_cts = True

    def _bind(self, mod, name, value):
        self.saved.append((mod, name, mod.__dict__.get(name, _MISSING)))
        setattr(mod, name, value)

    def __enter__(self):
        import cflib.cpx as cpx_mod
        import cflib.cpx.transports as tr_mod
        import cflib.crtp.tcpdriver as tcp_mod
        import cflib.crtp.serialdriver as ser_mod
        env = self
        self.cpx_mod, self.tr_mod, self.tcp_mod, self.ser_mod = cpx_mod, tr_mod, tcp_mod, ser_mod
        self._bind(tr_mod, 'socket', _FakeSocketModule(self.net))

        class SyncRouter(cpx_mod.CPXRouter):
            def start(self):            # never a real thread: run() is driven by the harness
                env.routers.append(self)

        self._bind(cpx_mod, 'CPXRouter', SyncRouter)

        def sync_rx(base):
            class SyncRx(base):
                def start(self):
                    env.rx_threads.append(self)

                def join(self, timeout=None):
                    pass
            return SyncRx

        self._bind(tcp_mod, '_CPXReceiveThread', sync_rx(tcp_mod._CPXReceiveThread))
        self._bind(ser_mod, '_CPXReceiveThread', sync_rx(ser_mod._CPXReceiveThread))
        if self.use_hook_queue:
            self._bind(cpx_mod, 'queue', _make_queue_module(self))
        if self.use_serial:
            self._bind(tr_mod, 'serial', _FakeSerialModule(self))
            self._bind(tr_mod, 'Lock', lambda: _FakeLock(env))
            self._bind(ser_mod, 'list_ports', _FakeListPorts)
        return self

    def __exit__(self, *a):
        for mod, name, old in reversed(self.saved):
            if old is _MISSING:
                delattr(mod, name)
            else:
                setattr(mod, name, old)
        self.saved = []

    # -- helpers -----------------------------------------------------------------------------------
    def socket_transport(self):
        return self.tr_mod.SocketTransport('verif.invalid', 5000)

    def new_cpx(self):
        del self.routers[:]
        return self.cpx_mod.CPX(self.socket_transport())

    def pump(self, router):
        """Let the router thread body run until the device falls silent."""
        try:
            router.run()
        except _Exhausted:
            return 'exhausted'
        return 'returned'

    def on_block(self):
        if self.routers:
            self.pump(self.routers[-1])

    def link_error(self, msg):
        self.link_errors.append(str(msg).strip().splitlines()[1] if '\n' in str(msg) else str(msg))
        if len(self.link_errors) > 40:
            raise _Exhausted()

    def run_rx(self, rx):
        """One activation of the driver's receive thread body: runs until its queue is empty."""
        rx.sp = False
        self.on_empty = lambda: setattr(rx, 'sp', True)
        try:
            rx.run()
        except _Exhausted:
            pass
        finally:
            self.on_empty = None
            rx.sp = False


# ---------------------------------------------------------------------------------------------------
# part: codec
# ---------------------------------------------------------------------------------------------------

def _payload(n, salt):
    return bytes((salt * 29 + i * 37 + (i >> 8) * 11 + 1) & 0xff for i in range(n))


def _codec_lengths(quick):
    ls = list(range(0, 65)) + [100, 253, 254, 255, 256, 1021, 1022]
    if not quick:
        ls += list(range(65, 100)) + [257, 511, 512, 1023, 1024, 4094, 65533]
    return sorted(set(ls))


def part_codec(job):
    kind, arg, want_sample = job
    p = Partial()
    with _quiet(), _Env() as env:
        from cflib.cpx import CPXFunction
        from cflib.cpx import CPXPacket
        from cflib.cpx import CPXTarget
        if kind == 'combos':
            lengths, dtype = arg
            cpx = env.new_cpx()
            tr = cpx._router._transport
            for src in TARGETS:
                for dst in TARGETS:
                    for fn in FUNCS:
                        for last in (False, True):
                            for ln in lengths:
                                pl = _payload(ln, src * 4 + dst + fn)
                                exp = (src, dst, fn, last, pl)
                                rp = {'part': 'codec', 'kind': 'combo', 'src': src, 'dst': dst, 'fn': fn,
                                      'last': last, 'len': ln, 'dtype': dtype}
                                probs, obs = _codec_combo(env, cpx, tr, CPXPacket, CPXTarget, CPXFunction, exp, dtype)
                                p.case(key=('combo', src, dst, fn, last, ln, dtype),
                                       outcome=(src, dst, fn, last, min(ln, 3)))
                                p.add('traces_validated_against_impl', 4)
                                if want_sample and (src, dst, fn, last, ln) == (3, 1, 3, True, 4):
                                    p.sample({'part': 'codec', 'packet': _show(exp), 'wire': obs.get('wire'),
                                              'tcp_frame_written': obs.get('sent'), 'decoded_back': obs.get('back')})
                                cls = 'len%s' % ('0' if ln == 0 else '<256' if ln < 254 else '>=254')
                                for clause, text in probs:
                                    p.violation('codec:%s:%s' % (clause, cls), text, rp)
        else:
            lo, hi = arg
            for b0 in range(lo, hi):
                for b1 in range(256):
                    for pl in (b'', b'\x00', b'\x05\x00\x19\x03\xaa'):
                        probs, obs = _codec_header(CPXPacket, b0, b1, pl)
                        p.case(key=('hdr', b0, b1, len(pl)), outcome=obs['class'])
                        p.add('traces_validated_against_impl', 1)
                        if want_sample and (b0, b1, len(pl)) in ((0x19, 0x43, 1), (0x59, 0x03, 5)):
                            p.sample({'part': 'codec', 'header_bytes': '%02x %02x' % (b0, b1),
                                      'reference': obs['class'], 'real_decoder': obs['got']})
                        for clause, text in probs:
                            p.violation('codec:%s' % clause, text,
                                        {'part': 'codec', 'kind': 'header', 'b0': b0, 'b1': b1, 'payload': pl.hex()})
    return p


def _codec_combo(env, cpx, tr, CPXPacket, CPXTarget, CPXFunction, exp, dtype):
    src, dst, fn, last, pl = exp
    probs, obs = [], {}
    data = {'bytes': pl, 'bytearray': bytearray(pl), 'list': list(pl), 'tuple': tuple(pl)}[dtype]
    wire_ref = ref_hdr(src, dst, fn, last) + pl
    # encode
    wire = None
    try:
        pk = CPXPacket(function=CPXFunction(fn), destination=CPXTarget(dst), source=CPXTarget(src), data=data)
        pk.lastPacket = last
        wire = bytes(pk.wireData)
        obs['wire'] = wire[:12].hex()
        if wire != wire_ref:
            probs.append(('encode_wire', 'encoding %s gave %s.., CPX wire format is %s..' % (
                _show(exp), wire[:8].hex(), wire_ref[:8].hex())))
    except Exception as e:  # noqa
        probs.append(('encode_raises', 'encoding %s raised %r' % (_show(exp), e)))
    # decode the reference bytes
    try:
        q = CPXPacket()
        q.wireData = bytearray(wire_ref)
        got = _fields(q)
        if got != exp:
            probs.append(('decode_wire', 'decoding %s.. gave %s, expected %s' % (wire_ref[:8].hex(), _show(got), _show(exp))))
    except Exception as e:  # noqa
        probs.append(('decode_raises', 'decoding %s.. (%s) raised %r' % (wire_ref[:8].hex(), _show(exp), e)))
    # round trip through the real encoder and the real decoder
    if wire is not None:
        try:
            q = CPXPacket()
            q.wireData = bytearray(wire)
            got = _fields(q)
            obs['back'] = _show(got)
            if got != exp:
                probs.append(('roundtrip', '%s came back as %s' % (_show(exp), _show(got))))
        except Exception as e:  # noqa
            probs.append(('roundtrip', '%s: decoding its own encoding raised %r' % (_show(exp), e)))
    # what CPX.sendPacket writes on the TCP socket
    try:
        pk = CPXPacket(function=CPXFunction(fn), destination=CPXTarget(dst), source=CPXTarget(src), data=data)
        pk.lastPacket = last
        mark = len(env.net.sent)
        cpx.sendPacket(pk)
        sent = bytes(env.net.sent[mark:])
        del env.net.sent[:]
        obs['sent'] = sent[:14].hex()
        want = struct.pack('<H', len(pl) + 2) + wire_ref
        if sent != want:
            probs.append(('tcp_frame_written', 'sendPacket(%s) wrote %s.. (%d bytes), expected %s.. (%d bytes)' % (
                _show(exp), sent[:8].hex(), len(sent), want[:8].hex(), len(want))))
    except Exception as e:  # noqa
        probs.append(('tcp_send_raises', 'sendPacket(%s) raised %r' % (_show(exp), e)))
    return probs, obs


def _codec_header(CPXPacket, b0, b1, pl):
    ver = b1 >> 6
    src, dst, fn, last = (b0 >> 3) & 7, b0 & 7, b1 & 0x3f, bool(b0 & 0x40)
    if ver != 0:
        cls = 'unsupported_version'
    elif b0 & 0x80:
        cls = 'reserved_bit_set'          # nothing demanded
    elif src in TARGETS and dst in TARGETS and fn in FUNCS:
        cls = 'valid'
    else:
        cls = 'undefined_target_or_function'   # nothing demanded
    probs = []
    try:
        q = CPXPacket()
        q.wireData = bytearray(bytes([b0, b1]) + pl)
        got = _fields(q)
        gs = 'decoded'
    except Exception as e:  # noqa
        got = e
        gs = 'raised %s' % type(e).__name__
    if cls == 'unsupported_version' and not isinstance(got, Exception):
        probs.append(('bad_version_accepted', 'header %02x %02x carries CPX version %d but was decoded as %s' % (
            b0, b1, ver, _show(got))))
    if cls == 'valid':
        exp = (src, dst, fn, last, pl)
        if isinstance(got, Exception):
            probs.append(('decode_raises', 'valid header %02x %02x (%s) raised %r' % (b0, b1, _show(exp), got)))
        elif got != exp:
            probs.append(('decode_wire', 'header %02x %02x decoded as %s, expected %s' % (b0, b1, _show(got), _show(exp))))
    return probs, {'class': cls, 'got': gs}


# ---------------------------------------------------------------------------------------------------
# part: frag (all compositions) / fragbig
# ---------------------------------------------------------------------------------------------------

_COMBOS = [(s, d, f, l) for l in (False, True) for f in FUNCS for s in TARGETS for d in TARGETS]


def _mk_stream(shape, fill, salt):
    """shape: payload lengths. Returns (packets, stream, starts)."""
    pkts = []
    for i, ln in enumerate(shape):
        s, d, f, l = _COMBOS[(salt * 53 + i * 37 + ln * 5) % len(_COMBOS)]
        if fill == 'ramp':
            pl = bytes((0x81 + 16 * i + j) & 0xff for j in range(ln))
        elif fill == 'mimic':          # payload bytes that look like an empty frame / a length prefix
            pat = (0x02, 0x00, 0x19, 0x03, 0x01, 0x00, 0xff, 0x00)
            pl = bytes(pat[(j + i) % len(pat)] for j in range(ln))
        else:
            pl = _payload(ln, salt + i)
        pkts.append((s, d, f, l, pl))
    stream = b''
    starts = []
    for pk in pkts:
        starts.append(len(stream))
        stream += ref_frame(*pk)
    return pkts, stream, starts


def _frag_class(starts, n, bounds):
    kinds = set()
    ends = starts[1:] + [n]
    for c in bounds[:-1]:
        for s, e in zip(starts, ends):
            if s <= c < e:
                off = c - s
                kinds.add('len' if off == 1 else 'hdr' if off == 3 else 'payload' if off >= 5 else 'aligned')
    for k, name in (('len', 'cut_inside_length_prefix'), ('hdr', 'cut_inside_cpx_header'),
                    ('payload', 'cut_inside_payload')):
        if k in kinds:
            return name
    return 'cuts_at_field_boundaries_only'


def _frag_exec(tr, net, pkts, stream, bounds):
    """Read len(pkts) packets through the real SocketTransport.readPacket from the chunked stream."""
    net.load(stream, bounds)
    probs = []
    for j, exp in enumerate(pkts):
        try:
            pk = tr.readPacket()
        except _Exhausted:
            probs.append(('reads_past_end', 'packet %d of %d: reader asked for bytes beyond the end of the stream '
                          '(consumed %d of %d)' % (j, len(pkts), net.pos, net.n)))
            break
        except Exception as e:  # noqa
            probs.append(('raises_%s' % type(e).__name__, 'packet %d of %d: readPacket raised %r' % (j, len(pkts), e)))
            break
        try:
            got = _fields(pk)
        except Exception as e:  # noqa
            probs.append(('bad_object', 'packet %d: %r' % (j, e)))
            break
        if got != exp:
            probs.append(('packet_mismatch', 'packet %d of %d re-assembled as %s, sent %s' % (
                j, len(pkts), _show(got), _show(exp))))
            break
    else:
        if net.pos != net.n:
            probs.append(('bytes_left', 'all packets read but %d of %d stream bytes consumed' % (net.pos, net.n)))
    return probs


def _bounds_from_mask(n, mask):
    return [i + 1 for i in range(n - 1) if (mask >> i) & 1] + [n]


def part_frag(job):
    sid, shape, fill, want_sample = job
    p = Partial()
    pkts, stream, starts = _mk_stream(shape, fill, sid)
    n = len(stream)
    nodes = set()
    with _quiet(), _Env() as env:
        tr = env.socket_transport()
        net = env.net
        for mask in range(1 << (n - 1)):
            bounds = _bounds_from_mask(n, mask)
            probs = _frag_exec(tr, net, pkts, stream, bounds)
            ans = net.answers
            p.transitions += len(ans)
            h = sid
            for k in ans:
                h = hash((h, k))
                nodes.add(h)
            p.case(key=(sid, tuple(ans)), outcome=(len(shape), len(ans)))
            if want_sample and mask in ((1 << (n - 1)) - 1, 0b0101101):
                p.sample({'part': 'frag', 'stream': stream.hex(), 'packets': [_show(x) for x in pkts],
                          'chunks': _chunks(bounds), 'recv_answers': list(ans),
                          'result': 'same packets' if not probs else probs[0][0]})
            if probs:
                cls = _frag_class(starts, n, bounds)
                for clause, text in probs:
                    p.violation('frag:%s:%s:%s' % (clause, cls, 'single_packet' if len(shape) == 1 else 'multi_packet'),
                                'stream %s cut into chunks %s: %s' % (stream.hex(), _chunks(bounds), text),
                                {'part': 'frag', 'shape': list(shape), 'fill': fill, 'sid': sid, 'bounds': bounds})
    p.states += len(nodes) + 1
    p.add('traces_validated_against_impl', 1 << (n - 1))
    p.add('frag_compositions', 1 << (n - 1))
    return p


def _chunks(bounds):
    out, prev = [], 0
    for b in bounds:
        out.append(b - prev)
        prev = b
    if len(out) > 16:
        return '%s..(%d chunks)' % (out[:12], len(out))
    return out


def _big_bounds(n, quick):
    """Stated finite family of fragmentations for long streams."""
    yield [n]
    for c in range(1, n):
        yield [c, n]
    m = min(7, n - 1)
    tails = (0, 1, 2, 255, 256) if quick else (0, 1, 2, 3, 7, 255, 256, 257)
    for mask in range(1 << m):
        head = [i + 1 for i in range(m) if (mask >> i) & 1]
        for t in tails:
            if t == 0:
                yield head + [n]
            else:
                yield head + list(range(m + t, n, t)) + [n]
    if not quick:
        for c1 in range(1, min(9, n)):
            for c2 in range(c1 + 1, n):
                yield [c1, c2, n]


def part_fragbig(job):
    sid, shape, quick, want_sample = job
    p = Partial()
    pkts, stream, starts = _mk_stream(shape, 'pattern', sid)
    n = len(stream)
    seen = set()
    with _quiet(), _Env() as env:
        tr = env.socket_transport()
        net = env.net
        for bounds in _big_bounds(n, quick):
            key = tuple(bounds)
            if key in seen:
                continue
            seen.add(key)
            probs = _frag_exec(tr, net, pkts, stream, bounds)
            ans = net.answers
            p.transitions += len(ans)
            p.states += len(ans) + 1
            p.case(key=(sid, 'big', tuple(ans) if len(ans) < 40 else (len(ans), ans[:8], key[:8])),
                   outcome=(len(shape), min(len(ans), 9)))
            p.add('traces_validated_against_impl', 1)
            if want_sample and bounds == [1, n]:
                p.sample({'part': 'fragbig', 'payload_lengths': list(shape), 'stream_bytes': n,
                          'length_prefix': stream[:2].hex(), 'chunks': _chunks(bounds),
                          'recv_answers': list(ans[:8]), 'result': 'same packets' if not probs else probs[0][0]})
            if probs:
                cls = _frag_class(starts, n, bounds)
                for clause, text in probs:
                    p.violation('fragbig:%s:%s' % (clause, cls),
                                '%d-byte stream (payload lengths %s) cut into chunks %s: %s' % (
                                    n, list(shape), _chunks(bounds), text),
                                {'part': 'fragbig', 'shape': list(shape), 'sid': sid, 'bounds': bounds})
    return p


# ---------------------------------------------------------------------------------------------------
# part: router (interleavings of router steps and receive calls)
# ---------------------------------------------------------------------------------------------------

_SYM_FN = {'c': 3, 'a': 5, 'o': 2}
_RECEIVERS = ('c', 'a', 'o')


def _router_packets(seq):
    """One packet per symbol; the payload carries a unique tag. 'X' = CRTP function bits, version != 0."""
    out = []
    for i, s in enumerate(seq):
        src = TARGETS[(i + (0 if s == 'X' else _SYM_FN[s])) % 4]
        pl = bytes([i, 0xA0 + i, ord(s)])
        if s == 'X':
            out.append((src, HOST, F_CRTP, bool(i & 1), pl, 1 + i % 3))
        else:
            out.append((src, HOST, _SYM_FN[s], bool(i & 1), pl, 0))
    return out


def _router_exec(env, seq, ops, mode):
    """seq: packet symbols; ops: string over 'R' (router handles the next packet) and c/a/o (that
    receiver calls receivePacket(function, timeout=0)); mode 0: one recv chunk per frame, 1: one byte
    per recv. Returns (problems, log)."""
    from cflib.cpx import CPXFunction
    pkts = _router_packets(seq)
    L = len(pkts)
    frames = [ref_frame(*pk) for pk in pkts]
    stream = b''.join(frames)
    starts, pos = {}, 0
    ends = []
    for i, fr in enumerate(frames):
        starts[pos] = i
        pos += len(fr)
        ends.append(pos)
    starts[pos] = L
    bounds = list(ends) if mode == 0 else list(range(1, len(stream) + 1))
    pre = ops.split('R')
    if len(pre) != L + 1:
        raise HarnessError('schedule %r does not have %d router steps' % (ops, L))
    net = env.net
    cpx = env.new_cpx()
    router = cpx._router
    probs, log = [], []
    st = {'next': 0, 'tainted': False, 'depth': 0}
    created = set()
    arrived = {s: [] for s in _RECEIVERS}      # arrival order per function
    mandatory = set()
    delivered = set()
    last_del = {s: -1 for s in _RECEIVERS}

    def arrive(j):
        s = seq[j]
        if s == 'X':
            # a rejected packet has been consumed whole: the packets behind it are demanded like any other (the stream
            # must stay in step)
            return
        arrived[s].append(j)
        if s in created and not st['tainted']:
            mandatory.add(j)

    def do_g(s):
        created.add(s)
        pend = [j for j in arrived[s] if j in mandatory and j not in delivered]
        st['depth'] = max(st['depth'], len(pend))
        try:
            r = cpx.receivePacket(CPXFunction(_SYM_FN[s]), timeout=0)
        except _rq.Empty:
            log.append('%s:-' % s)
            if pend:
                probs.append(('not_delivered', 'receiver of %s got nothing although packet #%d of that function '
                              'arrived after its first receivePacket call' % (FNAME[_SYM_FN[s]], pend[0])))
            return False
        except Exception as e:  # noqa
            log.append('%s:!' % s)
            probs.append(('receive_raises', 'receivePacket(%s) raised %r' % (FNAME[_SYM_FN[s]], e)))
            return False
        try:
            got = _fields(r)
        except Exception as e:  # noqa
            probs.append(('corrupted', 'receiver of %s got a broken object: %r' % (FNAME[_SYM_FN[s]], e)))
            return True
        pl = got[4]
        j = pl[0] if len(pl) == 3 and pl[0] < L and pl[1] == 0xA0 + pl[0] else None
        log.append('%s:#%s' % (s, j))
        if j is None:
            probs.append(('corrupted', 'receiver of %s got an unknown packet %s' % (FNAME[_SYM_FN[s]], _show(got))))
            return True
        if seq[j] == 'X':
            probs.append(('bad_version_delivered', 'packet #%d (CPX version %d) was handed to the receiver of %s' % (
                j, pkts[j][5], FNAME[_SYM_FN[s]])))
            return True
        if seq[j] != s or got[2] != _SYM_FN[s]:
            probs.append(('wrong_function', 'packet #%d of function %s was handed to the receiver of %s' % (
                j, FNAME[_SYM_FN[seq[j]]], FNAME[_SYM_FN[s]])))
            delivered.add(j)
            return True
        if got != pkts[j][:5]:
            probs.append(('corrupted', 'packet #%d arrived as %s, sent %s' % (j, _show(got), _show(pkts[j][:5]))))
        if j in delivered:
            probs.append(('duplicated', 'packet #%d was handed out twice' % j))
        elif j not in arrived[s]:
            probs.append(('from_the_future', 'packet #%d handed out before the router read it' % j))
        else:
            skipped = [q for q in pend if q < j]
            if j < last_del[s] or skipped:
                probs.append(('order', 'receiver of %s got packet #%d %s' % (
                    FNAME[_SYM_FN[s]], j, ('before the earlier packet #%d' % skipped[0]) if skipped else
                    ('after the later packet #%d' % last_del[s]))))
        delivered.add(j)
        last_del[s] = max(last_del[s], j)
        return True

    def hook(pos):
        i = starts.get(pos)
        if i is not None and i == st['next']:
            st['next'] = i + 1
            if i >= 1:
                arrive(i - 1)
            for s in pre[i]:
                do_g(s)

    net.load(stream, bounds)
    net.hook = hook
    try:
        try:
            router.run()
            probs.append(('run_returned', 'CPXRouter.run returned although the link is open'))
        except _Exhausted:
            pass
        except Exception as e:  # noqa
            probs.append(('run_died', 'CPXRouter.run died with %r' % (e,)))
    finally:
        net.hook = None
    if st['next'] != L + 1 and not probs:
        probs.append(('stream_not_consumed', 'router stopped asking for data after %d of %d packets' % (st['next'], L)))
    # final drain
    for s in _RECEIVERS:
        for _ in range(L + 2):
            if not do_g(s):
                break
    return probs, {'log': log, 'depth': st['depth'], 'recv_answers': len(net.answers)}


def _schedules(L, gmax):
    """All op strings with exactly L 'R' and at most gmax receiver calls; also counts tree nodes."""
    out = []
    nodes = [0]

    def rec(prefix, r, g):
        nodes[0] += 1
        if r == L:
            out.append(prefix)
        if r < L:
            rec(prefix + 'R', r + 1, g)
        if g < gmax:
            for s in _RECEIVERS:
                rec(prefix + s, r, g + 1)
    rec('', 0, 0)
    return out, nodes[0]


def part_router(job):
    seqs, gmax, modes, want_sample = job
    p = Partial()
    cache = {}
    with _quiet(), _Env() as env:
        for si, seq in seqs:
            L = len(seq)
            if L not in cache:
                cache[L] = _schedules(L, gmax[L])
            scheds, nodes = cache[L]
            for mode in modes(si) if callable(modes) else modes:
                p.states += nodes
                for oi, ops in enumerate(scheds):
                    probs, obs = _router_exec(env, seq, ops, mode)
                    p.transitions += len(ops)
                    p.points += len(ops)
                    p.case(key=('router', seq, ops, mode), outcome=tuple(obs['log']))
                    p.add('traces_validated_against_impl', 1)
                    if want_sample and seq == 'cXac' and ops in ('cRRRRc', 'RRcRaR'):
                        p.sample({'part': 'router', 'packets': seq, 'schedule': ops, 'one_byte_per_recv': bool(mode),
                                  'receive_calls(receiver:#packet)': obs['log'],
                                  'result': 'FIFO per function' if not probs else probs[0][0]})
                    for clause, text in probs:
                        p.violation('router:%s:%s%s' % (clause, 'backlog>=2' if obs['depth'] >= 2 else 'backlog<2',
                                                        ':after_bad_version' if 'X' in seq else ''),
                                    'packets %s, schedule %s, %s: %s' % (
                                        seq, ops, 'one byte per recv' if mode else 'one frame per recv', text),
                                    {'part': 'router', 'seq': seq, 'ops': ops, 'mode': mode})
    return p


def _quick_modes(si):
    return (si % 2,)


def part_transaction(_):
    """makeTransaction (send a packet, hand out the next packet of its function) used on a function that already has
    packets queued, or whose queue exists: nothing queued earlier is lost, order is kept, the request goes out once."""
    from cflib.cpx import CPXFunction, CPXPacket, CPXTarget
    p = Partial()
    with _quiet(), _Env(hook_queue=True) as env:
        for seq in ('aa', 'aca', 'caa', 'aXa', 'a', 'ao'):
            for pre_receive in (True, False):
                pkts = _router_packets(seq)
                stream = b''.join(ref_frame(*pk) for pk in pkts)
                net = env.net
                cpx = env.new_cpx()
                router = cpx._router
                rp = {'part': 'transaction', 'seq': seq, 'pre': pre_receive}
                if pre_receive:
                    # the receivers exist (their queues are created by a first, empty receive) before the packets arrive
                    for s_ in set(seq) - {'X'}:
                        try:
                            cpx.receivePacket(CPXFunction(_SYM_FN[s_]), timeout=0)
                        except _rq.Empty:
                            pass
                net.load(stream, [len(stream)])
                try:
                    router.run()
                except _Exhausted:
                    pass
                except Exception as e:  # noqa
                    p.violation('transaction:router_died', 'router died with %r' % (e,), rp)
                    continue
                expected = [j for j, s_ in enumerate(seq) if s_ == 'a'] if pre_receive else []
                del net.sent[:]
                req = CPXPacket(function=CPXFunction(5), destination=CPXTarget.GAP8, data=bytes([0x77, 0x01]))
                got = []
                try:
                    r = cpx.makeTransaction(req)
                    got.append(_fields(r)[4][0])
                except _Deadlock:
                    got.append('blocks')
                except Exception as e:  # noqa
                    got.append(repr(e))
                for _ in range(len(seq)):
                    try:
                        r = cpx.receivePacket(CPXFunction(5), timeout=0)
                        got.append(_fields(r)[4][0])
                    except _rq.Empty:
                        break
                want = expected if expected else ['blocks']
                p.case(key=('transaction', seq, pre_receive), outcome=(seq, pre_receive, tuple(map(str, got))))
                p.transitions += 1 + len(got)
                if got != want:
                    p.violation('transaction:queued_packets', 'packets %s (receivers %s before they arrived), then makeTransaction '
                                'on function APP: handed out %r, expected %r' % (
                                    seq, 'existed' if pre_receive else 'did not exist', got, want), rp)
                sent = bytes(net.sent)
                if sent.count(bytes([0x77, 0x01])) != 1:
                    p.violation('transaction:request_on_wire', 'makeTransaction put %s on the wire' % sent.hex(), rp)
    return p


# ---------------------------------------------------------------------------------------------------
# part: CRTP tunnelled through CPX (TcpDriver / SerialDriver)
# ---------------------------------------------------------------------------------------------------

def _crtp_payload(h, ln, pat):
    if pat == 0:
        return bytes((h * 7 + i * 37 + ln) & 0xff for i in range(ln))
    if pat == 1:
        return bytes((0xff, 0x00)[(i + h) & 1] for i in range(ln))     # UART start/CTS look-alikes
    return bytes((h ^ (0x55 * (i & 1))) & 0xff for i in range(ln))


def _check_crtp_in(got, exp, probs, what):
    """got: CRTPPackets from driver.receive_packet; exp: [(h, payload)]."""
    if len(got) != len(exp):
        first = next((i for i, (g, e) in enumerate(zip(got, exp)) if _crtp_tuple(g) != _crtp_expect(e)), min(len(got), len(exp)))
        probs.append(('in_count', '%s: %d CRTP packets came out of receive_packet, %d were tunnelled '
                      '(first difference at #%d%s)' % (what, len(got), len(exp), first,
                                                      (': header 0x%02x payload %s' % (exp[first][0], exp[first][1].hex()))
                                                      if first < len(exp) else '')))
        return
    for i, (g, e) in enumerate(zip(got, exp)):
        gt, et = _crtp_tuple(g), _crtp_expect(e)
        if gt != et:
            probs.append(('in_header' if gt[3] == et[3] else 'in_payload',
                          '%s: tunnelled header 0x%02x payload %s came out as header 0x%02x port %d channel %d payload %s' % (
                              what, e[0], e[1].hex(), g.header, g.port, g.channel, bytes(g.data).hex())))
            return


def _crtp_tuple(pk):
    return (pk.header & 0xF3, pk.port, pk.channel, bytes(pk.data))


def _crtp_expect(e):
    h, pl = e
    return (h & 0xF3, h >> 4, h & 3, pl)


def _mk_crtp(CRTPPacket, h, pl, form):
    if form == 'ctor':
        return CRTPPacket(header=h, data=bytearray(pl))
    pk = CRTPPacket()
    if form == 'attr':
        pk.header = h
    else:
        pk.set_header(h >> 4, h & 3)
    pk.data = bytearray(pl)
    return pk


def _len_class(ln):
    return 'payload0' if ln == 0 else 'payload30' if ln == 30 else 'payload1-29'


def part_tcp(job):
    lengths, pats, fmodes, want_sample = job
    p = Partial()
    with _quiet(), _Env(hook_queue=True) as env:
        from cflib.crtp.crtpstack import CRTPPacket
        drv = env.tcp_mod.TcpDriver()
        drv.connect('tcp://verif.invalid:5000', None, env.link_error)
        if len(env.routers) != 1 or len(env.rx_threads) != 1:
            raise HarnessError('TcpDriver.connect did not create one router and one receive thread')
        router, rx = env.routers[0], env.rx_threads[0]
        net = env.net
        env.run_rx(rx)            # the receive thread's first receivePacket creates the CRTP queue
        for ln in lengths:
            for pat in pats:
                # ---- host -> Crazyflie
                for form in ('ctor', 'attr'):
                    for h in range(256):
                        pl = _crtp_payload(h, ln, pat)
                        del net.sent[:]
                        probs = []
                        try:
                            pk = _mk_crtp(CRTPPacket, h, pl, form)
                            snap = (pk.header, bytes(pk.data))
                            drv.send_packet(pk)
                            sent = bytes(net.sent)
                            _check_tcp_out(sent, h, pl, probs)
                            # the caller's packet is the caller's: unchanged by sending, and sending it again (a retry)
                            # puts the same bytes on the wire
                            if (pk.header, bytes(pk.data)) != snap:
                                probs.append(('out_packet_modified', 'the packet reads header 0x%02x data %s after send_packet'
                                              % (pk.header, bytes(pk.data).hex())))
                            del net.sent[:]
                            drv.send_packet(pk)
                            if bytes(net.sent) != sent:
                                probs.append(('out_resend_differs', 'sending the same packet object again put %s on the socket, '
                                              'the first time %s' % (bytes(net.sent).hex(), sent.hex())))
                        except Exception as e:  # noqa
                            sent = b''
                            probs.append(('out_raises', 'send_packet raised %r' % (e,)))
                        p.case(key=('tcp_out', form, h, ln, pat), outcome=('out', ln, h >> 4))
                        p.transitions += 1
                        p.add('traces_validated_against_impl', 1)
                        if want_sample and (h, ln, pat, form) == (0x5d, 2, 0, 'ctor'):
                            p.sample({'part': 'tcp', 'direction': 'send_packet', 'crtp_header': '0x5d',
                                      'crtp_payload': pl.hex(), 'bytes_on_socket': sent.hex(),
                                      'result': 'intact' if not probs else probs[0][0]})
                        for clause, text in probs:
                            p.violation('tcp:%s:%s' % (clause, _len_class(ln)),
                                        'TcpDriver.send_packet(header 0x%02x, payload %s, built by %s): %s' % (h, pl.hex(), form, text),
                                        {'part': 'tcp', 'dir': 'out', 'h': h, 'len': ln, 'pat': pat, 'form': form})
                # ---- Crazyflie -> host
                for fmode in fmodes:
                    for step in (False, True):
                        probs, obs = _tcp_in_batch(env, drv, router, rx, ln, pat, fmode, step)
                        p.case(key=('tcp_in', ln, pat, fmode, step), outcome=('in', ln, obs['n']))
                        p.transitions += obs['recv_answers']
                        p.states += 256
                        p.add('traces_validated_against_impl', 1)
                        if want_sample and (ln, pat, fmode, step) == (2, 0, 1, False):
                            p.sample({'part': 'tcp', 'direction': 'receive', 'frames': 256 + 16, 'payload_len': ln,
                                      'chunking': 'one byte per recv', 'crtp_packets_out': obs['n'],
                                      'first': obs['first'], 'result': 'intact, in order' if not probs else probs[0][0]})
                        for clause, text in probs:
                            p.violation('tcp:%s:%s' % (clause, _len_class(ln)), text,
                                        {'part': 'tcp', 'dir': 'in', 'len': ln, 'pat': pat, 'fmode': fmode, 'step': step})
        if env.link_errors:
            p.violation('tcp:link_error_reported', 'receive thread reported a link error: %s' % env.link_errors[0],
                        {'part': 'tcp', 'dir': 'in', 'len': lengths[0], 'pat': pats[0], 'fmode': fmodes[0], 'step': False})
    return p


def _check_tcp_out(sent, h, pl, probs):
    if len(sent) < 4:
        probs.append(('out_frame', 'wrote %s on the socket, not a CPX frame' % sent.hex()))
        return
    size = struct.unpack('<H', sent[:2])[0]
    if size != len(sent) - 2:
        probs.append(('out_frame', 'wrote %s: length prefix %d but %d bytes follow' % (sent.hex(), size, len(sent) - 2)))
        return
    _check_cpx_crtp(sent[2:], sent, h, pl, probs)


def _check_cpx_crtp(body, raw, h, pl, probs):
    b0, b1 = body[0], body[1]
    if b1 >> 6 != 0 or (b1 & 0x3f) != F_CRTP or (b0 & 7) != STM32:
        probs.append(('out_routing', 'wrote %s: CPX header says destination %d function %d version %d, the STM32 '
                      'CRTP endpoint is destination 1 function 3 version 0' % (raw.hex(), b0 & 7, b1 & 0x3f, b1 >> 6)))
        return
    crtp = body[2:]
    if len(crtp) < 1 or (crtp[0] & 0xF3) != (h & 0xF3):
        probs.append(('out_header', 'wrote %s: CRTP header byte %s, expected 0x%02x (bits 2-3 free)' % (
            raw.hex(), ('0x%02x' % crtp[0]) if crtp else 'missing', h)))
    elif bytes(crtp[1:]) != pl:
        probs.append(('out_payload', 'wrote %s: CRTP payload %s, expected %s' % (raw.hex(), bytes(crtp[1:]).hex(), pl.hex())))


def _tcp_in_batch(env, drv, router, rx, ln, pat, fmode, step):
    frames, exp = [], []
    for h in range(256):
        pl = _crtp_payload(h, ln, pat)
        frames.append(ref_frame(STM32 if h & 2 else 2 + (h & 1) * 2, HOST, F_CRTP, bool(h & 1), bytes([h]) + pl))
        exp.append((h, pl))
        if h % 16 == 5:      # decoy of another function carrying CRTP-looking bytes
            frames.append(ref_frame(STM32, HOST, (2, 5, 1)[(h >> 4) % 3], False, bytes([h]) + pl))
    stream = b''.join(frames)
    n = len(stream)
    if fmode == 0:
        bounds, q = [], 0
        for fr in frames:
            q += len(fr)
            bounds.append(q)
    elif fmode == 1:
        bounds = list(range(1, n + 1))
    else:
        bounds = list(range(fmode, n, fmode)) + [n]
    net = env.net
    net.load(stream, bounds)
    if step:
        fstarts, q = set(), 0
        for fr in frames:
            q += len(fr)
            fstarts.add(q)

        def hook(pos, seen=set()):
            if pos in fstarts and pos not in seen:
                seen.add(pos)
                env.run_rx(rx)
        net.hook = hook
    probs = []
    try:
        r = env.pump(router)
    except Exception as e:  # noqa
        r = 'died'
        probs.append(('router_died', 'CPXRouter.run died with %r' % (e,)))
    finally:
        net.hook = None
    if r == 'returned':
        probs.append(('router_died', 'CPXRouter.run returned although the link is open'))
    env.run_rx(rx)
    got = []
    for _ in range(600):
        pk = drv.receive_packet(0)
        if pk is None:
            break
        got.append(pk)
    what = 'payload length %d, %s, receive thread %s' % (
        ln, {0: 'one frame per recv', 1: 'one byte per recv'}.get(fmode, '%d bytes per recv' % fmode),
        'runs after every frame' if step else 'runs after the whole burst')
    _check_crtp_in(got, exp, probs, 'TcpDriver, ' + what)
    first = ('0x%02x %s' % (got[0].header, bytes(got[0].data).hex())) if got else None
    return probs, {'n': len(got), 'first': first, 'recv_answers': len(net.answers)}


def part_serial(job):
    lengths, pats, want_sample = job
    p = Partial()
    with _quiet(), _Env(serial=True, hook_queue=True) as env:
        from cflib.crtp.crtpstack import CRTPPacket
        # device: some line noise, a false start, then the sync sequence FF 00
        env.dev_tx += b'\x13\xff\x07\xff\x00'
        drv = env.ser_mod.SerialDriver()
        try:
            drv.connect('serial://ttyVF0', None, env.link_error)
        except _Deadlock as e:
            p.case(key=('serial', 'connect'), outcome='blocked')
            p.violation('serial:connect_blocks', 'SerialDriver.connect blocks for ever although the device acknowledges '
                        'every frame with CTS (%s)' % e, {'part': 'serial', 'dir': 'connect'})
            return p
        if len(env.routers) != 1 or len(env.rx_threads) != 1:
            raise HarnessError('SerialDriver.connect did not create one router and one receive thread')
        router, rx = env.routers[0], env.rx_threads[0]
        if env.serial_opened[0][0] != '/dev/ttyVF0':
            raise HarnessError('fake serial port opened as %r' % (env.serial_opened,))
        env.run_rx(rx)
        for ln in lengths:
            for pat in pats:
                for form in ('ctor', 'attr'):
                    for h in range(256):
                        pl = _crtp_payload(h, ln, pat)
                        del env.host_tx[:]
                        probs = []
                        sent = b''
                        try:
                            pk = _mk_crtp(CRTPPacket, h, pl, form)
                            snap = (pk.header, bytes(pk.data))
                            drv.send_packet(pk)
                            frames = [b for b in env.host_tx if b != b'\xff\x00']
                            sent = b''.join(frames)
                            _check_uart_out(sent, h, pl, probs)
                            if (pk.header, bytes(pk.data)) != snap:
                                probs.append(('out_packet_modified', 'the packet reads header 0x%02x data %s after send_packet'
                                              % (pk.header, bytes(pk.data).hex())))
                            del env.host_tx[:]
                            drv.send_packet(pk)
                            again = b''.join(b for b in env.host_tx if b != b'\xff\x00')
                            if again != sent:
                                probs.append(('out_resend_differs', 'sending the same packet object again put %s on the UART, '
                                              'the first time %s' % (again.hex(), sent.hex())))
                        except _Deadlock:
                            probs.append(('out_blocks', 'send_packet blocks for ever although every earlier frame was '
                                          'acknowledged with CTS'))
                        except Exception as e:  # noqa
                            probs.append(('out_raises', 'send_packet raised %r' % (e,)))
                        p.case(key=('serial_out', form, h, ln, pat), outcome=('out', ln, h >> 4))
                        p.transitions += 1
                        p.add('traces_validated_against_impl', 1)
                        if want_sample and (h, ln, pat, form) == (0x5d, 2, 0, 'ctor'):
                            p.sample({'part': 'serial', 'direction': 'send_packet', 'crtp_header': '0x5d',
                                      'crtp_payload': pl.hex(), 'bytes_on_uart': sent.hex(),
                                      'result': 'intact' if not probs else probs[0][0]})
                        for clause, text in probs:
                            p.violation('serial:%s:%s' % (clause, _len_class(ln)),
                                        'SerialDriver.send_packet(header 0x%02x, payload %s, built by %s): %s' % (h, pl.hex(), form, text),
                                        {'part': 'serial', 'dir': 'out', 'h': h, 'len': ln, 'pat': pat, 'form': form})
                        if any(c == 'out_blocks' for c, _ in probs):
                            return p
                for noise in (False, True):
                    probs, obs = _serial_in_batch(env, drv, router, rx, ln, pat, noise)
                    p.case(key=('serial_in', ln, pat, noise), outcome=('in', ln, obs['n']))
                    p.transitions += obs['reads']
                    p.states += 256
                    p.add('traces_validated_against_impl', 1)
                    if want_sample and (ln, pat, noise) == (2, 0, False):
                        p.sample({'part': 'serial', 'direction': 'receive', 'uart_frames': 256 + 16, 'payload_len': ln,
                                  'crtp_packets_out': obs['n'], 'first': obs['first'],
                                  'result': 'intact, in order' if not probs else probs[0][0]})
                    for clause, text in probs:
                        p.violation('serial:%s:%s' % (clause, _len_class(ln)), text,
                                    {'part': 'serial', 'dir': 'in', 'len': ln, 'pat': pat, 'noise': noise})
        if env.link_errors:
            p.violation('serial:link_error_reported', 'receive thread reported a link error: %s' % env.link_errors[0],
                        {'part': 'serial', 'dir': 'in', 'len': lengths[0], 'pat': pats[0], 'noise': False})
    return p


def _check_uart_out(sent, h, pl, probs):
    if len(sent) < 5 or sent[0] != 0xFF or sent[1] != len(sent) - 3:
        probs.append(('out_frame', 'wrote %s on the UART: not FF, length, body, checksum' % sent.hex()))
        return
    x = 0
    for b in sent[:-1]:
        x ^= b
    if x != sent[-1]:
        probs.append(('out_frame', 'wrote %s on the UART: checksum byte 0x%02x, XOR of the frame is 0x%02x' % (
            sent.hex(), sent[-1], x)))
        return
    _check_cpx_crtp(sent[2:-1], sent, h, pl, probs)


def _serial_in_batch(env, drv, router, rx, ln, pat, noise):
    exp = []
    pos0 = env.dev_pos
    for h in range(256):
        pl = _crtp_payload(h, ln, pat)
        if noise and h % 8 == 3:
            env.dev_tx += b'\x00\x42'          # bytes between frames that are not a start byte
        env.dev_tx += ref_uart(STM32 if h & 2 else 2 + (h & 1) * 2, HOST, F_CRTP, bool(h & 1), bytes([h]) + pl)
        exp.append((h, pl))
        if h % 16 == 5:
            env.dev_tx += ref_uart(STM32, HOST, (2, 5, 1)[(h >> 4) % 3], False, bytes([h]) + pl)
    probs = []
    try:
        r = env.pump(router)
    except Exception as e:  # noqa
        r = 'died'
        probs.append(('router_died', 'CPXRouter.run died with %r' % (e,)))
    if r == 'returned':
        probs.append(('router_died', 'CPXRouter.run returned although the link is open'))
    reads = env.dev_pos - pos0
    del env.dev_tx[:env.dev_pos]
    env.dev_pos = 0
    env.run_rx(rx)
    got = []
    for _ in range(600):
        pk = drv.receive_packet(0)
        if pk is None:
            break
        got.append(pk)
    _check_crtp_in(got, exp, probs, 'SerialDriver, payload length %d%s' % (ln, ', noise bytes between frames' if noise else ''))
    first = ('0x%02x %s' % (got[0].header, bytes(got[0].data).hex())) if got else None
    return probs, {'n': len(got), 'first': first, 'reads': reads}


# ---------------------------------------------------------------------------------------------------
# job construction
# ---------------------------------------------------------------------------------------------------

# ---------------------------------------------------------------------------------------------------
# part: concurrent senders (every interleaving of the socket send calls of 2-3 application threads)
# ---------------------------------------------------------------------------------------------------

class _SendGate:
    """Baton for real sender threads: each blocks before every socket send until the controller picks it."""

    def __init__(self, choices):
        import threading
        self.choices = list(choices)
        self.k = 0
        self.ns = []
        self.cv = threading.Condition()
        self.waiting = {}      # thread index -> True while parked at a send
        self.done = set()
        self.go = None
        self.ids = {}

    def before_send(self):
        import threading
        i = self.ids.get(threading.get_ident())
        if i is None:
            return
        with self.cv:
            self.waiting[i] = True
            self.cv.notify_all()
            while self.go != i:
                self.cv.wait(5.0)
            self.go = None
            del self.waiting[i]

    def finished(self, i):
        with self.cv:
            self.done.add(i)
            self.cv.notify_all()

    def drive(self, n):
        """Controller: whenever every live sender is parked, let one of them (chosen by the schedule) do its send."""
        import time
        while True:
            with self.cv:
                t0 = time.time()
                while self.go is not None or len(self.waiting) + len(self.done) < n:
                    if not self.cv.wait(0.5) and time.time() - t0 > 120:
                        raise HarnessError('sender threads did not reach a send point')
                if len(self.done) == n:
                    return
                cand = sorted(self.waiting)
                c = self.choices[self.k] if self.k < len(self.choices) else 0
                self.ns.append(len(cand))
                self.k += 1
                if c >= len(cand):
                    raise HarnessError('sender schedule diverged')
                self.go = cand[c]
                self.cv.notify_all()


def _senders_exec(env, drv, pkts, choices):
    import threading
    from cflib.crtp.crtpstack import CRTPPacket
    net = env.net
    del net.sent[:]
    gate = _SendGate(choices)
    errs = []

    def body(i, h, pl):
        gate.ids[threading.get_ident()] = i
        try:
            drv.send_packet(_mk_crtp(CRTPPacket, h, pl, 'ctor'))
        except Exception as e:  # noqa
            errs.append(repr(e))
        finally:
            gate.finished(i)
    _FakeSock.gate = gate
    try:
        ths = [threading.Thread(target=body, args=(i, h, pl), daemon=True) for i, (h, pl) in enumerate(pkts)]
        for t in ths:
            t.start()
        gate.drive(len(pkts))
        for t in ths:
            t.join(10.0)
    finally:
        _FakeSock.gate = None
    return bytes(net.sent), gate.ns, errs


def part_senders(job):
    sets, = job
    p = Partial()
    with _quiet(), _Env(hook_queue=True) as env:
        drv = env.tcp_mod.TcpDriver()
        drv.connect('tcp://verif.invalid:5000', None, env.link_error)
        for pkts in sets:
            stack = [()]
            nsched = 0
            while stack:
                ch = stack.pop()
                sent, ns, errs = _senders_exec(env, drv, pkts, ch)
                nsched += 1
                p.transitions += len(ns)
                p.states += 1
                for i in range(len(ch), len(ns)):
                    for alt in range(1, ns[i]):
                        stack.append(tuple(ch) + (0,) * (i - len(ch)) + (alt,))
                # the byte stream must be a sequence of whole frames, one per packet, each intact (order is free)
                probs = []
                frames, pos = [], 0
                while pos + 2 <= len(sent):
                    ln = struct.unpack('<H', sent[pos:pos + 2])[0]
                    frames.append(sent[pos + 2:pos + 2 + ln])
                    pos += 2 + ln
                want = sorted(bytes([h & 0xF3]) + bytes(pl) for h, pl in pkts)           # CRTP header bits 2-3 are free
                got = sorted(bytes([f[2] & 0xF3]) + bytes(f[3:]) for f in frames if len(f) >= 3)
                if errs:
                    probs.append(('out_raises', 'send_packet raised %s' % errs[0]))
                elif pos != len(sent) or got != want:
                    probs.append(('frames_interleaved', 'socket carried %s, which is not one whole frame per packet (CRTP bodies '
                                  'wanted %r, got %r)' % (sent.hex(), [w.hex() for w in want], [g.hex() for g in got])))
                else:
                    for f in frames:
                        _check_tcp_out(struct.pack('<H', len(f)) + f, f[2], bytes(f[3:]), probs)
                p.case(key=('senders', tuple(pkts), tuple(ch)), outcome=('senders', len(ns), bool(probs)))
                p.add('traces_validated_against_impl', 1)
                for clause, text in probs:
                    p.violation('senders:%s:%dthreads' % (clause, len(pkts)),
                                '%d threads call TcpDriver.send_packet at once (send order %r): %s' % (len(pkts), ch, text),
                                {'part': 'senders', 'pkts': [[h, pl.hex()] for h, pl in pkts], 'choices': list(ch)})
            p.add('sender_schedules', nsched)
    return p


def _shapes(max_total, max_packets):
    """All tuples of payload lengths with 1..max_packets packets and 4*k + sum <= max_total."""
    out = []

    def rec(prefix, room):
        if prefix:
            out.append(tuple(prefix))
        if len(prefix) < max_packets:
            for ln in range(0, room - 4 + 1):
                rec(prefix + [ln], room - 4 - ln)
    rec([], max_total)
    return out


def _frag_jobs(quick):
    max_total = 14 if quick else 18
    jobs = []
    for shape in _shapes(max_total, 4):
        n = 4 * len(shape) + sum(shape)
        fills = ['ramp']
        if n <= (11 if quick else 17):
            fills.append('mimic')
        for fi, fill in enumerate(fills):
            # stream id independent of the tier, so that thorough re-runs exactly the quick streams
            sid = 2 * sum((ln + 1) * 23 ** i for i, ln in enumerate(shape)) + fi
            jobs.append(('frag', (sid, shape, fill, shape == (3, 0))))
    # biggest first for load balance, the sampling job in front
    jobs.sort(key=lambda j: (not j[1][3], -(4 * len(j[1][1]) + sum(j[1][1]))))
    return jobs, max_total


def _big_jobs(quick):
    shapes = [(64,), (253,), (254,), (255,), (1022,), (254, 3), (0, 300, 1)]
    if not quick:
        shapes += [(256,), (510,), (1021,), (1023,), (3, 254, 254), (4094,)]
    return [('fragbig', (1000 + i, sh, quick, sh == (254,))) for i, sh in enumerate(shapes)]


def _router_jobs(quick):
    import itertools
    lmax = 4 if quick else 5
    if quick:
        gmax = {1: 3, 2: 3, 3: 3, 4: 2}
    else:
        gmax = {1: 4, 2: 4, 3: 4, 4: 4, 5: 2}
    seqs = []
    for L in range(1, lmax + 1):
        for t in itertools.product('caoX', repeat=L):
            seqs.append(''.join(t))
    seqs = list(enumerate(seqs))
    modes = _quick_modes if quick else (0, 1)
    per = 6 if quick else 8
    seqs.sort(key=lambda t: (-len(t[1]), t[0]))
    jobs = []
    for i in range(0, len(seqs), per):
        chunk = seqs[i:i + per]
        jobs.append(('router', (chunk, gmax, modes, any(s == 'cXac' for _, s in chunk))))
    jobs.sort(key=lambda j: not j[1][3])
    jobs.append(('transaction', None))
    return jobs, lmax, gmax


def _tunnel_jobs(quick):
    jobs = []
    pats = (0,) if quick else (0, 1, 2)
    fmodes = (0, 1) if quick else (0, 1, 3, 7)
    groups = [list(range(i, 31, 8)) for i in range(8)]
    for gi, g in enumerate(groups):
        if gi == 2:
            g = [2] + [x for x in g if x != 2]
        jobs.append(('tcp', (g, pats, fmodes, gi == 2)))
        jobs.append(('serial', (g, (0, 1) if quick else (0, 1, 2), gi == 2)))
    jobs.sort(key=lambda j: not j[1][-1])
    return jobs


def _codec_jobs(quick):
    lengths = _codec_lengths(quick)
    jobs = [('codec', ('combos', (lengths, 'bytearray'), True))]
    for dt in ('bytes', 'list', 'tuple'):
        jobs.append(('codec', ('combos', (lengths if not quick else [0, 1, 2, 31, 64, 254, 1022], dt), False)))
    for lo in range(0, 256, 32):
        jobs.append(('codec', ('headers', (lo, lo + 32), lo == 0)))
    return jobs


def _dispatch(job):
    name, arg = job
    return globals()['part_' + name](arg)


def run(ck):
    quick = ck.quick
    fjobs, max_total = _frag_jobs(quick)
    rjobs, lmax, gmax = _router_jobs(quick)
    ck.rule = (
        'codec: all 4x4 targets x 7 functions x lastPacket x payload lengths %s (4 container types) through the real '
        'encoder, decoder and CPX.sendPacket; all 65536 header byte pairs x 3 payloads through the real decoder. '
        'frag: every stream of 1-4 packets with total length <= %d bytes (all payload-length tuples), ALL 2^(n-1) '
        'compositions of its n bytes into recv chunks; distinct = distinct (stream, sequence of recv answers); states = '
        'distinct prefixes of recv-answer sequences per stream, transitions = recv answers consumed. fragbig: long '
        'frames, every single cut + all compositions of the first 7 cut positions x tail chunkings. router: all packet '
        'sequences over {CRTP, APP, CONSOLE, bad-version} of length 1-%d x all interleavings of the router steps with '
        'at most %s receivePacket calls of 3 receivers (+ final drain); states = schedule prefixes, transitions = '
        'operations. tcp/serial: all 256 CRTP headers x payload lengths 0-30 in both directions through the drivers.'
        % ('0-64,100,253-256,1021,1022' if quick else '0-100,253-257,511,512,1021-1024,4094,65533', max_total, lmax,
           '3 (2 for 4 packets)' if quick else '4 (2 for 5 packets)'))
    ck.assume('reference wire format written in the check from the CPX protocol description: byte0 = dst | src<<3 | '
              'last<<6, byte1 = function | version<<6, TCP length prefix little-endian uint16 of header+payload, UART '
              'frame FF,len,body,XOR; host is little-endian (the library packs the prefix in native order)')
    ck.assume('TCP environment: recv(k) returns between 1 and k bytes and never more than the current chunk; the peer '
              'never closes the stream (no empty recv) and send() accepts everything')
    ck.assume('thread bodies (CPXRouter.run, _CPXReceiveThread.run) are executed synchronously at the granularity of '
              'whole receivePacket calls / whole router iterations; queue.get(timeout) on an empty queue times out at once')
    ck.assume('pyserial is not installed: SerialDriver/UARTTransport run against a fake serial module whose '
              'read(n) returns exactly n bytes (timeout=None) and a device that answers every data frame with CTS (FF 00)')
    jobs = []
    cj, bj, tj = _codec_jobs(quick), _big_jobs(quick), _tunnel_jobs(quick)
    # one sampling job of every part first, then the rest (big ones early)
    firsts = [cj[0], fjobs[0], bj[[j[1][3] for j in bj].index(True)], rjobs[0], tj[0], tj[1], cj[-8]]
    sets2 = [((0x5d, b'\x01\x02'), (0x21, b'')), ((0xf3, bytes(range(30))), (0x00, b'\xff'))]
    sets3 = [((0x5d, b'\x01\x02'), (0x21, b''), (0x10, b'abc'))]
    sj = [('senders', (sets2,)), ('senders', (sets3,))]
    rest = [j for j in fjobs + rjobs + bj + tj + cj + sj if j not in firsts]
    jobs = firsts + rest
    ck.pmap(_dispatch, jobs)
    ck.exhaustive = True
    ck.note('frag_max_stream_bytes', max_total)
    ck.note('frag_streams', len(fjobs))
    ck.note('router_max_packets', lmax)
    ck.note('router_max_receive_calls_in_schedule', gmax)
    ck.note('frag_max_stream_bytes_mimic_fill', 11 if quick else 17)
    ck.note('serial_driver', 'driven with a fake pyserial (module globals serial/list_ports/Lock rebound)')


# ---------------------------------------------------------------------------------------------------
# replay
# ---------------------------------------------------------------------------------------------------

def replay(ck, data):
    part = data.get('part')
    lines = []
    if part == 'frag' or part == 'fragbig':
        shape = tuple(data['shape'])
        pkts, stream, starts = _mk_stream(shape, data.get('fill', 'pattern'), data['sid'])
        with _quiet(), _Env() as env:
            tr = env.socket_transport()
            probs = _frag_exec(tr, env.net, pkts, stream, list(data['bounds']))
            ans = list(env.net.answers)
        lines.append('stream (%d bytes): %s' % (len(stream), stream.hex() if len(stream) <= 64 else stream[:32].hex() + '..'))
        lines.append('packets sent: %s' % [_show(x) for x in pkts])
        lines.append('chunks: %s   recv answers: %s' % (_chunks(list(data['bounds'])), ans[:40]))
        for clause, text in probs:
            lines.append('OBSERVED %s: %s' % (clause, text))
            ck.violation('%s:%s' % (part, clause), text)
    elif part == 'router':
        with _quiet(), _Env() as env:
            probs, obs = _router_exec(env, data['seq'], data['ops'], data['mode'])
        lines.append('packets %s schedule %s mode %d -> receive calls %s' % (data['seq'], data['ops'], data['mode'], obs['log']))
        for clause, text in probs:
            lines.append('OBSERVED %s: %s' % (clause, text))
            ck.violation('router:%s' % clause, text)
    elif part == 'codec':
        with _quiet(), _Env() as env:
            from cflib.cpx import CPXFunction
            from cflib.cpx import CPXPacket
            from cflib.cpx import CPXTarget
            if data['kind'] == 'header':
                probs, obs = _codec_header(CPXPacket, data['b0'], data['b1'], bytes.fromhex(data['payload']))
            else:
                cpx = env.new_cpx()
                pl = _payload(data['len'], data['src'] * 4 + data['dst'] + data['fn'])
                probs, obs = _codec_combo(env, cpx, cpx._router._transport, CPXPacket, CPXTarget, CPXFunction,
                                          (data['src'], data['dst'], data['fn'], data['last'], pl), data['dtype'])
        lines.append('observed: %r' % (obs,))
        for clause, text in probs:
            lines.append('OBSERVED %s: %s' % (clause, text))
            ck.violation('codec:%s' % clause, text)
    elif part in ('tcp', 'serial'):
        if data.get('dir') == 'out':
            job = ([data['len']], (data['pat'],), (0,), False) if part == 'tcp' else ([data['len']], (data['pat'],), False)
        elif part == 'tcp':
            job = ([data['len']], (data['pat'],), (data['fmode'],), False)
        else:
            job = ([data.get('len', 0)], (data.get('pat', 0),), False)
        r = (part_tcp if part == 'tcp' else part_serial)(job)
        lines.append('re-ran the %s tunnel batch for payload length %s: %d cases' % (part, data.get('len'), r.evaluations))
        for v in r.violations:
            lines.append('OBSERVED %s: %s' % (v['sig'], v['what']))
            ck.violation(v['sig'], v['what'])
    else:
        lines.append('unknown replay part %r' % (part,))
    for ln in lines:
        print(ln)
    if not ck.violations:
        print('no violation observed in this replay')
