"""C19 — swarm actions run once per Crazyflie with the right arguments and error report.

Real Swarm with instrumented member objects from a factory; the per-member threads started by
parallel_safe run under the controlled scheduler with scheduling points at every line of
parallel_safe / _thread_function_wrapper / Reporter.* / open_links / close_links and inside the
actions.  Enumerated: swarm sizes, every failing subset (actions and link opening), argument
dictionaries, and thread interleavings up to a deviation bound.
"""
import itertools

from vf import cfh, vsched
from vf.core import Partial
from vf.explore import explore

ID = 'C19'
LEVEL = 'exploration'


class _Boom(Exception):
    pass


class _Member:
    def __init__(self, uri, ex, fail_open):
        self.uri = uri
        self.ex = ex
        self.fail_open = fail_open
        self.cf = type('CfStub', (), {'link_uri': uri})()
        self.open = False

    def open_link(self):
        s = self.ex.s
        self.ex.log('open.begin', self.uri)
        s.point('member.open')
        if self.fail_open:
            self.ex.log('open.raise', self.uri)
            raise _Boom('open ' + self.uri)
        self.open = True
        self.ex.log('open.end', self.uri)

    def close_link(self):
        self.ex.log('close', self.uri)
        self.ex.s.point('member.close')
        self.open = False


def _traced():
    from cflib.crazyflie.swarm import Swarm
    # every function of the Swarm class and of its error reporter (found by walking the classes, so that private helpers
    # may be renamed, added or extracted without hiding their lines from the scheduler)
    import cflib.crazyflie.swarm as sm
    return cfh.functions_of(Swarm, getattr(Swarm, 'Reporter', None), module=sm,
                            skip=('__init__', '__enter__', '__exit__', 'get_estimated_positions', 'reset_estimators',
                                  'wait_for_params', '__get_estimated_position', '__reset_estimator'))


def exec_c19(cfg, devs):
    from cflib.crazyflie.swarm import Swarm
    p = Partial()
    vsched.clear_traced_functions()
    if cfg.get('lines', True):
        vsched.trace_functions(_traced())
    ex = cfh.Exec(devs, None, time_limit=50.0)
    n = cfg['n']
    uris = ['sim://%d' % (9 - i) for i in range(n)]          # deliberately not sorted
    fail = cfg['fail']                                         # tuple of member indices that fail
    mode = cfg['mode']
    info = {}
    members = {}

    class Factory:
        def construct(self, uri):
            m = _Member(uri, ex, fail_open=(mode.startswith('open') and uris.index(uri) in fail))
            members[uri] = m
            return m

    def action(scf, *args):
        s = ex.s
        if scf.uri not in uris:
            ex.log('bystander', 'action', scf.uri)
            return
        ex.log('act.begin', scf.uri, args)
        s.point('action.a')
        if uris.index(scf.uri) in fail:
            ex.log('act.raise', scf.uri)
            raise _Boom('action ' + scf.uri)
        s.point('action.b')
        ex.log('act.end', scf.uri)

    if cfg['args'] == 'none':
        args_dict = None
    elif cfg['args'] == 'lists':
        args_dict = {u: [u + '-x', i] for i, u in enumerate(uris)}
    elif cfg['args'] == 'reversed':
        # the dictionary was built in another order than the swarm's URIs
        args_dict = {u: [u + '-r', i] for i, u in reversed(list(enumerate(uris)))}
    elif cfg['args'] == 'extra':
        # a dictionary shared between swarms: it also has entries for Crazyflies that are not in this one
        args_dict = {'sim://not-in-this-swarm': ['zzz', -1]}
        args_dict.update({u: [u + '-e', i] for i, u in enumerate(uris)})
        args_dict['sim://another-one'] = []
    else:
        args_dict = {u: [] if i % 2 else [i] for i, u in enumerate(uris)}

    class BystanderFactory:
        def construct(self, uri):
            m = _Member(uri, ex, fail_open=False)
            m.open_link = lambda: ex.log('bystander', 'open_link', uri)
            m.close_link = lambda: ex.log('bystander', 'close_link', uri)
            return m

    def main():
        if cfg.get('bystander'):
            # another swarm of other Crazyflies lives in the same process (constructed first, and one more afterwards)
            info['other'] = Swarm(['sim://b0', 'sim://b1'], factory=BystanderFactory())
        form = cfg.get('uris_form', 'list')
        if form == 'generator':
            given = (u for u in uris)
        elif form == 'dup':
            given = list(uris) + [uris[0]]
        elif form == 'set':
            given = set(uris)
        else:
            given = list(uris)
        swarm = Swarm(given, factory=Factory())
        if form == 'mutated':
            # the caller's list is the caller's: it changes after the swarm has been built
            given.append('sim://added-later')
            given.remove(uris[0])
        if cfg.get('bystander'):
            info['other2'] = Swarm(['sim://b2'], factory=BystanderFactory())
        info['swarm'] = swarm
        try:
            if mode == 'sequential':
                swarm.sequential(action, args_dict)
            elif mode == 'parallel':
                swarm.parallel(action, args_dict)
            elif mode == 'parallel_safe':
                swarm.parallel_safe(action, args_dict)
            elif mode == 'open':
                swarm.open_links()
            elif mode == 'open_twice':
                swarm.open_links()
                ex.log('second_open')
                swarm.open_links()
            ex.log('returned')
        except Exception as e:  # noqa
            ex.log('raised', type(e).__name__, type(e.__cause__).__name__ if e.__cause__ is not None else None,
                   str(e.__cause__) if e.__cause__ is not None else str(e))
        info['is_open'] = getattr(swarm, '_is_open', None)       # private flag: judged only if it can be seen
        if mode == 'open' and fail:
            # the swarm must be openable again (not stuck in "Already opened")
            for m in members.values():
                m.fail_open = False
            ex.freeze()
            try:
                swarm.open_links()
                info['reopen'] = 'ok'
            except Exception as e:  # noqa
                info['reopen'] = repr(e)

    ex.run(main)
    _judge(p, cfg, devs, ex, info, uris, args_dict)
    return p, ex.ch.ns, ex.ch.labels


def _judge(p, cfg, devs, ex, info, uris, args_dict):
    s = ex.s
    ev = ex.events
    mode, fail, n = cfg['mode'], cfg['fail'], cfg['n']
    cname = cfg['name']
    rp = {'cfg': cfg, 'devs': list(devs)}

    def viol(clause, what):
        p.violation('swarm:%s:%s' % (mode, clause), '%s devs=%r: %s; events %r' % (cname, devs, what, [e[1:] for e in ev][:24]), rp)

    order = tuple((e[1], e[2]) for e in ev if e[1].startswith(('act.', 'open.', 'close')))
    p.case(key=(cname, tuple(devs)), nontrivial=bool(devs), outcome=(s.status, order),
           sample={'config': cname, 'deviations': [(i, a, l) for (i, a, l) in ex.ch.taken][:4], 'order': [o[1][-1] + ':' + o[0] for o in order][:12]}
           if (not devs or hash((cname, tuple(devs))) % 47 == 0) else None)
    if s.died:
        viol('thread_died:%s' % s.died[0][1].split('(')[0], 'thread %s died with %s' % s.died[0][:2])
    if s.status != 'ok':
        viol(s.status, 'did not complete: %r' % ([(b['thread'], b['label']) for b in (s.blocked_report or [])],))
        return
    touched = [e[2:] for e in ev if e[1] == 'bystander']
    if touched:
        viol('touched_a_crazyflie_of_another_swarm', 'members of other Swarm objects in the process were used: %r' % (touched[:4],))
    end_pos = next((i for i, e in enumerate(ev) if e[1] in ('returned', 'raised', 'second_open')), len(ev))
    final = next((e for e in ev if e[1] in ('returned', 'raised')), None)
    if mode in ('sequential', 'parallel', 'parallel_safe'):
        begins = [e for e in ev if e[1] == 'act.begin']
        for ui, u in enumerate(uris):
            mine = [e for e in begins if e[2] == u]
            exp_args = tuple(args_dict[u]) if args_dict else ()
            if mode == 'sequential' and fail and ui > min(fail):
                # a raising action ends a sequential run: later members are not demanded to run
                if len(mine) > 1:
                    viol('action_count_x%d' % len(mine), 'action ran %d times for %s' % (len(mine), u))
                continue
            if len(mine) != 1:
                viol('action_count_x%d' % len(mine), 'action ran %d times for %s' % (len(mine), u))
            elif tuple(mine[0][3]) != exp_args:
                viol('wrong_arguments', 'action for %s received %r, its dictionary entry is %r' % (u, mine[0][3], exp_args))
        # everything finished before the call came back
        for i, e in enumerate(ev):
            if e[1] in ('act.begin', 'act.end', 'act.raise') and i > end_pos and not (mode == 'sequential' and fail):
                viol('returned_before_actions_finished', 'event %r after the call had returned' % (e[1:],))
                break
        done = set(e[2] for e in ev[:end_pos] if e[1] in ('act.end', 'act.raise'))
        if mode != 'sequential' and done != set(uris):
            viol('returned_before_actions_finished', 'call came back with actions finished only for %r' % (sorted(done),))
        if mode == 'sequential':
            # one at a time, in the order of the given URIs (up to and including the first failure)
            seq = [e for e in ev if e[1] in ('act.begin', 'act.end', 'act.raise')]
            exp = []
            for i, u in enumerate(uris):
                exp.append(('act.begin', u))
                if i in fail:
                    exp.append(('act.raise', u))
                    break
                exp.append(('act.end', u))
            if [(e[1], e[2]) for e in seq] != exp:
                viol('order', 'sequential order %r, expected %r' % ([(e[1], e[2]) for e in seq], exp))
        if mode == 'parallel':
            if final is None or final[1] != 'returned':
                viol('parallel_raised', 'parallel() raised: %r' % (final,))
        if mode == 'parallel_safe':
            if fail:
                if final is None or final[1] != 'raised':
                    viol('error_not_raised', '%d actions raised but parallel_safe returned normally' % len(fail))
                elif final[3] != '_Boom' or final[4] not in ['action ' + uris[i] for i in fail]:
                    viol('cause_not_one_of_the_errors', 'raised with __cause__ %r %r' % (final[3], final[4]))
            elif final is None or final[1] != 'returned':
                viol('raised_without_error', 'no action raised but parallel_safe raised %r' % (final,))
    else:
        opens = [e for e in ev if e[1] == 'open.begin']
        first_phase = ev[:end_pos]
        for u in uris:
            k = sum(1 for e in first_phase if e[1] == 'open.begin' and e[2] == u)
            if k != 1:
                viol('open_count_x%d' % k, 'open_link called %d times for %s' % (k, u))
        if fail:
            closes = [e[2] for e in first_phase if e[1] == 'close']
            if sorted(closes) != sorted(uris):
                viol('not_all_closed_after_failed_open', 'close_link calls after the failed open: %r' % (closes,))
            else:
                last_open_evt = max(i for i, e in enumerate(first_phase) if e[1].startswith('open.'))
                first_close = min(i for i, e in enumerate(first_phase) if e[1] == 'close')
                if first_close < last_open_evt:
                    viol('closed_while_still_opening', 'close_link began before every open attempt had finished')
            if final is None or final[1] != 'raised':
                viol('failed_open_not_raised', 'open_links returned normally although %d links failed' % len(fail))
            if info.get('is_open') is True:
                viol('open_flag_after_failure', 'swarm marked open after a failed open_links')
            if info.get('reopen') != 'ok':
                viol('cannot_reopen', 'open_links after the failure: %r' % (info.get('reopen'),))
        else:
            if mode == 'open':
                if final is None or final[1] != 'returned' or info.get('is_open') is False:
                    viol('open_failed_without_error', 'open_links: %r, is_open=%r' % (final, info.get('is_open')))
            else:
                if final is None or final[1] != 'raised':
                    viol('second_open_not_refused', 'second open_links on an open swarm: %r' % (final,))
                after = [e for e in ev[end_pos + 1:] if e[1].startswith('open.') or e[1] == 'close']
                if after:
                    viol('second_open_touched_members', 'second open_links called %r' % ([a[1:] for a in after],))
                if info.get('is_open') is False:
                    viol('second_open_closed_swarm', 'swarm no longer open after the refused second open_links')


# ---------------------------------------------------------------------------------------------
# histories on one Swarm object: several actions one after the other, and an action that itself runs a swarm-wide action
# ---------------------------------------------------------------------------------------------
def _args_for(form, uris, k):
    if form == 'none':
        return None
    if form == 'lists':
        return {u: ['%s-c%d' % (u, k), i] for i, u in enumerate(uris)}
    return {u: [] if (i + k) % 2 else [i, k] for i, u in enumerate(uris)}


def exec_c19_hist(cfg, devs):
    from cflib.crazyflie.swarm import Swarm
    p = Partial()
    vsched.clear_traced_functions()
    ex = cfh.Exec(devs, None, time_limit=50.0)
    n = cfg['n']
    uris = ['sim://%d' % (9 - i) for i in range(n)]
    calls = [tuple(c) for c in cfg['calls']]              # (mode, args form, failing member indices)
    nested = cfg.get('nested')                             # (inner mode, inner fails?, outer member 0 raises afterwards?)
    rp = {'cfg': cfg, 'devs': list(devs)}
    results = []

    class Factory:
        def construct(self, uri):
            return _Member(uri, ex, fail_open=False)

    def run_mode(swarm, mode, fn, ad):
        if mode == 'sequential':
            swarm.sequential(fn, ad)
        elif mode == 'parallel':
            swarm.parallel(fn, ad)
        else:
            swarm.parallel_safe(fn, ad)

    def main():
        swarm = Swarm(list(uris), factory=Factory())
        if cfg.get('open_first'):
            swarm.open_links()
        for k, (mode, form, fail) in enumerate(calls):
            def action(scf, *args, k=k, fail=fail):
                ex.log('act', k, scf.uri, args)
                ex.s.point('action')
                if nested and k == 0 and scf.uri == uris[0]:
                    imode, ifail, raise_after = nested

                    def inner(scf2, *a2):
                        ex.log('inner', scf2.uri, a2)
                        if ifail and scf2.uri == uris[-1]:
                            raise _Boom('inner ' + scf2.uri)
                    try:
                        run_mode(swarm, imode, inner, {u: ['in', i] for i, u in enumerate(uris)})
                        ex.log('inner_returned')
                    except Exception as e:  # noqa
                        ex.log('inner_raised', type(e).__name__)
                    if raise_after:
                        raise _Boom('outer ' + scf.uri)
                if uris.index(scf.uri) in fail:
                    raise _Boom('action %d %s' % (k, scf.uri))
            try:
                run_mode(swarm, mode, action, _args_for(form, uris, k))
                results.append(('returned',))
            except Exception as e:  # noqa
                results.append(('raised', type(e.__cause__).__name__ if e.__cause__ is not None else type(e).__name__,
                                str(e.__cause__) if e.__cause__ is not None else str(e)))
            ex.log('call_done', k)

    ex.run(main)
    ev = ex.events
    s = ex.s
    cname = cfg['name']

    def viol(clause, what):
        p.violation('swarm:history:%s' % clause, '%s devs=%r: %s; events %r' % (cname, devs, what, [e[1:] for e in ev][:30]), rp)
    p.case(key=(cname, tuple(devs)), nontrivial=True, outcome=(s.status, tuple(r[0] for r in results)),
           sample={'config': cname, 'results': [r[0] for r in results]} if hash(cname) % 53 == 0 else None)
    if s.died:
        viol('thread_died:%s' % s.died[0][1].split('(')[0], 'thread %s died with %s' % s.died[0][:2])
    if s.status != 'ok' or len(results) != len(calls):
        viol(s.status if s.status != 'ok' else 'incomplete', 'did not complete: %d of %d calls' % (len(results), len(calls)))
        return p, ex.ch.ns, ex.ch.labels
    for k, (mode, form, fail) in enumerate(calls):
        ad = _args_for(form, uris, k)
        ran = [e for e in ev if e[1] == 'act' and e[2] == k]
        fails = set(fail) | ({0} if (nested and k == 0 and nested[2]) else set())
        for ui, u in enumerate(uris):
            mine = [e for e in ran if e[3] == u]
            if mode == 'sequential' and fails and ui > min(fails):
                continue
            exp_args = tuple(ad[u]) if ad else ()
            if len(mine) != 1:
                viol('action_count_x%d:call%d' % (len(mine), k), 'call %d (%s): action ran %d times for %s' % (k, mode, len(mine), u))
            elif tuple(mine[0][4]) != exp_args:
                viol('wrong_arguments:call%d' % k, 'call %d (%s): action for %s received %r, its dictionary entry is %r' % (
                    k, mode, u, mine[0][4], exp_args))
        r = results[k]
        should_raise = bool(fails) and mode != 'parallel'
        if should_raise and r[0] != 'raised':
            viol('error_not_raised:%s:call%d%s' % (mode, k, ':nested' if nested and k == 0 else ''),
                 'call %d (%s): an action raised but the call returned normally' % (k, mode))
        elif not should_raise and r[0] != 'returned':
            viol('raised_without_error:%s:call%d' % (mode, k), 'call %d (%s) raised %r although none of its actions did' % (k, mode, r))
        elif should_raise and r[1] == '_Boom' and not r[2].startswith(('action %d ' % k, 'outer ')):
            viol('error_of_another_call:%s:call%d' % (mode, k), 'call %d (%s) reported %r' % (k, mode, r))
    if nested:
        inner = [e for e in ev if e[1] == 'inner']
        for ui, u in enumerate(uris):
            mine = [e for e in inner if e[2] == u]
            if nested[0] == 'sequential' and nested[1] and False:
                continue
            if len(mine) != 1 or tuple(mine[0][3]) != ('in', ui):
                viol('nested_action', 'inner %s action for %s: %r' % (nested[0], u, [m[2:] for m in mine]))
        want = 'inner_raised' if (nested[1] and nested[0] != 'parallel') else 'inner_returned'
        if not any(e[1] == want for e in ev):
            viol('nested_result:%s' % nested[0], 'inner %s call with failing=%r: expected %s' % (nested[0], nested[1], want))
    return p, ex.ch.ns, ex.ch.labels


def configs_hist():
    out = []
    opts = [(m, a, f) for m in ('sequential', 'parallel', 'parallel_safe') for a in ('none', 'lists', 'mixed') for f in ((), (0,))]
    for a in opts:
        for b in opts:
            out.append({'name': 'hist:%s/%s/%s>%s/%s/%s' % (a[0], a[1], ''.join(map(str, a[2])) or '-', b[0], b[1], ''.join(map(str, b[2])) or '-'),
                        'n': 2, 'calls': [a, b], 'hist': True})
    small = [(m, a, ()) for m in ('sequential', 'parallel', 'parallel_safe') for a in ('none', 'lists')]
    for a in small:
        for b in small:
            for c in small:
                out.append({'name': 'hist3:' + '>'.join('%s/%s' % (x[0], x[1]) for x in (a, b, c)), 'n': 2, 'calls': [a, b, c],
                            'hist': True, 'open_first': True})
    for omode in ('parallel_safe', 'parallel', 'sequential'):
        for imode in ('parallel_safe', 'parallel', 'sequential'):
            for ifail in (False, True):
                for raise_after in (False, True):
                    out.append({'name': 'nested:%s(%s%s)%s' % (omode, imode, ':inner_fails' if ifail else '', ':then_raises' if raise_after else ''),
                                'n': 2, 'calls': [(omode, 'lists', ()), (omode, 'lists', ())], 'hist': True,
                                'nested': (imode, ifail, raise_after)})
    return out


def configs(quick):
    out = []
    sizes = (1, 2, 3) if quick else (1, 2, 3, 4)
    for n in sizes:
        subsets = [c for k in range(n + 1) for c in itertools.combinations(range(n), k)]
        for mode in ('sequential', 'parallel', 'parallel_safe', 'open'):
            for fail in subsets:
                for args in (('none', 'lists', 'mixed', 'reversed', 'extra') if mode != 'open' and not fail else ('lists',) if mode != 'open' else ('none',)):
                    out.append({'name': '%s:n%d:fail%s:%s' % (mode, n, ''.join(map(str, fail)) or '-', args),
                                'n': n, 'mode': mode, 'fail': fail, 'args': args})
        out.append({'name': 'open_twice:n%d' % n, 'n': n, 'mode': 'open_twice', 'fail': (), 'args': 'none'})
        # how the URIs were given (a list changed afterwards, a generator, a duplicate entry) and another swarm in the process
        if n >= 2:
            for mode in ('sequential', 'parallel', 'parallel_safe', 'open'):
                for form in ('mutated', 'generator', 'dup'):
                    out.append({'name': '%s:n%d:uris_%s' % (mode, n, form), 'n': n, 'mode': mode, 'fail': (),
                                'args': 'none' if mode == 'open' else 'lists', 'uris_form': form})
                for fail in ((), (0,)):
                    out.append({'name': '%s:n%d:fail%s:other_swarms' % (mode, n, ''.join(map(str, fail)) or '-'), 'n': n,
                                'mode': mode, 'fail': fail, 'args': 'none' if mode == 'open' else 'lists', 'bystander': True})
    return out


def run(ck):
    cfh.setup()
    ck.rule = ('swarm sizes 1..3 (thorough 4) x every failing subset x {sequential, parallel, parallel_safe, open_links, '
               'open_links twice} x argument dictionaries {none, per-URI lists, mixed empty/non-empty}; thread interleavings '
               'with scheduling points at every line of the Swarm methods and inside the member operations: n<=2 up to 2 '
               'deviations, n=3 up to 1 (thorough: one more each, and n=4 up to 1); histories on one Swarm of 2: 324 pairs and 216 triples of actions (mode x arguments x failing member), 36 nested swarm-wide actions started from inside an action, up to 1 deviation; non-trivial = at least one deviation')
    ck.assume('members are instrumented stand-ins produced by the factory argument (the statement is about Swarm, not about '
              'SyncCrazyflie); an argument dictionary without an entry for a member is outside the statement')
    cs = configs(ck.quick)
    extra = 0 if ck.quick else 1
    tot = {}
    for n, b in ((1, 2), (2, 2), (3, 1), (4, 0)):
        sel = [c for c in cs if c['n'] == n]
        if sel:
            tot['n%d_bound%d' % (n, b + extra)] = explore(ck, exec_c19, sel, b + extra, max_execs=3000000)
    ck.note('exploration', tot)
    # histories on one object (default schedule and one deviation): pairs and triples of actions, nested swarm-wide actions
    ck.note('histories', explore(ck, exec_c19_hist, configs_hist(), 1, max_execs=3000000))
    ck.exhaustive = True


def replay(ck, data):
    cfh.setup()
    cfg = data['cfg']
    if cfg.get('hist'):
        cfg['calls'] = [(c[0], c[1], tuple(c[2])) for c in cfg['calls']]
        if cfg.get('nested'):
            cfg['nested'] = tuple(cfg['nested'])
        p, ns, labels = exec_c19_hist(cfg, tuple(tuple(d) for d in data['devs']))
    else:
        cfg['fail'] = tuple(cfg['fail'])
        p, ns, labels = exec_c19(cfg, tuple(tuple(d) for d in data['devs']))
    ck.merge(p)
    for v in p.violations:
        print(' ', v['sig'], '::', v['what'])
