"""C10 — unanswered requests are retried until answered, and only then.

Real Crazyflie on a SimLink whose device is silent for the handshake; the harness issues
send_packet(pk, expected_reply, timeout) requests whose patterns share prefixes.  Environment:
every transmission's reply is {lost, delivered after 0 / 0.1 / 0.2 (tie with the timer) / 0.3 /
0.5 s}; an unsolicited packet matching several pending patterns; close_link and re-open at any
point; timer threads vs dispatcher ordered by choice.  Oracle on the virtually time-stamped
transmission log against a reference model of the pending set.
"""
from vf import cfh, simcf, vsched
from vf.core import Partial
from vf.explore import explore

ID = 'C10'
LEVEL = 'exploration'

PORT, CHAN = 9, 0
HDR = (PORT << 4) | 0x0c | CHAN
REPLY_MENU = ('drop', 'once', 'delay0.1', 'delay0.2', 'delay0.3', 'delay0.5')

# request name -> (data, expected_reply)
REQS = {
    'a': ((1, 9), (1,)),
    'b': ((1, 2, 9), (1, 2)),
    'c': ((1, 2, 3, 9), (1, 2, 3)),
    'd': ((4, 9), (4,)),
    'e': ((1, 8), (1,)),          # another request that expects the same reply pattern as 'a'
    'f': ((1, 2, 7), (1,)),       # expects the short pattern; its reply also begins with the patterns of 'b' (1, 2)
}
HORIZON = 2.45


def _horizon(cfg):
    return 1.05 if cfg.get('short') and cfg['timeout'] == 0.2 else HORIZON


def _log_lock(base, ex):
    """A lock of the same kind as the one it replaces (plain or re-entrant) that logs every successful acquire."""
    class _LogLock(base):
        def acquire(self, blocking=True, timeout=-1):
            r = super().acquire(blocking, timeout)
            if r:
                ex.log('lockacq', cfh._thread_name())
            return r
    return _LogLock()


def exec_c10(cfg, devs):
    from cflib.crazyflie import Crazyflie
    from cflib.crtp.crtpstack import CRTPPacket
    p = Partial()
    dev = simcf.SimCF()
    dev.silent_ports = set(range(16))

    def hook(port, chan, data):
        if port == PORT:
            return [(simcf.SimCF.hdr(PORT, chan), data)]      # reply = request bytes (matches its pattern)
        return None
    dev.hooks.append(hook)
    vsched.clear_traced_functions()
    if cfg.get('lines'):
        # line-level scheduling points in the retry machinery: the send section, the retry timer body, the answer matcher
        # and the close / error paths (every private method of Crazyflie plus send_packet and close_link)
        import cflib.crazyflie as cfm
        vsched.trace_functions([f for f in cfh.functions_of(cfm.Crazyflie, skip=('__init__',))
                                if f.__name__.startswith('_') or f.__name__ in ('send_packet', 'close_link')])
    ex = cfh.Exec(devs, dev, time_limit=8.0, reply_menu=REPLY_MENU, needs_resending=cfg['resend'], policy=cfg.get('policy'))
    ex.env.on_tx = lambda idx, h, data, st: ex.log('tx', idx, h, tuple(data), st, cfh._thread_name())
    # "received" = taken from the link by the library; when the same thread comes back for the next packet it has had its
    # chance to match this one (whether or not the matcher ran)
    ex.env.on_rx_pk = lambda idx, h, data: ex.log('taken', (h,) + tuple(data), cfh._thread_name())
    ex.env.on_rx_wait = lambda idx: ex.log('rx_wait', cfh._thread_name())
    info = {'sessions': []}

    def main():
        s = ex.s
        cf = Crazyflie()
        # observe entries into the send section: the lock that guards it is replaced by a logging one (found by type, so
        # that a rename does not matter; if it cannot be identified the clauses that need it are silent)
        ln = cfh.find_attr(cf, ('_send_lock',), lambda v: isinstance(v, (vsched.VLock, vsched.VRLock)))
        if ln is not None:
            setattr(cf, ln, _log_lock(type(getattr(cf, ln)), ex))
        else:
            p.cap('send-section lock of Crazyflie not identified: overlap rules not applied')
        # the instant at which an incoming packet is matched against the pending patterns: a window around the library's own
        # matcher (first in the all-packets Caller); if it cannot be found, one event after the matcher has run
        cbs = getattr(cf.packet_received, 'callbacks', None)
        idx = [i for i, c in enumerate(cbs or ()) if getattr(c, '__name__', '') == '_check_for_answers']
        if len(idx) == 1:
            matcher = cbs[idx[0]]

            def windowed(pk, matcher=matcher):
                d = (pk.header,) + tuple(pk.data)
                ex.log('proc_begin', d, cfh._thread_name())
                try:
                    return matcher(pk)
                finally:
                    ex.log('processed', d, cfh._thread_name())
            cbs[idx[0]] = windowed
        # (if the matcher cannot be found the window ends when the dispatcher comes back for the next packet)
        info['cf'] = cf

        def issue(name):
            data, exp = REQS[name]
            pk = CRTPPacket()
            pk.set_header(PORT, CHAN)
            pk.data = bytes(data)
            ex.log('issue', name, len(ex.env.links) - 1)
            kw = {}
            if cfg['timeout'] != 0.2:
                kw['timeout'] = cfg['timeout']
            cf.send_packet(pk, expected_reply=exp, **kw)

        ex.log('open', 0)
        cf.open_link('sim://0')
        if cfg.get('poll'):
            # an inline poll: the handler of the first reply sends the next request (same reply pattern) from the
            # dispatcher thread
            polled = []

            def on_reply(pk):
                if not polled:
                    polled.append(1)
                    issue(cfg['poll'])
            cf.add_port_callback(PORT, on_reply)
        for i, name in enumerate(cfg['reqs']):
            if i and cfg.get('gap'):
                s.sleep(cfg['gap'], 'user.gap')
            issue(name)
        if cfg.get('user2'):
            # a second user thread sends its request at an arbitrary moment (lazy: any scheduling point, one deviation)
            def second():
                s.lazy_point('user2.send', timeout=cfg['user2_at'])
                if cf.link is not None:
                    issue(cfg['user2'])
            s.spawn(None, second, name='user2')
            s.sleep(1e-6, 'let.user2.park')
        if cfg.get('inject'):
            def inj():
                s.lazy_point('env.inject', timeout=cfg['inject_at'])
                if ex.env.links and not ex.env.links[-1].closed:
                    ex.env.links[-1].inject(simcf.SimCF.hdr(PORT, CHAN), bytes(cfg['inject']))
            s.spawn(None, inj, name='env-inject')
        if cfg.get('reopen_in_cb'):
            # an application that reconnects from inside its disconnected callback and sends its first request there
            again = []

            def on_disc(uri):
                if not again:
                    again.append(1)
                    ex.log('closed', 0)
                    if 'resend2' in cfg:
                        ex.env.needs_resending = cfg['resend2']
                    ex.log('open', 1)
                    cf.open_link('sim://0')
                    for name in cfg.get('reqs2', ()):
                        issue(name)
            cf.disconnected.add_callback(on_disc)
        if cfg.get('close_at') is not None:
            s.lazy_point('user.close', timeout=cfg['close_at'])
            ex.log('close', 0)
            if cfg.get('by_error'):
                # the link is lost (reported by the driver thread = this environment thread)
                ex.env.links[-1].fail_from_driver_thread()
            else:
                cf.close_link()
            if not cfg.get('reopen_in_cb'):
                ex.log('closed', 0)
            if cfg.get('reopen_after') is not None:
                s.lazy_point('user.reopen', timeout=cfg['reopen_after'])
                if 'resend2' in cfg:
                    # the next session runs over a link of the other kind (e.g. USB after radio)
                    ex.env.needs_resending = cfg['resend2']
                ex.log('open', 1)
                cf.open_link('sim://0')
                for name in cfg.get('reqs2', ()):
                    issue(name)
        s.wait(vsched._never, max(0.0, _horizon(cfg) - s.elapsed()), 'horizon')
        ex.log('horizon')
        ex.freeze()
        live = []
        for t in s.threads:
            th = t.thread
            if isinstance(th, vsched.VTimer) and t.state != vsched.DONE and not th.finished._flag:
                live.append(t.name)
        info['live_timers'] = live
        cf.close_link()

    ex.run(main)
    _judge(p, cfg, devs, ex, info)
    return p, ex.ch.ns, ex.ch.labels


def _judge(p, cfg, devs, ex, info):
    s = ex.s
    ev = ex.events
    cname = cfg['name']
    rp = {'cfg': cfg, 'devs': list(devs)}
    taken = ex.ch.taken
    kinds = sorted(set((REPLY_MENU[a] if l.startswith('reply:') else l.split(':')[0] if not l.startswith('user.') and not l.startswith('env.') else l)
                       for (_, a, l) in taken))
    fclass = '+'.join(kinds) or 'none'
    txs = [(e[0],) + e[2:] for e in ev if e[1] == 'tx' and e[3] == HDR]        # (t, link, hdr, data, status, thread)
    short = [(round(t, 3), l, d, st) for (t, l, h, d, st, th) in txs]

    def resend_of(link):
        return cfg.get('resend2', cfg['resend']) if link else cfg['resend']

    def viol(clause, what):
        p.violation('retry:%s|%s' % (clause, ('resend' if cfg['resend'] else 'reliable') + (
            '>resend' if cfg.get('resend2') is True else '>reliable' if cfg.get('resend2') is False else '')),
                    '%s devs=%r [%s]: %s; transmissions (t, link, data, status): %r' % (cname, devs, fclass, what, short[:16]), rp)

    p.case(key=(cname, tuple(devs)), nontrivial=bool(devs), outcome=(s.status, tuple(short)),
           sample={'config': cname, 'deviations': [(i, a, l) for (i, a, l) in taken], 'transmissions': short[:10]}
           if (not devs or hash((cname, tuple(devs))) % 53 == 0) else None)
    if s.died:
        viol('thread_died:%s' % s.died[0][1].split('(')[0], 'thread %s died: %s' % (s.died[0][0], s.died[0][1]))
    if s.status != 'ok':
        viol(s.status, 'execution did not complete: %r' % (s.blocked_report,))
        return
    # ---- walk the event log with the reference model -----------------------------------------
    pending = {}          # pattern -> dict(name, link, t0, n, timeout)
    link_open = {}
    cur_link = None
    last_lockacq = {}     # thread -> position
    answered_at = {}      # (name, link) -> position of the processed event that answered it
    closed_pos = {}
    closed_done = {}
    issued = {}           # (name, link) -> position
    ntx = {}
    windows = []          # [begin position, end position or None, packet] of the library's pattern matcher
    untreated = {}        # dispatcher thread -> packet it took from the link and has not run the matcher on (yet)
    maybe = set()         # requests registered while a packet they match was being matched: not judged
    for pos, e in enumerate(ev):
        k = e[1]
        if k == 'open':
            cur_link = e[2]
            link_open[cur_link] = True
        elif k == 'close':
            closed_pos[cur_link] = pos
        elif k == 'closed':
            link_open[cur_link] = False
            closed_done[cur_link] = pos
            for pat in list(pending):
                pending[pat] = [q for q in pending[pat] if q['link'] != cur_link]
                if not pending[pat]:
                    del pending[pat]
        elif k == 'lockacq':
            last_lockacq[e[2]] = pos
        elif k == 'issue':
            name, link = e[2], e[3]
            issued[(name, link)] = pos
        elif k == 'taken':
            # a packet is received when the library takes it from the link; the window in which it is matched against the
            # pending patterns runs from there to the end of the library's matcher (or, if the matcher is never run on it,
            # to the moment the same thread comes back for the next packet)
            if (e[2][0] & 0xf3) == (HDR & 0xf3):
                untreated[e[3]] = e[2]
                windows.append({'begin': pos, 'end': None, 'data': e[2], 'thread': e[3], 'dirty': False, 'after': set()})
        elif k == 'processed' or (k == 'rx_wait' and e[2] in untreated):
            if k == 'rx_wait':
                d = untreated.pop(e[2])
                th_w = e[2]
            else:
                d = e[2]
                th_w = e[3] if len(e) > 3 else None
                untreated.pop(th_w, None)
            if (d[0] & 0xf3) != (HDR & 0xf3):
                continue
            w = next((w for w in windows if w['end'] is None and w['data'] == d and th_w in (None, w['thread'])), None)
            if w is None:
                w = {'begin': pos, 'end': None, 'data': d, 'thread': th_w, 'dirty': False, 'after': set()}
            w['end'] = pos
            cands = [pat for pat in pending if d[:len(pat)] == pat]
            if w['dirty']:
                # a request that could match this packet was being registered by another thread while the packet was being
                # matched: the library may or may not have counted it in; nothing is demanded of the requests it could answer
                for pat in cands:
                    for q in pending[pat]:
                        maybe.add((q['name'], q['link']))
                    del pending[pat]
            elif cands:
                # requests sent by the receiving thread itself after it had taken this packet (from a handler of the very
                # packet) come after it: this packet cannot be their answer
                live = [pat for pat in cands if any((q['name'], q['link']) not in w['after'] for q in pending[pat])]
                if live:
                    lm = max(live, key=len)
                    keep = [q for q in pending[lm] if (q['name'], q['link']) in w['after']]
                    for q in pending[lm]:
                        if (q['name'], q['link']) not in w['after']:
                            answered_at[(q['name'], q['link'])] = pos
                    if keep:
                        pending[lm] = keep
                    else:
                        del pending[lm]
        elif k == 'tx' and e[3] == HDR:
            t, link, data, st, th = e[0], e[2], e[4], e[5], e[6]
            name = [n for n, (dd, ex_) in REQS.items() if tuple(dd) == tuple(data)]
            name = name[0] if name else None
            if st == 'CLOSED':
                # a send that entered the send section before the close finished overlaps the close and may be
                # ordered before it; only a send that started after the link was closed counts
                if last_lockacq.get(th, -1) > closed_done.get(link, 1 << 60):
                    viol('tx_on_closed_link', 'request %r handed to a closed link instance at t=%.3f by %s, which entered '
                         'the send section after the close had completed' % (name, t, th))
                continue
            if name is None:
                continue
            pat = (HDR,) + REQS[name][1]
            # which session issued this request?  the latest issue of that name at or before now
            iss = [(pp, ln) for (nm, ln), pp in issued.items() if nm == name and pp <= pos]
            iss_link = max(iss)[1] if iss else None
            if iss_link is not None and iss_link != link:
                viol('cross_session', 'request %r issued in session %d transmitted in session %d at t=%.3f' % (
                    name, iss_link, link, t))
                continue
            key = (name, link)
            ntx[key] = ntx.get(key, 0) + 1
            if ntx[key] == 1:
                if resend_of(link):
                    # its pattern was registered somewhere between the entry into the send section and this transmission:
                    # a matching packet whose matching overlaps that span may or may not have found it
                    began = last_lockacq.get(th, -1)
                    for w in windows:
                        if w['data'][:len(pat)] == pat and w['begin'] < pos and (w['end'] is None or w['end'] > began):
                            if w['thread'] == th and w['begin'] < began:
                                w['after'].add(key)         # sent by the receiving thread after it took the packet
                            else:
                                maybe.add(key)
                                if w['end'] is None:
                                    w['dirty'] = True
                    if key not in maybe:
                        pending.setdefault(pat, []).append({'name': name, 'link': link, 't0': t})
                continue
            if key in maybe:
                continue
            # a retransmission
            if not resend_of(link):
                viol('retransmission_on_reliable_link', 'request %r transmitted %d times' % (name, ntx[key]))
                continue
            if key in answered_at:
                apos = answered_at[key]
                if last_lockacq.get(th, -1) > apos:
                    # (qualifier: another request that awaits the very same pattern has been sent since - the retry of the
                    # answered one finds "its" pattern pending again)
                    others = [q for q in pending.get(pat, []) if (q['name'], q['link']) != key]
                    viol('retransmitted_after_answer' + (':same_pattern_awaited_by_a_later_request' if others else ''),
                         'request %r retransmitted at t=%.3f by %s although its answer had been processed before the sender '
                         'entered the send section%s' % (name, t, th, ' (request %r, sent since, awaits the same pattern)'
                                                         % others[0]['name'] if others else ''))
                continue
    # ---- cadence: every pending-or-answered request retransmits exactly every timeout ----------
    to = cfg['timeout']
    tx_times = {}
    for (t, link, h, data, st, th) in txs:
        if st != 'ok':
            continue
        name = [n for n, (dd, _e) in REQS.items() if tuple(dd) == tuple(data)]
        if name and (name[0], link) in issued:
            tx_times.setdefault((name[0], link), []).append(t)
    if cfg['resend'] or cfg.get('resend2'):
        for (name, link), times in tx_times.items():
            if (name, link) in maybe or not resend_of(link):
                continue
            # end of obligation: answer processed, link closed, or horizon
            end_t = _horizon(cfg)
            why = 'horizon'
            if (name, link) in answered_at:
                end_t = ev[answered_at[(name, link)]][0]
                why = 'answered'
            if link in closed_pos and ev[closed_pos[link]][0] <= end_t:
                end_t = ev[closed_pos[link]][0]
                why = 'closed'
            t0 = times[0]
            expect = []
            k = 1
            while t0 + k * to < end_t - 1e-9:
                expect.append(round(t0 + k * to, 6))
                k += 1
            got = [round(x, 6) for x in times[1:]]
            # transmissions exactly at end_t are tolerated either way (tie)
            got_strict = [x for x in got if x < end_t - 1e-9]
            if got_strict != expect:
                cls = 'missing' if len(got_strict) < len(expect) else 'extra' if len(got_strict) > len(expect) else 'mistimed'
                if got_strict[:1] == expect[:1] and len(expect) > 1 and len(got_strict) > 1 and got_strict[1] != expect[1]:
                    cls = 'interval_after_first_retry'
                viol('cadence:%s:timeout%s:%s' % (cls, to, why),
                     'request %r (timeout %.1f, first sent %.3f, obligation ends %.3f: %s) retransmitted at %r, expected %r'
                     % (name, to, t0, end_t, why, got_strict[:8], expect[:8]))
            late = [x for x in got if x > end_t + 1e-9]
            if late and why == 'closed':
                viol('retransmitted_after_close', 'request %r retransmitted at %r after its link was closed at %.3f' % (
                    name, late[:4], end_t))
    # ---- leftovers ----------------------------------------------------------------------------------
    if cfg.get('close_at') is not None and cfg.get('reopen_after') is None and not cfg.get('reopen_in_cb') and info.get('live_timers'):
        viol('live_timer_after_close', 'retry timers still armed at the horizon after close_link: %r' % (info['live_timers'][:3],))


def _cfg(name, reqs, resend=True, timeout=0.2, **kw):
    d = dict(name=name, reqs=tuple(reqs), resend=resend, timeout=timeout)
    d.update(kw)
    return d


def configs(quick):
    out = [
        _cfg('single:0.2', 'a'),
        _cfg('single:1.0', 'a', timeout=1.0),
        _cfg('reliable', 'ab', resend=False),
        _cfg('prefix:ab', 'ab'),
        _cfg('prefix:ba', 'ba'),
        _cfg('prefix:abc', 'abc'),
        _cfg('prefix:ad', 'ad'),
        _cfg('inject:ab', 'ab', inject=(1, 2, 7), inject_at=0.25),
        _cfg('inject:abc', 'abc', inject=(1, 2, 7), inject_at=0.25),
        _cfg('inject:a-long', 'a', inject=(1, 2, 3, 4), inject_at=0.3),
        _cfg('close:0.3', 'a', close_at=0.3),
        _cfg('close:0.2tie', 'a', close_at=0.2),
        _cfg('reopen:0.3+0.05', 'a', close_at=0.3, reopen_after=0.05, reqs2='d'),
        _cfg('reopen:tie', 'a', close_at=0.3, reopen_after=0.1, reqs2='d'),
        _cfg('reopen:1.0', 'a', timeout=1.0, close_at=0.5, reopen_after=0.2, reqs2='d'),
        _cfg('gap:ab', 'ab', gap=0.1),
        _cfg('user2:close+reopen', 'a', close_at=0.3, reopen_after=0.05, reqs2='d', user2='b', user2_at=0.32),
        _cfg('user2:error+reopen', 'a', close_at=0.3, reopen_after=0.05, reqs2='d', user2='b', user2_at=0.32, by_error=True),
        _cfg('user2:plain', 'a', user2='b', user2_at=0.3),
        _cfg('single:0.2:handoff', 'a', policy='handoff'),
        _cfg('prefix:ab:handoff', 'ab', policy='handoff'),
        _cfg('reopen:tie:eager', 'a', close_at=0.3, reopen_after=0.1, reqs2='d', policy='eager'),
        _cfg('error-reopen:0.3+0.05', 'a', close_at=0.3, reopen_after=0.05, reqs2='d', by_error=True),
        _cfg('error-reopen:1.0', 'a', timeout=1.0, close_at=0.5, reopen_after=0.2, reqs2='d', by_error=True),
        _cfg('error:0.3', 'ab', close_at=0.3, by_error=True),
        # two requests waiting for one and the same reply pattern, and the same pattern awaited again in the next session
        _cfg('same:ae', 'ae'),
        _cfg('same:ae:gap', 'ae', gap=0.1),
        _cfg('reopen:same-pattern:tie', 'a', close_at=0.4, reopen_after=0.0, reqs2='e'),
        _cfg('reopen:same-pattern', 'a', close_at=0.3, reopen_after=0.05, reqs2='e'),
        _cfg('poll:a->e', 'a', poll='e'),
        # a request still unanswered when its session ends (closed or lost before the first retry) and, in the next session,
        # a request whose reply begins with the old one's longer pattern / a longer pattern whose reply the old shorter one
        # would match / all three prefix-sharing patterns after an unanswered one
        # the next session runs over a link of the other kind (reliable after lossy and the reverse), after a close and
        # after a link error; the application reconnects and sends from inside its disconnected callback
        _cfg('reopen:lossy>reliable', 'a', close_at=0.3, reopen_after=0.05, reqs2='d', resend2=False),
        _cfg('reopen:reliable>lossy', 'a', resend=False, close_at=0.3, reopen_after=0.05, reqs2='d', resend2=True),
        _cfg('error-reopen:lossy>reliable', 'a', close_at=0.3, reopen_after=0.05, reqs2='d', resend2=False, by_error=True),
        _cfg('error-reopen:reliable>lossy', 'a', resend=False, close_at=0.3, reopen_after=0.05, reqs2='d', resend2=True, by_error=True),
        _cfg('reopen-in-callback', 'a', close_at=0.3, reopen_in_cb=True, reqs2='d'),
        _cfg('reopen-in-callback:same-pattern', 'a', close_at=0.3, reopen_in_cb=True, reqs2='e'),
        _cfg('reopen:stale-longer', 'b', close_at=0.1, reopen_after=0.05, reqs2='f'),
        _cfg('error-reopen:stale-longer', 'b', close_at=0.1, reopen_after=0.05, reqs2='f', by_error=True),
        _cfg('reopen:stale-shorter', 'a', close_at=0.1, reopen_after=0.05, reqs2='b'),
        _cfg('reopen:stale-middle', 'b', close_at=0.1, reopen_after=0.05, reqs2='fc'),
    ]
    return out


def _focus_filter(devs, i, alt, label):
    if not devs:
        return not label.startswith('L:')
    if len(devs) == 1:
        return label.startswith('L:') and i <= devs[0][0] + 40
    return label.startswith('L:') and i <= devs[1][0] + 20


def run(ck):
    cfh.setup()
    ck.rule = ('%d request scenarios (single / prefix-sharing patterns / two requests awaiting one pattern / the same pattern awaited in the next session / unsolicited matching packet / close / link error / close+reopen / error+reopen '
               '/ reliable link / 1 s timeout) x deviation vectors over: reply to each transmission in {lost, +0, +0.1, '
               '+0.2 (tie), +0.3, +0.5 s}, unsolicited packet and user close/reopen at any scheduling point, thread order '
               'at equal instants; horizon 2.45 s virtual; non-trivial = at least one deviation' % len(configs(ck.quick)))
    ck.assume('a send_packet that entered the send section before close_link/the link error completed overlaps it and is '
              'not counted as a transmission on a closed link')
    ck.assume('a retransmission whose sender entered the send section before the answer was processed is tolerated '
              '(decision taken before the answer); one at exactly the instant the obligation ends is tolerated (tie)')
    ck.assume('virtual time: a running library thread is infinitely fast relative to timers at other instants')
    # which links need retransmission is announced by the radio driver (needs_resending = safelink not confirmed): every
    # sequence of three driver-thread starts on one RadioDriver object (the check written for C01 drives the real thread)
    from vf.checks import c01 as _c01
    ck.pmap(_c01.part_restart, [None])
    cs = configs(ck.quick)
    r = explore(ck, exec_c10, cs, 1)
    ck.note('exploration_one_deviation', r)
    deep_names = ('single:0.2', 'inject:ab', 'reopen:tie', 'user2:close+reopen', 'same:ae', 'reopen:same-pattern:tie') if ck.quick else tuple(c['name'] for c in cs)
    deep = [dict(c, name=c['name'] + ':2dev', short=True) for c in cs if c['name'] in deep_names]
    r2 = explore(ck, exec_c10, deep, 2, max_execs=3000000)
    ck.note('exploration_two_deviations', r2)
    ck.note('two_deviation_configurations', [c['name'] for c in deep])
    # focused line-level search: any first deviation (reply timing, close, order), then one switch at a line of the retry
    # machinery within the next 40 points (thorough: two switches, the second within 20 points of the first)
    fnames = ('single:0.2', 'prefix:ab') if ck.quick else ('single:0.2', 'prefix:ab', 'inject:ab', 'close:0.2tie',
                                                           'reopen:tie', 'error-reopen:0.3+0.05')
    focus = [dict(c, name=c['name'] + ':lines', short=True, lines=True) for c in cs if c['name'] in fnames]
    r3 = explore(ck, exec_c10, focus, 2 if ck.quick else 3, child_filter=_focus_filter, max_execs=3000000)
    ck.note('focused_line_level', r3)
    ck.exhaustive = True


def replay(ck, data):
    cfh.setup()
    p, ns, labels = exec_c10(data['cfg'], tuple(tuple(d) for d in data['devs']))
    ck.merge(p)
    print('config %s deviations %r -> %d choice points' % (data['cfg']['name'], data['devs'], len(ns)))
    for v in p.violations:
        print(' ', v['sig'], '::', v['what'])
