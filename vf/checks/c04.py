"""C04 — parameter writes/reads are typed correctly and never cross-attributed.

Part A (inputs, sequential): every firmware parameter type x both protocol generations x a value
alphabet (type boundaries, one beyond, decimal strings, float specials) through the real
Param.set_value / request_param_update against SimCF: wire bytes, refusal without transmission,
caches, get_value and the three kinds of update callbacks.
Part B (schedules/histories): 2-3 user threads issue set / read / persistent store / clear /
get_state / get_default requests on 2-3 parameters while replies may be delayed past the retry
timer and the device may announce a changed value at any time; explored with every combination of
at most `bound` deviations; every reply must reach exactly the request it answers.
"""
import struct

from vf import cfh, simcf, vsched
from vf.core import Partial
from vf.explore import explore

ID = 'C04'
LEVEL = 'exploration'

TYPES = [(0x08, 'uint8_t', '<B', 0, 255), (0x09, 'uint16_t', '<H', 0, 65535), (0x0A, 'uint32_t', '<L', 0, 2 ** 32 - 1),
         (0x0B, 'uint64_t', '<Q', 0, 2 ** 64 - 1), (0x00, 'int8_t', '<b', -128, 127), (0x01, 'int16_t', '<h', -32768, 32767),
         (0x02, 'int32_t', '<i', -2 ** 31, 2 ** 31 - 1), (0x03, 'int64_t', '<q', -2 ** 63, 2 ** 63 - 1),
         (0x06, 'float', '<f', None, None), (0x07, 'double', '<d', None, None)]
F32MAX = 3.4028234663852886e38


def _int_alphabet(lo, hi):
    vals = [lo, lo - 1, -1, 0, 1, 2, hi, hi + 1, 2 ** 64, -2 ** 63 - 1, (lo + hi) // 2]
    out = []
    for v in vals:
        out.append(v)
        out.append(str(v))
    return out


FLOAT_ALPHABET = [0.0, -0.0, 0.1, -123.456, 1, -2, F32MAX, -F32MAX, 1e39, -1e39, float('inf'), float('-inf'), '0.25', '7',
                  16777217.0, 1e-46]


def _device_a(proto):
    v2 = proto >= 4
    params = []
    for i, (code, cname, fmt, lo, hi) in enumerate(TYPES):
        params.append(simcf.ParamVar('g%d' % (i % 3), 'p%d' % i, code, value=(i + 3)))
    params.append(simcf.ParamVar('g0', 'ro', 0x09, value=777, ro=True))
    if v2:
        params.append(simcf.ParamVar('g1', 'pers', 0x01, value=-5, extended=True, persistent=True, default=11))
    return simcf.SimCF(protocol=proto, log=(), params=params)


def _connect_full(ex, cf, T=20.0):
    flag = {}
    cb = lambda uri: flag.__setitem__('f', 1)  # noqa
    cf.fully_connected.add_callback(cb)
    cf.open_link('sim://0')
    ok = ex.wait_for(lambda: 'f' in flag, T, 'wait.fully')
    cf.fully_connected.remove_callback(cb)
    cf.link_statistics.stop()
    return ok


def part_a(proto):
    from cflib.crazyflie import Crazyflie
    cfh.setup()
    p = Partial()
    dev = _device_a(proto)
    v2 = proto >= 4
    ex = cfh.Exec((), dev, time_limit=4000.0, reply_menu=('once',), needs_resending=True)
    ex.freeze()

    def main():
        cf = Crazyflie()
        if not _connect_full(ex, cf):
            p.violation('param:setup:no_connect:p%d' % proto, 'could not fully connect (protocol %d)' % proto, {'part': 'A', 'proto': proto})
            return
        calls = []
        for i, (code, cname, fmt, lo, hi) in enumerate(TYPES):
            g, n = 'g%d' % (i % 3), 'p%d' % i
            cf.param.add_update_callback(group=g, name=n, cb=lambda name, val, k=('param', i): calls.append((k, name, val)))
        for g in ('g0', 'g1', 'g2'):
            cf.param.add_update_callback(group=g, cb=lambda name, val, k=('group', g): calls.append((k, name, val)))
        cf.param.add_update_callback(cb=lambda name, val: calls.append((('all',), name, val)))
        # a second observer of every kind, registered after all the first ones (every registered callback is told)
        for i, (code, cname, fmt, lo, hi) in enumerate(TYPES):
            g, n = 'g%d' % (i % 3), 'p%d' % i
            cf.param.add_update_callback(group=g, name=n, cb=lambda name, val, k=('param2', i): calls.append((k, name, val)))
        for g in ('g0', 'g1', 'g2'):
            cf.param.add_update_callback(group=g, cb=lambda name, val, k=('group2', g): calls.append((k, name, val)))
        cf.param.add_update_callback(cb=lambda name, val: calls.append((('all2',), name, val)))

        def told(i, g, cn, val):
            return sorted([(('param', i), cn, val), (('group', g), cn, val), (('all',), cn, val),
                           (('param2', i), cn, val), (('group2', g), cn, val), (('all2',), cn, val)])
        for i, (code, cname, fmt, lo, hi) in enumerate(TYPES):
            g, n = 'g%d' % (i % 3), 'p%d' % i
            cn = g + '.' + n
            alphabet = _int_alphabet(lo, hi) if lo is not None else FLOAT_ALPHABET
            for v in alphabet:
                rp = {'part': 'A', 'proto': proto, 'type': cname, 'value': repr(v)}
                # reference: what must go on the wire
                try:
                    num = float(v) if lo is None else int(v)
                    wire_val = struct.pack(fmt, num)
                    representable = True
                except (struct.error, OverflowError, ValueError):
                    representable = False
                    wire_val = None
                cls = ('in_range' if representable else 'out_of_range') + ':' + ('str' if isinstance(v, str) else 'num')
                tx0 = len(ex.env.tx)
                del calls[:]
                dev_before = dev.params[i].value
                try:
                    cf.param.set_value(cn, v)
                    raised = None
                except Exception as e:  # noqa
                    raised = e
                ex.s.sleep(0.05)
                txs = [t for t in ex.env.tx[tx0:]]
                p.case(key=(proto, cname, repr(v)), outcome=(cname, cls),
                       sample={'protocol': proto, 'type': cname, 'value': repr(v), 'wire': [t[3].hex() for t in txs],
                               'raised': type(raised).__name__ if raised else None} if v in (lo, hi, '7', 1e39) or v == 0.1 else None)
                if not representable:
                    if raised is None or txs:
                        p.violation('param:set:out_of_range_not_refused:%s' % cname,
                                    'set_value(%s, %r) [protocol %d]: raised=%r, transmissions=%r, device value now %r' % (
                                        cn, v, proto, raised, [t[3].hex() for t in txs], dev.params[i].value), rp)
                    continue
                if raised is not None:
                    p.violation('param:set:raises_in_range:%s' % cname, 'set_value(%s, %r) raised %r' % (cn, v, raised), rp)
                    continue
                idb = struct.pack('<H', i) if v2 else bytes([i])
                if len(txs) != 1 or (txs[0][2] >> 4, txs[0][2] & 3) != (2, 2) or txs[0][3] != idb + wire_val:
                    p.violation('param:set:wire:%s:%s' % (cname, 'v2' if v2 else 'v1'),
                                'set_value(%s, %r) [protocol %d] transmitted %r, expected one packet on port 2 channel 2 with %s'
                                % (cn, v, proto, [(hex(t[2]), t[3].hex()) for t in txs], (idb + wire_val).hex()), rp)
                    continue
                dval = dev.params[i].value
                exp_s = str(struct.unpack(fmt, wire_val)[0])
                if str(dval) != exp_s:
                    p.violation('param:set:device_value:%s' % cname, 'device holds %r after set_value(%s, %r), expected %s' % (
                        dval, cn, v, exp_s), rp)
                got_cache = cf.param.values.get(g, {}).get(n)
                try:
                    got_get = cf.param.get_value(cn)
                except Exception as e:  # noqa
                    got_get = e
                if got_cache != exp_s or got_get != exp_s:
                    p.violation('param:set:cache:%s' % cname, 'after set_value(%s, %r) and the device answer: values=%r, '
                                'get_value=%r, device=%s' % (cn, v, got_cache, got_get, exp_s), rp)
                exp_calls = told(i, g, cn, exp_s)
                if sorted(calls) != exp_calls:
                    p.violation('param:set:callbacks:%s' % cname, 'update callbacks after set_value(%s, %r): %r, expected each '
                                'of the two param / group / all observers once with %s' % (cn, v, calls, exp_s), rp)
            # read path (status byte stripped in V2)
            for dv in ([lo, hi, 258, 2] if lo is not None else [0.1, -0.0, F32MAX]):
                if lo is not None and not (lo <= dv <= hi):
                    continue
                dev.params[i].value = struct.unpack(fmt, struct.pack(fmt, dv))[0]
                del calls[:]
                tx0 = len(ex.env.tx)
                cf.param.request_param_update(cn)
                ex.s.sleep(0.05)
                exp_s = str(dev.params[i].value)
                txs = ex.env.tx[tx0:]
                p.case(key=(proto, cname, 'read', repr(dv)), outcome=(cname, 'read'))
                rp = {'part': 'A', 'proto': proto, 'type': cname, 'read': repr(dv)}
                idb = struct.pack('<H', i) if v2 else bytes([i])
                if len(txs) != 1 or (txs[0][2] >> 4, txs[0][2] & 3) != (2, 1) or txs[0][3] != idb:
                    p.violation('param:read:wire:%s' % cname, 'request_param_update(%s) transmitted %r' % (cn, [(hex(t[2]), t[3].hex()) for t in txs]), rp)
                if cf.param.values.get(g, {}).get(n) != exp_s or sorted(calls) != told(i, g, cn, exp_s):
                    p.violation('param:read:value:%s:%s' % (cname, 'v2' if v2 else 'v1'), 'device value %s read as %r; callbacks %r' % (
                        exp_s, cf.param.values.get(g, {}).get(n), calls), rp)
        # refusals: read-only, unknown
        for cn, exc_t, cls in (('g0.ro', AttributeError, 'read_only'), ('g0.nope', KeyError, 'unknown'), ('zz.p0', KeyError, 'unknown_group')):
            tx0 = len(ex.env.tx)
            try:
                cf.param.set_value(cn, 1)
                raised = None
            except Exception as e:  # noqa
                raised = e
            ex.s.sleep(0.05)
            p.case(key=(proto, 'refuse', cn), outcome=cls)
            if raised is None or ex.env.tx[tx0:]:
                p.violation('param:set:%s_not_refused' % cls, 'set_value(%s, 1): raised=%r transmissions=%r' % (
                    cn, raised, [t[3].hex() for t in ex.env.tx[tx0:]]), {'part': 'A', 'proto': proto, 'name': cn})
        if dev.params[len(TYPES)].value != 777:
            p.violation('param:set:read_only_changed', 'read-only parameter changed on the device', {'part': 'A', 'proto': proto})
        cf.close_link()

    ex.run(main)
    if ex.s.status != 'ok' or ex.s.died:
        p.violation('param:partA:%s' % (ex.s.status if ex.s.status != 'ok' else 'thread_died'),
                    'part A (protocol %d) did not complete: %r %r' % (proto, ex.s.blocked_report, ex.s.died[:1]), {'part': 'A', 'proto': proto})
    return p


# ---------------------------------------------------------------------------------------------
# Part B
# ---------------------------------------------------------------------------------------------
# ---------------------------------------------------------------------------------------------
# Part C: requests issued from inside the library's own notifications (the thread that delivers them)
# ---------------------------------------------------------------------------------------------
def part_cb(job):
    from cflib.crazyflie import Crazyflie
    cfh.setup()
    where, op = job
    p = Partial()
    dev = _device_a(10)
    ex = cfh.Exec((), dev, time_limit=400.0, reply_menu=('once',), needs_resending=True)
    ex.freeze()
    rp = {'part': 'C', 'where': where, 'op': op}
    name = '%s:%s' % (op, where)

    def main():
        cf = Crazyflie()
        got = {'updates': []}
        cf.param.add_update_callback(group='g1', name='p1', cb=lambda n, v: got['updates'].append((n, v)))

        def act(*a):
            if got.get('done'):
                return
            got['done'] = True
            got['updates_before'] = len(got['updates'])
            try:
                if op == 'set':
                    cf.param.set_value('g1.p1', 4242)
                else:
                    dev.params[1].value = 999           # changed on the device since the download
                    cf.param.request_param_update('g1.p1')
                got['result'] = 'ok'
            except Exception as e:  # noqa
                got['result'] = e
        if where == 'fully_connected':
            cf.fully_connected.add_callback(act)
        elif where == 'all_updated':
            cf.param.all_updated.add_callback(act)
        elif where == 'param_update_cb':
            # the notification of one parameter (after everything is there) triggers a request about another one
            cf.param.add_update_callback(group='g0', name='p0', cb=lambda n, v: act() if got.get('armed') else None)
        if not _connect_full(ex, cf):
            p.violation('param:setup:no_connect:partC', 'could not fully connect', rp)
            return
        if where == 'param_update_cb':
            got['armed'] = True
            cf.param.set_value('g0.p0', 9)
        ex.wait_for(lambda: 'result' in got, 5.0, 'wait.cb')
        ex.s.sleep(0.5)
        want = '4242' if op == 'set' else '999'
        new = got['updates'][got.get('updates_before', 0):]
        p.case(key=('cb',) + tuple(job), outcome=(repr(got.get('result'))[:30], tuple(new)),
               sample={'request': name, 'result': repr(got.get('result'))[:60], 'notified': new})
        if got.get('result') != 'ok':
            p.violation('param:from_callback:refused:%s' % name, '%s of g1.p1 from inside the %s notification (every parameter has '
                        'its value by then): %r' % (op, where, got.get('result')), rp)
        else:
            if op == 'set' and dev.params[1].value != 4242:
                p.violation('param:from_callback:not_transmitted:%s' % name, 'device value %r after set_value(4242) from the %s '
                            'notification' % (dev.params[1].value, where), rp)
            if new != [('g1.p1', want)]:
                p.violation('param:from_callback:notification:%s' % name, 'update notifications %r, expected one with %s' % (new, want), rp)
            if cf.param.values.get('g1', {}).get('p1') != want:
                p.violation('param:from_callback:value:%s' % name, 'stored value %r, expected %s' % (cf.param.values.get('g1', {}).get('p1'), want), rp)
        cf.close_link()

    ex.run(main)
    if ex.s.status != 'ok':
        p.violation('param:partC:%s:%s' % (ex.s.status, name), 'part C did not complete: %r' % (ex.s.blocked_report,), rp)
    if ex.s.died:
        p.violation('param:partC:thread_died:%s:%s' % (ex.s.died[0][1].split('(')[0], name), 'thread died: %r' % (ex.s.died[0][:2],), rp)
    return p


def _device_b():
    params = [simcf.ParamVar('a', 'x', 0x09, value=258, extended=True, persistent=True, default=2),
              simcf.ParamVar('a', 'y', 0x01, value=7, extended=True, persistent=True, default=9, stored=4),
              simcf.ParamVar('b', 'z', 0x06, value=1.5, extended=True, persistent=True, default=0.5)]
    return simcf.SimCF(protocol=10, log=(), params=params)


NAMES = ('a.x', 'a.y', 'b.z')

# request = (kind, param index[, value])
THREADSETS = {
    'getstate2': ((('get_state', 0),), (('get_state', 1),)),
    'getstate3': ((('get_state', 0),), (('get_state', 1),), (('get_state', 2),)),
    'default2': ((('get_default', 0),), (('get_default', 1),)),
    'default+state': ((('get_default', 0),), (('get_state', 0),), (('get_default', 2),)),
    'store+clear': ((('store', 0),), (('clear', 1),)),
    'store+state': ((('store', 0), ('get_state', 0)), (('get_state', 1),)),
    'set+read': ((('set', 0, 1000),), (('read', 1),)),
    'set+set_same': ((('set', 0, 11),), (('set', 0, 22),)),
    'set+set_diff': ((('set', 0, 11), ('read', 0)), (('set', 1, 33),)),
    'mixed3': ((('set', 2, 2.25),), (('get_state', 1),), (('read', 0),)),
    'read1+state2': ((('read', 1),), (('get_state', 2),)),
    'set1+read2': ((('set', 1, 44),), (('read', 2),)),
    'state_twice': ((('get_state', 2), ('get_state', 2)), (('get_state', 1),)),
    'default_twice': ((('get_default', 0), ('get_default', 0)),),
    'store_clear_same': ((('store', 1),), (('clear', 1),), (('get_state', 1),)),
}


def _updater_parts(cf):
    """(updater thread, its request queue, its reply lock) of a connected Crazyflie - looked up by type where the usual
    name is gone (None for what cannot be identified; the clauses that need it are then not judged)."""
    import threading
    par = cf.param
    upd = getattr(par, 'param_updater', None)
    if upd is None:
        n = cfh.find_attr(par, (), lambda v: isinstance(v, threading.Thread))
        upd = getattr(par, n) if n else None
    if upd is None:
        return None, None, None
    qn = cfh.find_attr(upd, ('request_queue',), lambda v: isinstance(v, vsched.VQueue))
    ln = cfh.find_attr(upd, ('wait_lock',), lambda v: isinstance(v, (vsched.VLock, vsched.VRLock, vsched.VSemaphore)))
    return upd, (getattr(upd, qn) if qn else None), (getattr(upd, ln) if ln else None)


def _updater_functions():
    """run() and the reply handler of the parameter updater thread class (by name, else: every method of the Thread
    subclasses of the parameter module)."""
    import threading
    import cflib.crazyflie.param as pm
    cls = getattr(pm, '_ParamUpdater', None)
    if cls is not None and hasattr(cls, 'run') and hasattr(cls, '_new_packet_cb'):
        return [cls.run, cls._new_packet_cb]
    ths = [v for v in vars(pm).values() if isinstance(v, type) and issubclass(v, threading.Thread)
           and v.__module__ == pm.__name__]
    return cfh.functions_of(*ths, skip=('__init__',))


def exec_c04(cfg, devs):
    from cflib.crazyflie import Crazyflie
    p = Partial()
    dev = _device_b()
    menu = ('once', 'delay0.3')
    vsched.clear_traced_functions()
    if cfg.get('lines'):
        # line-level scheduling points inside the updater thread's send step and the reply handler (the attribute they
        # share, the awaited-reply pattern, is written by both without a lock)
        vsched.trace_functions(_updater_functions())
    ex = cfh.Exec(devs, dev, time_limit=40.0, reply_menu=menu, needs_resending=True, policy=cfg.get('policy'))
    ex.env.on_tx = lambda idx, h, data, st: ex.log('tx', h, bytes(data)) if (
        (h >> 4) == 2 and (h & 3) != 0 and info.get('armed')) else None
    info = {'results': {}, 'issued': []}
    threads = THREADSETS[cfg['threads']]

    def main():
        s = ex.s
        cf = Crazyflie()
        ex.freeze()
        if not _connect_full(ex, cf):
            info['noconnect'] = True
            return
        ex.frozen = False
        s.frozen = False
        s.sleep(0.3, 'handshake.tail')
        info['armed'] = True
        cf.packet_received.add_callback(lambda pk: ex.log('processed', pk.header, bytes(pk.data)) if (
            pk.port == 2 and pk.channel != 0) else None)
        updater, q, wl = _updater_parts(cf)
        info['no_queue'] = q is None

        class _LogList(list):
            # the order in which requests enter the queue, observed at the append itself
            def append(self_, item):
                ex.log('put', item.header, bytes(item.data))
                list.append(self_, item)
        if q is not None:
            q.queue = _LogList(q.queue)
        upd = []
        cf.param.add_update_callback(cb=lambda name, val: (upd.append((name, val)), ex.log('update', name, val)))
        info['upd'] = upd
        # only replies on the parameter port may be delayed
        ex.env.reply_filter = lambda h, payload: None if ((h >> 4) & 15) == 2 else ('once',)

        def user(ti, reqs):
            for ri, req in enumerate(reqs):
                kind, pi = req[0], req[1]
                key = (ti, ri)
                res = info['results'].setdefault(key, [])
                cbk = lambda name, val, res=res, key=key: (res.append((name, val)), ex.log('result', key, name, repr(val)))  # noqa
                if ri > 0 and cfg.get('sequential'):
                    # the application asks again only after it has the answer to its previous request
                    prev = info['results'][(ti, ri - 1)]
                    ex.wait_for(lambda: len(prev) > 0, 3.0, 'user.wait_answer')
                ex.log('issue', key, kind, pi)
                try:
                    if kind == 'set':
                        cf.param.set_value(NAMES[pi], req[2])
                    elif kind == 'read':
                        cf.param.request_param_update(NAMES[pi])
                    elif kind == 'get_state':
                        cf.param.persistent_get_state(NAMES[pi], cbk)
                    elif kind == 'get_default':
                        cf.param.get_default_value(NAMES[pi], cbk)
                    elif kind == 'store':
                        cf.param.persistent_store(NAMES[pi], cbk)
                    elif kind == 'clear':
                        cf.param.persistent_clear(NAMES[pi], cbk)
                except Exception as e:  # noqa
                    ex.log('raise', key, repr(e)[:80])
        if cfg.get('unsol_inflight'):
            # a value-changed notification is already on its way down (arrives 0.1 s later) when the requests are issued:
            # it is then processed while a request is outstanding
            upi = cfg.get('unsol_param', 1)
            newv = struct.unpack(dev.params[upi].fmt, struct.pack(dev.params[upi].fmt, 99))[0]
            dev.params[upi].value = newv
            ex.log('unsolicited', upi, newv)
            ex.env.links[-1].deliver_later(*dev.value_updated_packet(upi), 0.1)
        if cfg.get('enoent'):
            # the firmware may refuse a state / default query with ENOENT: an environment answer (one deviation)
            def enoent_hook(port, chan, data):
                if port == 2 and chan == 3 and data[:1] in (b'\x04', b'\x06') and not ex.frozen:
                    if ex._choose(2, 'param.enoent') == 1:
                        ex.log('enoent', bytes(data[:3]))
                        return [(simcf.SimCF.hdr(2, 3), bytes(data[:3]) + bytes([2]))]
                return None
            dev.hooks.append(enoent_hook)
        def spawn_users():
            for ti, reqs in enumerate(threads):
                s.spawn(None, (lambda ti=ti, reqs=reqs: user(ti, reqs)), name='user%d' % ti)
        if not cfg.get('park_env_first'):
            spawn_users()
        if cfg.get('unsolicited'):
            def unsol():
                s.lazy_point('env.value_updated', timeout=cfg['unsolicited'])
                upi = cfg.get('unsol_param', 1)
                newv = struct.unpack(dev.params[upi].fmt, struct.pack(dev.params[upi].fmt, 99))[0]
                dev.params[upi].value = newv
                ex.log('unsolicited', upi, newv)
                if ex.env.links and not ex.env.links[-1].closed:
                    ex.env.links[-1].inject(*dev.value_updated_packet(upi))
            s.spawn(None, unsol, name='env-unsolicited')
        if cfg.get('park_env_first'):
            s.sleep(1e-6, 'let.env.park')      # the notification can arrive from the first line of the first request on
            spawn_users()
        s.sleep(cfg.get('settle', 2.5), 'settle')
        ex.freeze()
        info['values'] = {g: dict(v) for g, v in cf.param.values.items()}
        info['wait_lock'] = wl.locked() if wl is not None else None
        info['queue_len'] = q.qsize() if q is not None else None
        info['users_done'] = [t.state == vsched.DONE for t in s.threads if t.name.startswith('user')]
        cf.close_link()

    ex.run(main)
    _judge(p, cfg, devs, ex, info, dev, threads)
    return p, ex.ch.ns, ex.ch.labels


def _judge(p, cfg, devs, ex, info, dev, threads):
    s = ex.s
    cname = cfg['name']
    rp = {'cfg': cfg, 'devs': list(devs)}
    kinds = set()
    for (_, a, l) in ex.ch.taken:
        kinds.add('delay' if l.startswith('reply:') else 'unsolicited' if l == 'env.value_updated' else 'sched')
    fclass = '+'.join(sorted(kinds)) or 'none'
    ev = ex.events

    def viol(clause, what):
        p.violation('param:%s|%s' % (clause, cfg['threads']), '%s devs=%r [%s]: %s' % (cname, devs, fclass, what), rp)

    results = info.get('results', {})
    p.case(key=(cname, tuple(devs)), nontrivial=bool(devs),
           outcome=(s.status, tuple(sorted((k, tuple(map(repr, v))) for k, v in results.items())), fclass),
           sample={'threads': threads, 'deviations': [(i, a, l) for (i, a, l) in ex.ch.taken],
                   'results': {str(k): [repr(x) for x in v] for k, v in results.items()}}
           if (not devs or hash((cname, tuple(devs))) % 37 == 0) else None)
    if info.get('noconnect'):
        viol('setup_no_connect', 'could not connect')
        return
    if s.died:
        viol('thread_died:%s:%s' % (s.died[0][0].split(':')[0], s.died[0][1].split('(')[0]), 'thread %s died with %s' % s.died[0][:2])
    if s.status != 'ok':
        viol(s.status, 'execution did not complete: %r' % ([(b['thread'], b['label']) for b in (s.blocked_report or [])],))
        return
    for e in ev:
        if e[1] == 'raise':
            viol('request_raised', 'request %r raised %s' % (e[2], e[3]))
    # ---- wire order = queue order; one at a time -----------------------------------------------------------
    puts = [(e[2], e[3]) for e in ev if e[1] == 'put']
    # A transmission repeats the previous request (retransmission) unless its bytes differ - or the application has
    # queued the same bytes once more and the previous one has been answered (two identical requests in a row).
    new_tx = set()           # positions in ev of the first transmission of each request
    wire = []
    nput, nstarted = {}, {}
    last_k, last_answered = None, False
    for i, e in enumerate(ev):
        if e[1] == 'put':
            kk = (e[2] & 0xf3, e[3])
            nput[kk] = nput.get(kk, 0) + 1
        elif e[1] == 'tx':
            k = (e[2] & 0xf3, e[3])
            again = k == last_k and last_answered and (info.get('no_queue') or nput.get(k, 0) > nstarted.get(k, 0))
            if k != last_k or again:
                new_tx.add(i)
                wire.append((e[2], e[3]))
                nstarted[k] = nstarted.get(k, 0) + 1
                last_k, last_answered = k, False
        elif e[1] == 'processed' and last_k is not None and (e[2] & 0xf3) == last_k[0]:
            n = 3 if (last_k[0] & 3) == 3 else 2
            if bytes(e[3][:n]) == bytes(last_k[1][:n]):
                last_answered = True
    if not info.get('no_queue') and [(h & 0xf3, d) for h, d in wire] != [(h & 0xf3, d) for h, d in puts]:
        viol('wire_order', 'requests were queued in order %r but went on the wire as %r' % (
            [d.hex() for _, d in puts], [d.hex() for _, d in wire]))
    # each request answered (a matching reply processed) before the next new request is first transmitted
    pending = None          # [(header, data) of the request in flight, answered?, a stale duplicate for its pattern exists?]
    retransmitted = []      # release patterns of earlier requests that were transmitted twice (a duplicate answer exists)
    prev_tx = None

    def _pattern(k):
        return bytes(k[1][:3]) if (k[0] & 3) == 3 else bytes(k[1][:2])
    for i_ev, e in enumerate(ev):
        if e[1] == 'tx':
            k = (e[2] & 0xf3, e[3])
            if prev_tx == k and i_ev not in new_tx:
                retransmitted.append(_pattern(k))
            prev_tx = k
            if pending is not None and (k != pending[0] or i_ev in new_tx):
                if not pending[1]:
                    # the duplicate answer to an earlier, retransmitted request about the same parameter is taken for the
                    # answer to this one (known finding: the protocol has no request identity)
                    viol('next_sent_before_answer' + (':after_retransmission_same_parameter' if pending[2] else ''),
                         'request %s transmitted while %s was still unanswered' % (e[3].hex(), pending[0][1].hex()))
                    break
                pending = [k, False, _pattern(k) in retransmitted]
            elif pending is None:
                pending = [k, False, _pattern(k) in retransmitted]
        elif e[1] == 'processed' and pending is not None:
            hdr, data = e[2] & 0xf3, e[3]
            req_h, req_d = pending[0]
            chan = hdr & 3
            if hdr == req_h:
                if chan == 3 and data[:3] == req_d[:3]:
                    pending[1] = True
                elif chan in (1, 2) and data[:2] == req_d[:2]:
                    pending[1] = True
    # ---- every request's callback: exactly once, with the device's answer for that request ----------------
    # device answers in wire order; compute the reference answers by replaying the requests on a fresh model
    ref = _device_b()
    unsol_done = False
    answers = {}
    order = []        # (thread, req index) in queue order, derived from the issue/put log
    cur_issue = None
    for e in ev:
        if e[1] == 'issue':
            cur_issue = e[2]
        # puts happen inside the issuing call, on the issuing thread: match by (kind,param)
    # map puts to issuing requests by content
    remaining = {}
    for ti, reqs in enumerate(threads):
        for ri, req in enumerate(reqs):
            remaining.setdefault(_req_bytes(req), []).append((ti, ri))
    unsol_pos = next((i for i, e in enumerate(ev) if e[1] == 'unsolicited'), None)
    # replay: walk events; at the first transmission of each new request apply it to the reference device
    applied = []
    last = None
    for i, e in enumerate(ev):
        if e[1] == 'unsolicited':
            ref.params[e[2]].value = e[3]
        if e[1] == 'tx':
            k = (e[2] & 3, e[3])
            if i not in new_tx:
                continue
            last = k
            cands = remaining.get(k, [])
            if not cands:
                continue
            if i + 1 < len(ev) and ev[i + 1][1] == 'enoent':
                # the device refused this request (ENOENT): the callback gets None, nothing changes on the device
                cands.sort(key=lambda tr: next((j for j, x in enumerate(ev) if x[1] == 'issue' and x[2] == tr), 1 << 30))
                tr = cands.pop(0)
                answers[tr] = None
                applied.append(tr)
                continue
            # requests with identical bytes from different threads: served in issue order
            cands.sort(key=lambda tr: next((j for j, x in enumerate(ev) if x[1] == 'issue' and x[2] == tr), 1 << 30))
            tr = cands.pop(0)
            req = threads[tr[0]][tr[1]]
            answers[tr] = _apply(ref, req)
            applied.append(tr)
    for ti, reqs in enumerate(threads):
        for ri, req in enumerate(reqs):
            kind = req[0]
            if kind in ('set', 'read'):
                continue
            got = results.get((ti, ri), [])
            exp = answers.get((ti, ri), 'NOT-SENT')
            name = NAMES[req[1]]
            if len(got) != 1:
                viol('callback_count:%s:x%d' % (kind, len(got)), 'request %s(%s) of thread %d: callback invoked %d times: %r' % (
                    kind, name, ti, len(got), got))
            elif got[0][0] != name or not _same_answer(got[0][1], exp):
                viol('cross_attribution:%s' % kind, 'request %s(%s) of thread %d got %r, the device answered that request with %r'
                     % (kind, name, ti, got[0], exp))
    # ---- caches equal the device afterwards -------------------------------------------------------------------
    exp_vals = {}
    for v in dev.params:
        exp_vals.setdefault(v.group, {})[v.name] = str(v.value)
    if info.get('values') != exp_vals:
        txl = [(e[2], e[3]) for e in ev if e[1] == 'tx']
        retrans = any(a == b for a, b in zip(txl, txl[1:]))
        # known finding: after a retransmission the device's last word was *dropped* (a value reply that matches no pending
        # request is not applied) - recognised by the last value reply about the parameter carrying the device's value
        # and no update callback following it.  A stale value applied last is something else.
        dropped = False
        got_vals = info.get('values') or {}
        for pi_, v in enumerate(dev.params):
            if got_vals.get(v.group, {}).get(v.name) == str(v.value):
                continue
            idb = struct.pack('<H', pi_)
            last = None
            for i_, e in enumerate(ev):
                if e[1] == 'processed' and (e[2] & 3) in (1, 2) and bytes(e[3][:2]) == idb:
                    last = i_
            if last is not None:
                body = bytes(ev[last][3][2:])
                if (ev[last][2] & 3) == 1 and len(body) == struct.calcsize(v.fmt) + 1:
                    body = body[1:]                    # read reply: status byte first
                applied = any(e[1] == 'update' and e[2] == '%s.%s' % (v.group, v.name) for e in ev[last + 1:])
                if body == v.pack() and not applied:
                    dropped = True
        viol('cache_differs_from_device:%s%s' % ('after_retransmission' if retrans else 'no_retransmission',
                                                 ':last_answer_dropped' if dropped else ''),
             'Param.values %r, device %r' % (info.get('values'), exp_vals))
    if info.get('wait_lock') or info.get('queue_len') or not all(info.get('users_done', [])):
        viol('not_quiescent', 'wait_lock held=%r, queued requests=%r, user threads done=%r' % (
            info.get('wait_lock'), info.get('queue_len'), info.get('users_done')))


def _req_bytes(req):
    kind, pi = req[0], req[1]
    idb = struct.pack('<H', pi)
    if kind == 'set':
        fmt = {0: '<H', 1: '<h', 2: '<f'}[pi]
        return (2, idb + struct.pack(fmt, req[2]))
    if kind == 'read':
        return (1, idb)
    cmd = {'get_state': 4, 'get_default': 6, 'store': 3, 'clear': 5}[kind]
    return (3, bytes([cmd]) + idb)


def _apply(ref, req):
    """Reference answer of the device model for one request (and its side effect)."""
    kind, pi = req[0], req[1]
    v = ref.params[pi]
    if kind == 'set':
        v.value = struct.unpack(v.fmt, struct.pack(v.fmt, req[2]))[0]
        return v.value
    if kind == 'read':
        return v.value
    if kind == 'store':
        v.stored = v.value
        return True
    if kind == 'clear':
        v.stored = None
        return True
    if kind == 'get_default':
        return v.default
    if kind == 'get_state':
        return (v.stored is not None, v.default, v.stored)
    raise ValueError(kind)


def _same_answer(got, exp):
    if isinstance(exp, tuple):
        return got is not None and tuple(got) == exp
    return got == exp and type(got) is type(exp) or (isinstance(exp, (int, float)) and not isinstance(exp, bool)
                                                     and isinstance(got, (int, float)) and got == exp)


def configs(quick):
    out = []
    for name in THREADSETS:
        out.append({'name': name, 'threads': name, 'sequential': name.endswith('_twice')})
    out.append({'name': 'getstate2+unsolicited', 'threads': 'getstate2', 'unsolicited': 0.05})
    out.append({'name': 'set+read+unsolicited', 'threads': 'set+read', 'unsolicited': 0.05})
    out.append({'name': 'mixed3+unsolicited', 'threads': 'mixed3', 'unsolicited': 0.05})
    # the notification is about another parameter than the ones being requested (ids 0/1 share bytes with the command)
    out.append({'name': 'set+set_diff+unsol0', 'threads': 'set+set_diff', 'unsolicited': 0.05, 'unsol_param': 0})
    out.append({'name': 'set+read+unsol0', 'threads': 'set+read', 'unsolicited': 0.05, 'unsol_param': 0})
    out.append({'name': 'getstate2+unsol2', 'threads': 'getstate2', 'unsolicited': 0.05, 'unsol_param': 2})
    # the notification is in flight while the requests are issued, so it is processed while one is outstanding
    out.append({'name': 'read1+state2+inflight0', 'threads': 'read1+state2', 'unsol_inflight': True, 'unsol_param': 0})
    out.append({'name': 'set1+read2+inflight0', 'threads': 'set1+read2', 'unsol_inflight': True, 'unsol_param': 0})
    out.append({'name': 'getstate2+inflight2', 'threads': 'getstate2', 'unsol_inflight': True, 'unsol_param': 2})
    # the device refuses a state / default query (ENOENT) - and the application asks again
    out.append({'name': 'state_twice+enoent', 'threads': 'state_twice', 'enoent': True, 'sequential': True})
    out.append({'name': 'default_twice+enoent', 'threads': 'default_twice', 'enoent': True, 'sequential': True})
    for pol in ('handoff', 'eager'):
        for th in ('getstate2', 'set+read', 'store+state'):
            out.append({'name': '%s:%s' % (th, pol), 'threads': th, 'policy': pol})
    return out


def _env_filter(devs, i, alt, label):
    return not devs and any(a == alt for a, nm in getattr(label, 'lazy', ()))


def _focus_filter(devs, i, alt, label):
    if not devs:
        return label.startswith('reply:p2') and alt == 1
    return label.startswith('L:run:') or label in ('lock.release', 'link.rx')


def run(ck):
    cfh.setup()
    ck.rule = ('C: set / read of a parameter issued from inside the fully_connected, all_updated and a parameter-update notification (6 cases). A: 10 firmware types x {protocol 10 (V2 ids), 3 (V1 ids)} x value alphabet (type min/max, one beyond, -1, 0, 1, '
               '2, 2^64, decimal strings; floats 0, -0, 0.1, +-float32 max, +-1e39, +-inf, strings) for set, boundary values '
               'for read, plus read-only / unknown refusals. B: 14 thread sets (2-3 user threads x 1-2 requests from set / '
               'read / persistent store / clear / get_state / get_default on 3 parameters) x deviation vectors over reply '
               'delay 0.3 s (past the retry), unsolicited value-changed packet at any point, thread order at every '
               'synchronisation point; non-trivial = at least one deviation')
    ck.assume('SimCF parameter port model (V1/V2 ids, read reply carries a status byte in V2, misc commands 2-6) is the reference')
    ck.assume('not demanded: non-integral values for integer types; default value 2 of a 1-byte parameter (protocol '
              'ambiguity with ENOENT); a duplicate reply answering the next request for the same parameter')
    ck.pmap(part_a, [10, 3])
    ck.pmap(part_cb, [(w, o) for w in ('fully_connected', 'all_updated', 'param_update_cb') for o in ('set', 'read')])
    cs = configs(ck.quick)
    r = explore(ck, exec_c04, cs, 1)
    ck.note('schedule_exploration_one_deviation', r)
    deep = [dict(c, name=c['name'] + ':2dev') for c in cs if (not ck.quick) or c['name'] in ('getstate2', 'set+set_same')]
    if not ck.quick:
        deep.append({'name': 'set+set_same:lines:handoff:2dev', 'threads': 'set+set_same', 'lines': True, 'policy': 'handoff'})
    if not ck.quick:
        deep.append({'name': 'set+read:lines:2dev', 'threads': 'set+read', 'lines': True})
        deep.append({'name': 'getstate2:lines:2dev', 'threads': 'getstate2', 'lines': True})
    r2 = explore(ck, exec_c04, deep, 2, max_execs=2500000)
    ck.note('schedule_exploration_two_deviations', r2)
    ck.note('two_deviation_configurations', [c['name'] for c in deep])
    # focused three-deviation search: one parameter reply delayed past the retry (so that a stale duplicate exists), then
    # two thread switches confined to the hand-over between the reply handler and the updater's send step (the lines that
    # write and re-read the awaited pattern, the lock release, the arrival of a packet)
    focus = [{'name': 'set+set_same:lines:focus3', 'threads': 'set+set_same', 'lines': True},
             {'name': 'set+set_diff:lines:focus3', 'threads': 'set+set_diff', 'lines': True}]
    if not ck.quick:
        focus.append({'name': 'set+read:lines:focus3', 'threads': 'set+read', 'lines': True})
        focus.append({'name': 'getstate2:lines:focus3', 'threads': 'getstate2', 'lines': True})
    r3 = explore(ck, exec_c04, focus, 3, child_filter=_focus_filter, max_execs=2500000)
    ck.note('focused_three_deviations', r3)
    # the unsolicited notification arrives at any line of the user calls / the updater / the reply handlers and is handled
    # completely (by the dispatcher) before the interrupted thread goes on: scheduling policy others_first, one deviation
    of = [{'name': '%s:lines:notified_at_any_line' % th, 'threads': th, 'lines': True, 'unsolicited': 1.0, 'unsol_param': up,
           'policy': 'others_first', 'park_env_first': True}
          for th, up in (('set+read', None), ('set+set_diff', 0), ('getstate2', 2), ('set+set_same', None))]
    for c in of:
        if c['unsol_param'] is None:
            del c['unsol_param']
    r4 = explore(ck, exec_c04, of, 1, child_filter=_env_filter)
    ck.note('notification_handled_completely_at_any_line', r4)
    ck.exhaustive = True


def replay(ck, data):
    cfh.setup()
    if data.get('part') == 'A':
        print('part A case (sequential sweep): re-run the check;', data)
        return
    if data.get('part') == 'C':
        p = part_cb((data['where'], data['op']))
        ck.merge(p)
        for v in p.violations:
            print(' ', v['sig'], '::', v['what'])
        return
    p, ns, labels = exec_c04(data['cfg'], tuple(tuple(d) for d in data['devs']))
    ck.merge(p)
    for v in p.violations:
        print(' ', v['sig'], '::', v['what'])
