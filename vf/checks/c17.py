"""C17 — flight helpers always end on the ground command and track motion faithfully.

Real MotionCommander (+ its _SetPointThread) and PositionHlCommander on a recording Crazyflie stub
under the controlled scheduler with virtual time.  Enumerated: every program of up to 2 (quick) /
3 (thorough) motion primitives from the alphabet, in context-manager and explicit form, with and
without an exception raised at each position of the body, and (for the MotionCommander) every
schedule of setpoint thread vs commanding thread up to a deviation bound.
"""
import itertools
import math

from vf import cfh, vsched
from vf.core import Partial
from vf.explore import explore

ID = 'C17'
LEVEL = 'exploration'
UPDATE_PERIOD = 0.2


class _Boom(Exception):
    pass


class _Rec:
    """Recording stand-in for Crazyflie: commander, high_level_commander, param."""

    def __init__(self, ex):
        self.ex = ex
        rec = self

        class Commander:
            def send_hover_setpoint(self, vx, vy, yawrate, z):
                if rec.slow_link and rec.ex._choose(2, 'link.slow') == 1:
                    # the link is busy: the call returns when the packet has left, 0.5 s later (environment answer)
                    vsched.S.sleep(0.5, 'link.busy')
                rec.log('hover', (vx, vy, yawrate, z))

            def send_stop_setpoint(self):
                rec.log('stop_setpoint', ())

            def send_notify_setpoint_stop(self, remain_valid_milliseconds=0):
                rec.log('notify_stop', ())

            def send_setpoint(self, *a):
                rec.log('setpoint', a)

            def send_velocity_world_setpoint(self, *a):
                rec.log('velocity_world', a)

            def send_zdistance_setpoint(self, *a):
                rec.log('zdistance', a)

            def send_position_setpoint(self, *a):
                rec.log('position', a)

        class Hl:
            def takeoff(self, h, dur, *a, **kw):
                rec.log('hl.takeoff', (h, dur))

            def land(self, h, dur, *a, **kw):
                rec.log('hl.land', (h, dur))

            def go_to(self, x, y, z, yaw, dur, *a, **kw):
                rec.log('hl.go_to', (x, y, z, yaw, dur))

            def stop(self, *a, **kw):
                rec.log('hl.stop', ())

        class Param:
            def set_value(self, name, value):
                rec.log('param', (name, value))

        self.commander = Commander()
        self.high_level_commander = Hl()
        self.param = Param()
        self.cmds = []
        self.slow_link = False

    def log(self, kind, args):
        self.cmds.append((self.ex.s.elapsed(), kind, args, cfh._thread_name()))

    def is_connected(self):
        return True


# ---- MotionCommander primitives: name -> (call, kind, expected) ---------------------------------
# expected for blocking linear moves: displacement (dx, dy, dz) ; turns: yaw degrees ; circles: (arc, yaw degrees)
MC_PRIMS = {
    'forward0.3': (lambda m: m.forward(0.3), 'lin', (0.3, 0, 0)),
    'back0.3': (lambda m: m.back(0.3), 'lin', (-0.3, 0, 0)),
    'left0.3': (lambda m: m.left(0.3), 'lin', (0, 0.3, 0)),
    'right1.0v0.5': (lambda m: m.right(1.0, 0.5), 'lin', (0, -1.0, 0)),
    'up0.3': (lambda m: m.up(0.3), 'lin', (0, 0, 0.3)),
    'down0.3': (lambda m: m.down(0.3), 'lin', (0, 0, -0.3)),
    'down0.1v0.5': (lambda m: m.down(0.1, 0.5), 'lin', (0, 0, -0.1)),
    'move_diag': (lambda m: m.move_distance(0.3, -0.4, 0.0), 'lin', (0.3, -0.4, 0.0)),
    'move_xyz_v0.5': (lambda m: m.move_distance(0.1, 0.2, 0.2, 0.5), 'lin', (0.1, 0.2, 0.2)),
    'turn_left90': (lambda m: m.turn_left(90), 'turn', 90.0),
    'turn_right45r90': (lambda m: m.turn_right(45, 90), 'turn', -45.0),
    'circle_left0.5': (lambda m: m.circle_left(0.5, 0.5, 90.0), 'circle', (2 * 0.5 * math.pi * 90 / 360.0, 90.0)),
    'circle_right0.2': (lambda m: m.circle_right(0.2), 'circle', (2 * 0.2 * math.pi, -360.0)),
    'start_forward': (lambda m: m.start_forward(0.3), 'start', (0.3, 0, 0, 0)),
    'start_left': (lambda m: m.start_left(), 'start', (0, 0.2, 0, 0)),
    'start_right': (lambda m: m.start_right(0.3), 'start', (0, -0.3, 0, 0)),
    'start_back': (lambda m: m.start_back(), 'start', (-0.2, 0, 0, 0)),
    'start_turn_right': (lambda m: m.start_turn_right(), 'start', (0, 0, 0, -72.0)),
    'start_circle_right': (lambda m: m.start_circle_right(0.5, 0.4), 'start', (0.4, 0, 0, -360.0 * 0.4 / (2 * 0.5 * math.pi))),
    'start_up0.1': (lambda m: m.start_up(0.1), 'start', (0, 0, 0.1, 0)),
    'start_down0.1': (lambda m: m.start_down(0.1), 'start', (0, 0, -0.1, 0)),
    'start_turn_left30': (lambda m: m.start_turn_left(30), 'start', (0, 0, 0, 30)),
    'start_circle_left': (lambda m: m.start_circle_left(0.5), 'start', (0.2, 0, 0, 360.0 * 0.2 / (2 * 0.5 * math.pi))),
    'start_linear': (lambda m: m.start_linear_motion(0.1, 0.1, 0.1, 10), 'start', (0.1, 0.1, 0.1, 10)),
    'stop': (lambda m: m.stop(), 'start', (0, 0, 0, 0)),
    'wait0.3': (None, 'wait', 0.3),
    'forward0.02': (lambda m: m.forward(0.02), 'lin', (0.02, 0, 0)),
    'up0.03': (lambda m: m.up(0.03), 'lin', (0, 0, 0.03)),
    'right0.1v1.0': (lambda m: m.right(0.1, 1.0), 'lin', (0, -0.1, 0)),
    # composite: a redundant command part-way into an update period, then waiting (the stream must go on)
    'hover_again': (lambda m: (_vsleep(0.15), m.stop(), _vsleep(0.35)), 'composite', None),
    'start_forward_twice': (lambda m: (m.start_forward(0.3), _vsleep(0.15), m.start_forward(0.3), _vsleep(0.35)), 'composite', None),
    # the same vertical velocity commanded again later (a control loop re-issuing its command while climbing)
    'start_up_twice': (lambda m: (m.start_up(0.1), _vsleep(0.25), m.start_up(0.1), _vsleep(0.35)), 'composite', None),
    'climb_then_linear': (lambda m: (m.start_up(0.1), _vsleep(0.35), m.start_linear_motion(0.1, 0.1, 0.1, 10), _vsleep(0.35)),
                          'composite', None),
}


def _vsleep(secs):
    vsched.S.sleep(secs, 'user.wait')


HL_PRIMS = {
    'forward0.3': (lambda p: p.forward(0.3), (0.3, 0, 0), None),
    'back1.0v1': (lambda p: p.back(1.0, 1.0), (-1.0, 0, 0), 1.0),
    'left0.3': (lambda p: p.left(0.3), (0, 0.3, 0), None),
    'right0.3': (lambda p: p.right(0.3), (0, -0.3, 0), None),
    'up0.3': (lambda p: p.up(0.3), (0, 0, 0.3), None),
    'down0.3': (lambda p: p.down(0.3), (0, 0, -0.3), None),
    'down1.0': (lambda p: p.down(1.0), (0, 0, -1.0), None),
    'down0.5': (lambda p: p.down(0.5), (0, 0, -0.5), None),
    'go_to_z0': (lambda p: p.go_to(0.5, 0.5, 0.0), ('abs', 0.5, 0.5, 0.0), None),
    'set_landing_height0.0': (lambda p: p.set_landing_height(0.0), ('landing', 0.0), None),
    'move_diag': (lambda p: p.move_distance(0.3, -0.4, 0.1), (0.3, -0.4, 0.1), None),
    'go_to': (lambda p: p.go_to(1.0, 2.0, 0.7, 0.25), ('abs', 1.0, 2.0, 0.7), 0.25),
    'go_to_default_z': (lambda p: p.go_to(-1.0, 0.5), ('abs', -1.0, 0.5, 'default_height'), None),
    'go_to_same': (lambda p: p.go_to(*p.get_position()), (0, 0, 0), None),
    'set_default_velocity': (lambda p: p.set_default_velocity(0.8), ('vel', 0.8), None),
    'set_default_height': (lambda p: p.set_default_height(1.1), ('height', 1.1), None),
    'set_landing_height0.2': (lambda p: p.set_landing_height(0.2), ('landing', 0.2), None),
    'set_landing_height0.8': (lambda p: p.set_landing_height(0.8), ('landing', 0.8), None),
}


def exec_c17(cfg, devs):
    from cflib.positioning.motion_commander import MotionCommander
    from cflib.positioning.position_hl_commander import PositionHlCommander
    p = Partial()
    ex = cfh.Exec(devs, None, time_limit=200.0)
    rec = _Rec(ex)
    rec.slow_link = bool(cfg.get('slow_link'))
    info = {'marks': [], 'positions': []}
    prog = cfg['prog']
    exc_at = cfg.get('exc_at')
    if cfg['kind'] == 'mc2':
        return _exec_two_commanders(p, cfg, devs, ex, rec)

    def body(obj, prims):
        for i, name in enumerate(prog):
            if exc_at == i:
                raise _Boom('body')
            info['marks'].append(('begin', i, name, len(rec.cmds), ex.s.elapsed()))
            call = prims[name][0]
            if call is None:
                ex.s.sleep(prims[name][2], 'user.wait')
            else:
                call(obj)
            info['marks'].append(('end', i, name, len(rec.cmds), ex.s.elapsed()))
            if cfg['kind'] == 'hl':
                info['positions'].append(obj.get_position())
        if exc_at == len(prog):
            raise _Boom('body')

    def two_flights(obj, prims):
        """take_off, program, land - twice on the same helper object; the first flight is put aside and judged on its own."""
        obj.take_off()
        info['flying_from'] = len(rec.cmds)
        try:
            body(obj, prims)
        finally:
            obj.land()
        ex.s.sleep(0.5, 'between.flights')
        info['flight1'] = {'cmds': list(rec.cmds), 'marks': list(info['marks']), 'positions': list(info['positions']),
                           'end_index': len(rec.cmds), 'result': 'returned', 'flying_from': info['flying_from']}
        del rec.cmds[:]
        del info['marks'][:]
        del info['positions'][:]
        obj.take_off()
        info['flying_from'] = len(rec.cmds)
        try:
            body(obj, prims)
        finally:
            obj.land()

    def main():
        if cfg['kind'] == 'mc':
            mc = MotionCommander(rec)
            try:
                if cfg['form'] == 'with':
                    with mc:
                        info['flying_from'] = len(rec.cmds)
                        body(mc, MC_PRIMS)
                elif cfg['form'] == 'twice':
                    two_flights(mc, MC_PRIMS)
                else:
                    mc.take_off()
                    info['flying_from'] = len(rec.cmds)
                    try:
                        body(mc, MC_PRIMS)
                    finally:
                        mc.land()
                info['result'] = 'returned'
            except _Boom:
                info['result'] = 'boom'
            except Exception as e:  # noqa
                info['result'] = 'raised %s: %s' % (type(e).__name__, e)
        else:
            pc = PositionHlCommander(rec, x=1.0, y=-2.0, z=0.0, default_velocity=0.5, default_height=0.5)
            try:
                if cfg['form'] == 'with':
                    with pc:
                        info['flying_from'] = len(rec.cmds)
                        body(pc, HL_PRIMS)
                elif cfg['form'] == 'twice':
                    two_flights(pc, HL_PRIMS)
                else:
                    pc.take_off()
                    info['flying_from'] = len(rec.cmds)
                    try:
                        body(pc, HL_PRIMS)
                    finally:
                        pc.land()
                info['result'] = 'returned'
            except _Boom:
                info['result'] = 'boom'
            except Exception as e:  # noqa
                info['result'] = 'raised %s: %s' % (type(e).__name__, e)
        info['end_index'] = len(rec.cmds)
        ex.s.sleep(1.0, 'after')         # anything streamed after the helper has finished?

    from cflib.positioning import motion_commander as mcm
    orig_set = mcm._SetPointThread.set_vel_setpoint

    def logged_set(self, vx, vy, vz, yaw):
        rec.log('setvel', (vx, vy, vz, yaw))
        return orig_set(self, vx, vy, vz, yaw)
    mcm._SetPointThread.set_vel_setpoint = logged_set
    try:
        ex.run(main)
    finally:
        mcm._SetPointThread.set_vel_setpoint = orig_set
    judge = _judge_mc if cfg['kind'] == 'mc' else _judge_hl
    if cfg['form'] == 'twice' and 'flight1' in info:
        # the first flight: what is in the record when the second take-off begins (streaming that leaks into the pause
        # between the flights shows as commands after its stop)
        f1 = info['flight1']
        st = judge(p, cfg, devs, ex, _View(f1['cmds']), f1, tag=':flight1_of_2')
        judge(p, cfg, devs, ex, rec, info, tag=':flight2_of_2', start=st, count_case=False)
    else:
        judge(p, cfg, devs, ex, rec, info)
    return p, ex.ch.ns, ex.ch.labels


class _View:
    def __init__(self, cmds):
        self.cmds = cmds


def _exec_two_commanders(p, cfg, devs, ex, rec_a):
    """Two MotionCommanders on two Crazyflies fly at the same time (a swarm script): commander A runs the program, commander B
    takes off, hovers and lands; each stream is judged on its own."""
    from cflib.positioning.motion_commander import MotionCommander
    from cflib.positioning import motion_commander as mcm
    rec_b = _Rec(ex)
    infos = {'A': {'marks': [], 'positions': []}, 'B': {'marks': [], 'positions': []}}
    recs = {'A': rec_a, 'B': rec_b}

    def fly(who, prog):
        rec, info = recs[who], infos[who]
        mc = MotionCommander(rec)
        try:
            with mc:
                info['flying_from'] = len(rec.cmds)
                for i, name in enumerate(prog):
                    info['marks'].append(('begin', i, name, len(rec.cmds), ex.s.elapsed()))
                    call = MC_PRIMS[name][0]
                    if call is None:
                        ex.s.sleep(MC_PRIMS[name][2], 'user.wait')
                    else:
                        call(mc)
                    info['marks'].append(('end', i, name, len(rec.cmds), ex.s.elapsed()))
            info['result'] = 'returned'
        except Exception as e:  # noqa
            info['result'] = 'raised %s: %s' % (type(e).__name__, e)
        info['end_index'] = len(rec.cmds)

    def main():
        s = ex.s
        s.spawn(None, lambda: fly('B', ('wait0.3', 'wait0.3', 'wait0.3')), name='userB')
        fly('A', cfg['prog'])
        s.sleep(3.0, 'after')

    orig_set = mcm._SetPointThread.set_vel_setpoint

    def logged_set(self, vx, vy, vz, yaw):
        owner = [r for r in (rec_a, rec_b) if any(v is r for v in vars(self).values())]
        (owner[0] if len(owner) == 1 else rec_a).log('setvel', (vx, vy, vz, yaw))
        return orig_set(self, vx, vy, vz, yaw)
    mcm._SetPointThread.set_vel_setpoint = logged_set
    try:
        ex.run(main)
    finally:
        mcm._SetPointThread.set_vel_setpoint = orig_set
    first = True
    for who, prog in (('A', cfg['prog']), ('B', ('wait0.3', 'wait0.3', 'wait0.3'))):
        sub = dict(cfg, prog=prog, exc_at=None, form='with')
        _judge_mc(p, sub, devs, ex, recs[who], infos[who], tag=':commander_%s_of_2' % who, count_case=first)
        first = False
    return p, ex.ch.ns, ex.ch.labels


def _common(p, cfg, devs, ex, rec, info, tag='', count_case=True):
    rp = {'cfg': cfg, 'devs': list(devs)}
    cname = cfg['name']

    def viol(clause, what):
        p.violation('flight:%s:%s%s' % (cfg['kind'], clause, tag), '%s devs=%r%s: %s' % (cname, devs, tag, what), rp)
    kinds = [c[1] for c in rec.cmds]
    if not count_case:
        return viol, ex.s.status == 'ok' and not ex.s.died
    p.case(key=(cname, tuple(devs)), nontrivial=bool(devs) or len(cfg['prog']) > 0,
           outcome=(ex.s.status, info.get('result'), tuple(kinds[-3:]), len(kinds)),
           sample={'program': cfg['prog'], 'form': cfg['form'], 'exception_at': cfg.get('exc_at'), 'result': info.get('result'),
                   'last_commands': [(round(c[0], 3), c[1]) for c in rec.cmds[-4:]]} if hash(cname) % 97 == 0 and not devs else None)
    ok = True
    if ex.s.died:
        viol('thread_died:%s' % ex.s.died[0][1].split('(')[0], 'thread %s died: %s' % ex.s.died[0][:2])
        ok = False
    if ex.s.status != 'ok':
        viol(ex.s.status, 'did not complete: %r' % ([(b['thread'], b['label']) for b in (ex.s.blocked_report or [])],))
        ok = False
    return viol, ok


def _judge_mc(p, cfg, devs, ex, rec, info, tag='', start=None, count_case=True):
    viol, ok = _common(p, cfg, devs, ex, rec, info, tag, count_case)
    if not ok:
        return
    cmds = [c for c in rec.cmds if c[1] != 'setvel']
    exc_at = cfg.get('exc_at')
    res = info.get('result')
    prog_desc = '%s prog=%r exc_at=%r' % (cfg['form'], cfg['prog'], exc_at)
    # (1) ends with stop, then notify, nothing afterwards
    tail = [c[1] for c in cmds if c[1] != 'param']
    if tail[-2:] != ['stop_setpoint', 'notify_stop']:
        after_stop = tail[len(tail) - tail[::-1].index('stop_setpoint'):] if 'stop_setpoint' in tail else None
        what = 'no_stop_sent' if 'stop_setpoint' not in tail else 'commands_after_stop'
        viol('end:%s:%s' % (what, (res or '').split(':')[0].replace('raised ', '')),
             '%s: helper finished with %r; last commands %r (after the stop: %r)' % (prog_desc, res, [(round(c[0], 3), c[1], c[2]) for c in cmds[-4:]], after_stop))
    if len(rec.cmds) > info.get('end_index', len(rec.cmds)):
        viol('end:streamed_after_finish', '%s: %d commands after the helper had finished: %r' % (
            prog_desc, len(rec.cmds) - info['end_index'], [(round(c[0], 3), c[1]) for c in rec.cmds[info['end_index']:][:3]]))
    if exc_at is None and res != 'returned':
        viol('end:raised:%s' % (res or '').split(':')[0].replace('raised ', ''), '%s: %s' % (prog_desc, res))
    elif exc_at is not None and res != 'boom':
        viol('end:exception_replaced:%s' % (res or '').split(':')[0].replace('raised ', ''),
             '%s: the body raised, the context ended with %r' % (prog_desc, res))
    # (2) streaming period and height integration (reference = the velocity commands given to the setpoint thread)
    setv = [c for c in rec.cmds if c[1] == 'setvel']
    hov = [c for c in cmds if c[1] == 'hover']
    if any(l == 'link.slow' for (_, a, l) in ex.ch.taken):
        hov = []            # the environment delayed a setpoint: period and content of the stream are not judged
        setv = []
    if setv and not hov and rec.cmds and rec.cmds[-1][0] - setv[0][0] > UPDATE_PERIOD + 1e-9:
        viol('stream:no_setpoints', '%s: velocity commands from t=%.3f to t=%.3f and not one hover setpoint was streamed' % (
            prog_desc, setv[0][0], rec.cmds[-1][0]))
    if hov:
        gaps = [b[0] - a[0] for a, b in zip(hov, hov[1:])]
        if gaps and max(gaps) > UPDATE_PERIOD + 1e-9:
            i = gaps.index(max(gaps))
            viol('stream:gap', '%s: %.3f s between consecutive hover setpoints at t=%.3f' % (prog_desc, max(gaps), hov[i][0]))
        if setv and hov[0][0] > setv[0][0] + UPDATE_PERIOD + 1e-9:
            viol('stream:late_start', '%s: first hover setpoint %.3f s after the first velocity command' % (
                prog_desc, hov[0][0] - setv[0][0]))

        def zref(t):
            z, tb, vz = 0.0, None, 0.0
            for c in setv:
                if c[0] > t + 1e-12:
                    break
                if tb is not None:
                    z += vz * (c[0] - tb)
                tb, vz = c[0], c[2][2]
            if tb is not None:
                z += vz * (t - tb)
            return z
        for (t, k, a, th) in hov:
            cur = [c for c in setv if c[0] <= t + 1e-12]
            if not cur:
                continue
            allowed = [(cur[-1][2][0], cur[-1][2][1], cur[-1][2][3])]
            # a setpoint sent at the very instant of a command may still carry the previous velocities
            same_t = [c for c in cur if abs(c[0] - t) < 1e-12]
            if same_t:
                before = [c for c in setv if c[0] < t - 1e-12]
                allowed += [(c[2][0], c[2][1], c[2][3]) for c in same_t[:-1]]
                if before:
                    allowed.append((before[-1][2][0], before[-1][2][1], before[-1][2][3]))
                else:
                    allowed.append((0.0, 0.0, 0.0))
            if tuple(a[:3]) not in allowed:
                viol('stream:velocity_not_commanded', '%s: hover setpoint at t=%.3f carries %r, commanded %r' % (
                    prog_desc, t, a[:3], allowed))
                break
            if abs(a[3] - zref(t)) > 1e-6:
                viol('stream:height_not_integrated', '%s: hover setpoint at t=%.3f has z=%.6f, integrating the commanded vertical '
                     'velocities gives %.6f' % (prog_desc, t, a[3], zref(t)))
                break
    # (3) blocking primitives: velocity x duration = displacement in the named direction
    marks = info['marks']
    allc = rec.cmds
    for m in marks:
        if m[0] != 'begin':
            continue
        i, name = m[1], m[2]
        kind, exp = MC_PRIMS[name][1], MC_PRIMS[name][2]
        endm = next((e for e in marks if e[0] == 'end' and e[1] == i), None)
        if endm is None or kind in ('start', 'wait', 'composite'):
            if endm is not None and kind == 'start':
                seg = [c for c in allc[m[3]:endm[3]] if c[1] == 'setvel']
                if len(seg) != 1 or any(abs(g - e) > 1e-9 for g, e in zip(seg[0][2], exp)):
                    viol('primitive:start:%s' % name.rstrip('0123456789.'), '%s: %s commanded %r, expected %r' % (
                        prog_desc, name, [c[2] for c in seg], exp))
            continue
        seg = [c for c in allc[m[3]:endm[3]] if c[1] == 'setvel']
        if len(seg) != 2 or tuple(seg[1][2]) != (0.0, 0.0, 0.0, 0.0):
            viol('primitive:command_shape:%s' % kind, '%s: blocking primitive %s issued velocity commands %r (expected one motion '
                 'command followed by a full stop)' % (prog_desc, name, [(round(c[0], 3), c[2]) for c in seg]))
            continue
        dur = seg[1][0] - seg[0][0]
        vx, vy, vz, yr = seg[0][2]
        tol = 1e-6
        if kind == 'lin':
            got = (vx * dur, vy * dur, vz * dur)
            if any(abs(g - e) > tol for g, e in zip(got, exp)) or yr != 0:
                viol('primitive:displacement:%s' % name.rstrip('0123456789.v'), '%s: primitive %s commanded velocity (%.4f, %.4f, '
                     '%.4f) for %.4f s: displacement %r, requested %r' % (prog_desc, name, vx, vy, vz, dur, got, exp))
        elif kind == 'turn':
            if abs(yr * dur - exp) > 1e-6 or vx or vy or vz:
                viol('primitive:turn:%s' % name.rstrip('0123456789.r'), '%s: %s commanded yaw rate %.3f for %.4f s = %.3f deg, '
                     'requested %.1f' % (prog_desc, name, yr, dur, yr * dur, exp))
        elif kind == 'circle':
            if abs(vx * dur - exp[0]) > 1e-6 or abs(yr * dur - exp[1]) > 1e-6 or vy or vz:
                viol('primitive:circle:%s' % name.rstrip('0123456789.'), '%s: %s commanded vx %.3f, yaw rate %.3f for %.4f s: arc '
                     '%.4f (want %.4f), turned %.2f deg (want %.1f)' % (prog_desc, name, vx, yr, dur, vx * dur, exp[0], yr * dur, exp[1]))


def _judge_hl(p, cfg, devs, ex, rec, info, tag='', start=None, count_case=True):
    viol, ok = _common(p, cfg, devs, ex, rec, info, tag, count_case)
    if not ok:
        return
    cmds = [c for c in rec.cmds if c[1] != 'param']
    exc_at = cfg.get('exc_at')
    res = info.get('result')
    prog_desc = '%s prog=%r exc_at=%r' % (cfg['form'], cfg['prog'], exc_at)
    kinds = [c[1] for c in cmds]
    if not kinds or kinds[-1] != 'hl.stop':
        viol('end:%s:%s' % ('no_stop_sent' if 'hl.stop' not in kinds else 'commands_after_stop',
                            (res or '').split(':')[0].replace('raised ', '')),
             '%s: helper finished with %r; last commands %r' % (prog_desc, res, [(round(c[0], 3), c[1], c[2]) for c in cmds[-3:]]))
    if len(rec.cmds) > info.get('end_index', len(rec.cmds)):
        viol('end:streamed_after_finish', '%s: commands after the helper had finished' % prog_desc)
    if exc_at is None and res != 'returned':
        viol('end:raised:%s' % (res or '').split(':')[0].replace('raised ', ''), '%s: %s' % (prog_desc, res))
    elif exc_at is not None and res != 'boom':
        viol('end:exception_replaced:%s' % (res or '').split(':')[0].replace('raised ', ''),
             '%s: the body raised, the context ended with %r' % (prog_desc, res))
    # (4) position bookkeeping and go-to commands
    x, y, z = 1.0, -2.0, 0.5          # after take-off to the default height
    vel, height = 0.5, 0.5
    if start is not None:             # a later flight of the same object: where the previous one ended, defaults as left
        x, y, vel, height = start
        z = height
    gotos = [c for c in cmds if c[1] == 'hl.go_to']
    gi = 0
    pi = 0
    for m in info['marks']:
        if m[0] != 'end':
            continue
        name = m[2]
        exp, v = HL_PRIMS[name][1], HL_PRIMS[name][2]
        tgt = None
        if exp[0] == 'abs':
            tgt = (exp[1], exp[2], height if exp[3] == 'default_height' else exp[3])
        elif exp[0] == 'vel':
            vel = exp[1]
        elif exp[0] == 'height':
            height = exp[1]
        elif exp[0] == 'landing':
            pass
        else:
            tgt = (x + exp[0], y + exp[1], z + exp[2])
        if tgt is not None:
            dist = math.sqrt((tgt[0] - x) ** 2 + (tgt[1] - y) ** 2 + (tgt[2] - z) ** 2)
            if dist > 1e-12:
                usev = v if v is not None else vel
                if gi >= len(gotos):
                    viol('goto:missing', '%s: primitive %s sent no go-to' % (prog_desc, name))
                else:
                    g = gotos[gi][2]
                    gi += 1
                    if any(abs(a - b) > 1e-9 for a, b in zip(g[:3], tgt)) or abs(g[4] - dist / usev) > 1e-9:
                        viol('goto:target_or_duration', '%s: primitive %s sent go_to%r, expected target %r with duration %.4f' % (
                            prog_desc, name, g, tgt, dist / usev))
            x, y, z = tgt
        got = info['positions'][pi] if pi < len(info['positions']) else None
        pi += 1
        if got is None or any(abs(a - b) > 1e-9 for a, b in zip(got, (x, y, z))):
            viol('position:bookkeeping', '%s: after %s get_position() = %r, start plus commanded displacements = %r' % (
                prog_desc, name, got, (x, y, z)))
            break
    if gi != len(gotos):
        viol('goto:extra', '%s: %d go-to commands, %d expected' % (prog_desc, len(gotos), gi))
    return (x, y, vel, height)


def _programs(prims, maxlen, singles_only_exc=True):
    out = []
    names = list(prims)
    for L in range(0, maxlen + 1):
        for prog in itertools.product(names, repeat=L):
            out.append(prog)
    return out


def configs(quick):
    out = []
    maxlen = 2 if quick else 3
    for kind, prims in (('mc', MC_PRIMS), ('hl', HL_PRIMS)):
        for prog in _programs(prims, maxlen):
            for form in ('with', 'explicit', 'twice'):
                if form == 'explicit' and len(prog) > 1:
                    continue
                if form == 'twice' and len(prog) > (1 if quick else 2):
                    continue
                excs = [None] + (list(range(len(prog) + 1)) if len(prog) <= 2 else [len(prog)])
                if form == 'twice':
                    excs = [None]
                for exc_at in excs:
                    out.append({'name': '%s:%s:%s:exc%s' % (kind, form, '+'.join(prog) or '-', exc_at), 'kind': kind, 'form': form,
                                'prog': prog, 'exc_at': exc_at})
    # a link that is busy for 0.5 s inside one setpoint transmission (environment answer at every hover setpoint)
    for prog in _programs(MC_PRIMS, 1):
        out.append({'name': 'mc:with:%s:slow_link' % ('+'.join(prog) or '-'), 'kind': 'mc', 'form': 'with', 'prog': prog,
                    'exc_at': None, 'slow_link': True})
    # two commanders in the air at the same time
    for prog in _programs(MC_PRIMS, 1):
        out.append({'name': 'mc2:%s' % ('+'.join(prog) or '-'), 'kind': 'mc2', 'form': 'with', 'prog': prog, 'exc_at': None})
    return out


def run(ck):
    cfh.setup()
    cs = configs(ck.quick)
    ck.rule = ('%d programs: every sequence of up to %d MotionCommander primitives (alphabet of %d) and up to %d '
               'PositionHlCommander primitives (alphabet of %d), context-manager form (explicit take_off/land form for length '
               '<= 1; two complete flights with the same program on one helper object for length <= 1, thorough <= 2), with an '
               'exception raised at every position of the body (length 3: after the last primitive); programs of '
               'length <= 1 explored with every schedule of at most %d deviations, length 2 with %d, length 3 with 1 (setpoint '
               'thread vs commanding thread, ties in virtual time)' % (len(cs), 2 if ck.quick else 3, len(MC_PRIMS),
                                                                       2 if ck.quick else 3, len(HL_PRIMS), 2 if ck.quick else 3,
                                                                       1 if ck.quick else 2))
    ck.assume('recording stub in place of Crazyflie (is_connected, param.set_value, commander, high_level_commander); '
              'directions as documented: +x forward, +y left, +z up, positive yaw rate = left')
    ck.assume('the height used for landing (last streamed setpoint, up to one period stale) is not judged')
    special = [c for c in cs if c['kind'] == 'mc2' or c.get('slow_link')]
    one = [c for c in cs if len(c['prog']) <= 1 and c not in special]
    two = [c for c in cs if len(c['prog']) == 2]
    r = explore(ck, exec_c17, one, 2 if ck.quick else 3, max_execs=3000000, chunksize=16)
    ck.note('exploration_len_le_1', r)
    # two commanders at once / a busy link: two deviations in both tiers (three would take hours for the two-commander runs)
    rs = explore(ck, exec_c17, special, 2, max_execs=3000000, chunksize=16)
    ck.note('exploration_two_commanders_and_busy_link', rs)
    r2 = explore(ck, exec_c17, two, 1 if ck.quick else 2, max_execs=3000000, chunksize=16)
    ck.note('exploration_len_2', r2)
    if not ck.quick:
        r3 = explore(ck, exec_c17, [c for c in cs if len(c['prog']) == 3], 1, max_execs=3000000, chunksize=16)
        ck.note('exploration_len_3', r3)
    ck.exhaustive = True


def replay(ck, data):
    cfh.setup()
    cfg = data['cfg']
    cfg['prog'] = tuple(cfg['prog'])
    p, ns, labels = exec_c17(cfg, tuple(tuple(d) for d in data['devs']))
    ck.merge(p)
    for v in p.violations:
        print(' ', v['sig'], '::', v['what'])
