"""C07 — dispatcher: exactly the matching callbacks, once, in order; robust to table mutation.

The real `_IncomingPacketHandler.run()` is called synchronously on a fake `cf` (scripted link, real
Caller).  Part A enumerates all 256 header bytes against all registrations of the pattern
alphabet; part B enumerates every registration list up to a length bound where each callback
carries one scripted action (nop / raise / remove self / remove another / add new / add itself
under another pattern) against every packet sequence of the alphabet, comparing the invocation log
with an independent reference model of the table.  Part C lets the environment clear `cf.link`
at every read (the dispatcher must survive).
"""
import itertools

from vf.core import HarnessError, Partial

ID = 'C07'
LEVEL = 'model_checking'


class _Stop(BaseException):
    pass


class _Link:
    def __init__(self, packets):
        self.packets = list(packets)
        self.i = 0

    def receive_packet(self, wait=0):
        if self.i >= len(self.packets):
            raise _Stop()
        pk = self.packets[self.i]
        self.i += 1
        return pk


class _Cf:
    def __init__(self, link):
        from cflib.utils.callbacks import Caller
        self.link = link
        self.packet_received = Caller()


def _mk_packet(header, data=b''):
    from cflib.crtp.crtpstack import CRTPPacket
    return CRTPPacket(header, bytearray(data))


def _ref_match(reg, header):
    """Independent matcher. reg = (port, port_mask, channel, channel_mask)."""
    port = (header >> 4) & 0x0f
    chan = header & 0x03
    return reg[0] == (port & reg[1]) and reg[2] == (chan & reg[3])


def _run_dispatcher(handler):
    try:
        handler.run()
    except _Stop:
        return None
    except BaseException as e:  # the dispatcher died
        return e
    return HarnessError('run() returned')


# ---------------------------------------------------------------------------------------------
# Part A: matching
# ---------------------------------------------------------------------------------------------
PORTS = list(range(16)) + [0xFF]
PMASKS = (0xFF, 0x0F, 0xF0, 0x00)
CHANS = (0, 1, 2, 3)
CMASKS = (0xFF, 3, 1, 0)


def part_facade(_):
    """The same registrations through the public entry points of Crazyflie (add/remove_header_callback with explicit,
    partly zero, and defaulted masks; add/remove_port_callback): what is registered is what the handler is given, and
    removing with the same arguments removes it."""
    from cflib.crazyflie import Crazyflie
    p = Partial()
    regs = [(po, pm, ch, cm) for po in PORTS for pm in PMASKS for ch in CHANS for cm in CMASKS]
    cf = Crazyflie()
    hd = cf.incoming
    packets = [_mk_packet(h, bytes([h])) for h in range(256)]
    forms = [('explicit', r) for r in regs]
    forms += [('default_masks', (po, 0xFF, ch, 0xFF)) for po in range(16) for ch in CHANS]
    forms += [('keywords', r) for r in regs[::7]]
    forms += [('port_callback', (po, 0xFF, 0, 0)) for po in range(16)]
    for form, r in forms:
        log = []
        cb = (lambda pk, log=log: log.append(pk.data[0]))
        if form == 'explicit':
            cf.add_header_callback(cb, r[0], r[2], r[1], r[3])
        elif form == 'keywords':
            cf.add_header_callback(cb, r[0], r[2], channel_mask=r[3], port_mask=r[1])
        elif form == 'default_masks':
            cf.add_header_callback(cb, r[0], r[2])
        else:
            cf.add_port_callback(r[0], cb)
        cf.link = _Link(packets)
        err = _run_dispatcher(hd)
        exp = [h for h in range(256) if _ref_match(r, h)]
        p.case(key=('facade', form, r), outcome=(form, len(exp)))
        p.states += 1
        p.transitions += 256
        rp = {'part': 'facade', 'form': form, 'reg': list(r)}
        if err is not None or log != exp:
            p.violation('facade:%s:delivery' % form, 'registered through Crazyflie (%s) port=%#x mask=%#x chan=%d cmask=%#x: %d '
                        'deliveries %r.., expected %d %r.. (err=%r)' % (form, r[0], r[1], r[2], r[3], len(log), log[:4], len(exp),
                                                                       exp[:4], err), rp)
        # removal with the same arguments
        if form == 'explicit':
            cf.remove_header_callback(cb, r[0], r[2], r[1], r[3])
        elif form == 'keywords':
            cf.remove_header_callback(cb, r[0], r[2], channel_mask=r[3], port_mask=r[1])
        elif form == 'default_masks':
            cf.remove_header_callback(cb, r[0], r[2])
        else:
            cf.remove_port_callback(r[0], cb)
        del log[:]
        cf.link = _Link(packets)
        err = _run_dispatcher(hd)
        if err is not None or log:
            p.violation('facade:%s:removal' % form, 'after removing it through Crazyflie (%s) with the same arguments the '
                        'registration port=%#x mask=%#x chan=%d cmask=%#x still got %d packets (err=%r)' % (
                            form, r[0], r[1], r[2], r[3], len(log), err), rp)
            break
    cf.link = None
    return p


def part_match(job):
    from cflib.crazyflie import _IncomingPacketHandler
    kind, headers = job
    p = Partial()
    regs = [(po, pm, ch, cm) for po in PORTS for pm in PMASKS for ch in CHANS for cm in CMASKS]
    if kind == 'all':
        # all registrations in one table; order of invocation must be table order
        log = []
        packets = [_mk_packet(h, bytes([h])) for h in headers]
        cf = _Cf(_Link(packets))
        allseen = []
        cf.packet_received.add_callback(lambda pk: allseen.append(pk.data[0]))
        hd = _IncomingPacketHandler(cf)
        for idx, r in enumerate(regs):
            hd.add_header_callback((lambda pk, idx=idx: log.append((pk.data[0], idx))), r[0], r[2], r[1], r[3])
        err = _run_dispatcher(hd)
        if err is not None:
            p.violation('match:dispatcher_died', 'dispatcher died with %r' % (err,), {'part': 'match', 'kind': kind})
            return p
        exp = [(h, idx) for h in headers for idx, r in enumerate(regs) if _ref_match(r, h)]
        p.states += len(headers)
        p.transitions += len(log)
        for h in headers:
            p.case(key=('hdr-all', h), outcome=sum(1 for r in regs if _ref_match(r, h)))
        if allseen != list(headers):
            p.violation('match:packet_received_all', 'packet_received saw %r for %r' % (allseen[:8], headers[:8]),
                        {'part': 'match', 'kind': kind})
        if log != exp:
            # find first difference
            for i, (a, b) in enumerate(itertools.zip_longest(log, exp)):
                if a != b:
                    what = 'invocation %d is %r, expected %r' % (i, a and (hex(a[0]), regs[a[1]]), b and (hex(b[0]), regs[b[1]]))
                    break
            extra = set(log) - set(exp)
            missing = set(exp) - set(log)
            sig = 'match:' + ('nonmatching_invoked' if extra else 'matching_not_invoked' if missing else 'order_or_multiplicity')
            p.violation(sig, 'full table, headers %r..: %s' % (headers[:2], what), {'part': 'match', 'kind': kind,
                                                                                   'headers': list(headers)})
        p.sample({'part': 'matching', 'registrations': len(regs), 'headers': len(headers), 'invocations': len(log)})
    else:
        # one registration at a time (port-callback API included), all 256 headers
        for r in regs:
            log = []
            cf = _Cf(_Link([_mk_packet(h, bytes([h])) for h in range(256)]))
            hd = _IncomingPacketHandler(cf)
            hd.add_header_callback(lambda pk: log.append(pk.data[0]), r[0], r[2], r[1], r[3])
            err = _run_dispatcher(hd)
            exp = [h for h in range(256) if _ref_match(r, h)]
            p.case(key=('reg', r), outcome=len(exp))
            p.states += 1
            p.transitions += 256
            if err is not None or log != exp:
                p.violation('match:single_registration', 'registration port=%#x mask=%#x chan=%d cmask=%#x got %d '
                            'deliveries %r.., expected %d %r.. (err=%r)' % (r[0], r[1], r[2], r[3], len(log), log[:4],
                                                                           len(exp), exp[:4], err),
                            {'part': 'match', 'kind': 'single', 'reg': list(r)})
        for port in range(16):
            log = []
            cf = _Cf(_Link([_mk_packet(h, bytes([h])) for h in range(256)]))
            hd = _IncomingPacketHandler(cf)
            cb = lambda pk: log.append(pk.data[0])  # noqa
            hd.add_port_callback(port, cb)
            err = _run_dispatcher(hd)
            exp = [h for h in range(256) if (h >> 4) == port]
            p.case(key=('port', port), outcome=len(exp))
            if err is not None or log != exp:
                p.violation('match:port_callback', 'add_port_callback(%d) got %r.., expected %r..' % (port, log[:4], exp[:4]),
                            {'part': 'match', 'kind': 'port', 'port': port})
            # remove and make sure nothing arrives any more
            log2 = []
            cf = _Cf(_Link([_mk_packet(h, bytes([h])) for h in range(256)]))
            hd = _IncomingPacketHandler(cf)
            cb2 = lambda pk: log2.append(pk.data[0])  # noqa
            other = []
            hd.add_port_callback(port, cb2)
            hd.add_port_callback(port, other.append)
            hd.remove_port_callback(port, cb2)
            _run_dispatcher(hd)
            if log2 or len(other) != 16:
                p.violation('match:remove_port_callback', 'after remove_port_callback(%d): removed got %d, other got %d/16'
                            % (port, len(log2), len(other)), {'part': 'match', 'kind': 'port-remove', 'port': port})
    return p


def part_samecb(job):
    """Two distinct registrations of the SAME callable; one is removed: deliveries must follow the other only."""
    from cflib.crazyflie import _IncomingPacketHandler
    lo, hi = job
    p = Partial()
    alphabet = [(po, pm, ch, cm) for po in (5, 0x0F, 0xFF) for pm in (0xFF, 0x0F, 0x00) for ch in (0, 1)
                for cm in (0xFF, 0x01, 0x00)]
    pairs = [(a, b) for a in alphabet for b in alphabet if a != b]
    headers = [(po << 4) | ch for po in (0, 5, 15) for ch in range(4)]
    for (r1, r2) in pairs[lo:hi]:
        for which in ('remove_first', 'remove_second', 'remove_none'):
            log = []
            cf = _Cf(_Link([_mk_packet(h, bytes([i])) for i, h in enumerate(headers)]))
            hd = _IncomingPacketHandler(cf)
            cb = lambda pk: log.append(pk.data[0])  # noqa
            hd.add_header_callback(cb, r1[0], r1[2], r1[1], r1[3])
            hd.add_header_callback(cb, r2[0], r2[2], r2[1], r2[3])
            gone = r1 if which == 'remove_first' else r2 if which == 'remove_second' else None
            if gone is not None:
                hd.remove_header_callback(cb, gone[0], gone[2], gone[1], gone[3])
            err = _run_dispatcher(hd)
            left = [r for r in (r1, r2) if r is not gone]
            exp = [i for i, h in enumerate(headers) for r in left if _ref_match(r, h)]
            p.case(key=('samecb', r1, r2, which), outcome=(which, len(exp)),
                   sample={'part': 'same callable twice', 'registrations': [r1, r2], 'op': which, 'deliveries': len(log)}
                   if (r1, r2) == (alphabet[0], alphabet[2]) else None)
            p.states += 1
            p.transitions += len(log)
            if err is not None or log != exp:
                diff = [f for f, a, b in zip(('port', 'port_mask', 'channel', 'channel_mask'), r1, r2) if a != b]
                p.violation('samecb:%s:differ_in_%s' % (which, '+'.join(diff)),
                            'one callable registered as %r and %r, %s: delivered packets %r, expected %r (err=%r)' % (
                                r1, r2, which, log, exp, err), {'part': 'samecb', 'r1': list(r1), 'r2': list(r2), 'which': which})
    # the two public forms of the same thing
    for port in (0, 5, 15):
        for which in ('remove_port_form', 'remove_header_form'):
            log = []
            cf = _Cf(_Link([_mk_packet(h, bytes([i])) for i, h in enumerate(headers)]))
            hd = _IncomingPacketHandler(cf)
            cb = lambda pk: log.append(pk.data[0])  # noqa
            hd.add_port_callback(port, cb)
            hd.add_header_callback(cb, port, 0)
            if which == 'remove_port_form':
                hd.remove_port_callback(port, cb)
                exp = [i for i, h in enumerate(headers) if _ref_match((port, 0xFF, 0, 0xFF), h)]
            else:
                hd.remove_header_callback(cb, port, 0)
                exp = [i for i, h in enumerate(headers) if _ref_match((port, 0xFF, 0, 0x00), h)]
            err = _run_dispatcher(hd)
            p.case(key=('samecb-forms', port, which), outcome=(which, len(exp)))
            if err is not None or log != exp:
                p.violation('samecb:%s' % which, 'add_port_callback(%d, f) + add_header_callback(f, %d, 0), %s: delivered %r, '
                            'expected %r' % (port, port, which, log, exp), {'part': 'samecb-forms', 'port': port, 'which': which})
    return p


# ---------------------------------------------------------------------------------------------
# Part B: table mutation during dispatch
# ---------------------------------------------------------------------------------------------
# two packet kinds; three pattern kinds
HDR = {'a': 0x50, 'b': 0x21}     # port 5 chan 0 ; port 2 chan 1
PATS = {
    'A': (5, 0xFF, 0, 0xFF),      # matches a only
    'B': (2, 0xFF, 1, 0xFF),      # matches b only
    'X': (0, 0x00, 0, 0x00),      # matches everything
}
ALT = {'A': 'X', 'B': 'X', 'X': 'A'}   # "another pattern" for add-self
ACTIONS_BASE = ('nop', 'raise', 'rm_self', 'add_new', 'add_self_alt')
SEQS = (('a',), ('a', 'a'), ('a', 'b'), ('b', 'a'))


class _Reg:
    __slots__ = ('name', 'pat', 'action', 'cb')


def _exec_script(pats, actions, seq):
    """Run the real dispatcher; returns (log, err, final_table) ;
    log entries: (packet_index, reg_name)."""
    from cflib.crazyflie import _IncomingPacketHandler
    packets = [_mk_packet(HDR[k], bytes([i])) for i, k in enumerate(seq)]
    cf = _Cf(_Link(packets))
    hd = _IncomingPacketHandler(cf)
    log = []
    regs = {}
    counter = [0]

    def register(name, pat, cb):
        hd.add_header_callback(cb, pat[0], pat[2], pat[1], pat[3])

    def make_cb(name, action):
        me = {}

        def body(pk):
            cb = me['cb']
            log.append((pk.data[0], name))
            if action == 'nop':
                return
            if action == 'raise':
                raise ValueError('scripted')
            if action == 'rm_self':
                for (n, patk) in list(regs[name]):
                    pat = PATS[patk]
                    hd.remove_header_callback(cb, pat[0], pat[2], pat[1], pat[3])
                regs[name] = []
                return
            if action.startswith('rm_'):
                tgt = action[3:]
                if tgt in cbs:
                    for (n, patk) in list(regs[tgt]):
                        pat = PATS[patk]
                        hd.remove_header_callback(cbs[tgt], pat[0], pat[2], pat[1], pat[3])
                    regs[tgt] = []
                return
            if action == 'add_new':
                counter[0] += 1
                nn = '%s+%d' % (name, counter[0])
                cbs[nn] = make_cb(nn, 'nop')
                regs[nn] = [(nn, 'X')]
                register(nn, PATS['X'], cbs[nn])
                return
            if action == 'add_self_alt':
                alt = ALT[regs_first_pat[name]]
                if (name, alt) not in regs[name]:
                    regs[name].append((name, alt))
                    register(name, PATS[alt], cb)
                return
            raise HarnessError(action)
        # the library must not care what kind of callable was registered: plain function, functools.partial (no
        # __name__), callable instance, bound method - one kind per registration slot
        kind = (int(name[1:]) % 4) if name[1:].isdigit() else 0
        if kind == 0:
            me['cb'] = body
        elif kind == 1:
            import functools
            me['cb'] = functools.partial(body)
        elif kind == 2:
            class _Callable:
                __slots__ = ()

                def __call__(self, pk):
                    return body(pk)
            me['cb'] = _Callable()
        else:
            class _Holder:
                def handle(self, pk):
                    return body(pk)
            me['holder'] = _Holder()
            me['cb'] = me['holder'].handle
        return me['cb']

    cbs = {}
    regs_first_pat = {}
    for i, (pk_, ac) in enumerate(zip(pats, actions)):
        name = 'r%d' % i
        cbs[name] = make_cb(name, ac)
        regs[name] = [(name, pk_)]
        regs_first_pat[name] = pk_
        register(name, PATS[pk_], cbs[name])
    err = _run_dispatcher(hd)
    # the registration table itself is private state: looked at when it can be identified (a list of records with the
    # four match fields), otherwise the final-table clause is not judged (deliveries are, always)
    from vf import cfh
    tn = cfh.find_attr(hd, ('cb',), lambda v: isinstance(v, list) and all(
        hasattr(c, 'port_mask') and hasattr(c, 'channel_mask') for c in v))
    final = [(c.port, c.port_mask, c.channel, c.channel_mask) for c in getattr(hd, tn)] if tn else None
    return log, err, final


def _model(pats, actions, seq):
    """Reference model.  Table = ordered list of entries [name, patkey, alive].  Returns the list of
    per-packet requirements: (must_in_order, may_set)."""
    table = []          # entries: dict(name, pat)
    for i, pk_ in enumerate(pats):
        table.append({'name': 'r%d' % i, 'pat': pk_})
    act = {'r%d' % i: a for i, a in enumerate(actions)}
    first_pat = {'r%d' % i: pk_ for i, pk_ in enumerate(pats)}
    return table, act, first_pat


def _check_script(p, pats, actions, seq):
    log, err, final = _exec_script(pats, actions, seq)
    rp = {'part': 'mutate', 'pats': list(pats), 'actions': list(actions), 'seq': list(seq)}
    cls = '%s' % ('+'.join(sorted(set(actions))),)
    if err is not None:
        p.violation('mutate:dispatcher_died:' + type(err).__name__, 'pats=%r actions=%r seq=%r: dispatcher died with %r'
                    % (pats, actions, seq, err), rp)
        return log
    table, act, first_pat = _model(pats, actions, seq)
    counter = 0
    pos = 0
    for pi, kind in enumerate(seq):
        h = HDR[kind]
        start = [dict(e) for e in table]          # S: snapshot when dispatch of p starts
        start_ids = [(e['name'], e['pat']) for e in start]
        invoked = []
        while pos < len(log) and log[pos][0] == pi:
            invoked.append(log[pos][1])
            pos += 1
        # replay the invocations on the model table, checking each one
        removed_now = set()      # registrations (name, pat) removed during this dispatch
        added_now = []           # registrations added during this dispatch (appended to the table)
        seen_count = {}
        used_s, used_a = set(), set()
        order_idx = -1
        for name in invoked:
            all_s = [i for i, (n, pt) in enumerate(start_ids) if n == name and _ref_match(PATS[pt], h)]
            all_a = [c for c in added_now if c[0] == name and _ref_match(PATS[c[1]], h)]
            if not all_s and not all_a:
                p.violation('mutate:nonmatching_or_unknown_invoked:' + cls,
                            'pats=%r actions=%r seq=%r: packet %d (%s) delivered to %s which has no matching registration'
                            % (pats, actions, seq, pi, kind, name), rp)
                return log
            seen_count[name] = seen_count.get(name, 0) + 1
            free_s = [i for i in all_s if i not in used_s]
            free_a = [c for c in all_a if c not in used_a]
            nxt = [i for i in free_s if i > order_idx]
            if nxt:
                order_idx = min(nxt)
                used_s.add(order_idx)
            elif free_a:
                used_a.add(free_a[0])
                order_idx = max(order_idx, len(start_ids))
            elif free_s:
                p.violation('mutate:out_of_order:' + cls,
                            'pats=%r actions=%r seq=%r: packet %d delivered to %s out of table order (deliveries %r)'
                            % (pats, actions, seq, pi, name, invoked), rp)
                return log
            else:
                p.violation('mutate:delivered_twice:' + cls,
                            'pats=%r actions=%r seq=%r: packet %d delivered %d times to %s (matching registrations: %d '
                            'at start, %d added)' % (pats, actions, seq, pi, seen_count[name], name, len(all_s), len(all_a)), rp)
                return log
            # apply the action to the model table
            a = act.get(name, 'nop')
            if a == 'rm_self':
                for e in list(table):
                    if e['name'] == name:
                        table.remove(e)
                        removed_now.add((e['name'], e['pat']))
            elif a.startswith('rm_'):
                tgt = a[3:]
                for e in list(table):
                    if e['name'] == tgt:
                        table.remove(e)
                        removed_now.add((e['name'], e['pat']))
            elif a == 'add_new':
                counter += 1
                nn = '%s+%d' % (name, counter)
                table.append({'name': nn, 'pat': 'X'})
                added_now.append((nn, 'X'))
                act[nn] = 'nop'
            elif a == 'add_self_alt':
                alt = ALT[first_pat[name]]
                if not any(e['name'] == name and e['pat'] == alt for e in table):
                    table.append({'name': name, 'pat': alt})
                    added_now.append((name, alt))
        # completeness: every registration in S that matches and was not removed during this
        # dispatch must have been invoked
        need = {}
        for (n, pt) in start_ids:
            if _ref_match(PATS[pt], h) and (n, pt) not in removed_now:
                need[n] = need.get(n, 0) + 1
        for n, k in need.items():
            if seen_count.get(n, 0) < k:
                why = 'raise' if 'raise' in actions else 'mutation' if (removed_now or added_now) else 'plain'
                p.violation('mutate:matching_not_invoked:%s' % why,
                            'pats=%r actions=%r seq=%r: packet %d (%s) was not delivered to %s (registered before the '
                            'packet, matching, not removed); deliveries for this packet: %r'
                            % (pats, actions, seq, pi, kind, n, invoked), rp)
                return log
    if pos != len(log):
        p.violation('mutate:extra_deliveries:' + cls, 'pats=%r actions=%r seq=%r: log has extra entries %r' % (
            pats, actions, seq, log[pos:]), rp)
        return log
    exp_final = sorted(PATS[e['pat']] for e in table)
    if final is not None and sorted(final) != exp_final:
        p.violation('mutate:final_table:' + cls, 'pats=%r actions=%r seq=%r: final table %r, model %r' % (
            pats, actions, seq, sorted(final), exp_final), rp)
    return log


def part_mutate(job):
    L, first_pat, first_action = job
    p = Partial()
    names = ['r%d' % i for i in range(L)]
    for pats in itertools.product(sorted(PATS), repeat=L):
        if pats[0] != first_pat:
            continue
        per_pos = []
        for i in range(L):
            acts = list(ACTIONS_BASE) + ['rm_' + n for j, n in enumerate(names) if j != i]
            per_pos.append(acts)
        for actions in itertools.product(*per_pos):
            if actions[0] != first_action:
                continue
            for seq in SEQS:
                log = _check_script(p, pats, actions, seq)
                p.states += len(seq) + 1
                p.transitions += len(log)
                nontriv = any(a != 'nop' for a in actions)
                p.case(key=(pats, actions, seq), nontrivial=nontriv, outcome=tuple(log),
                       sample={'part': 'mutation', 'patterns': pats, 'actions': actions, 'packets': seq,
                               'invocation_log': log} if (actions.count('nop') == 0 and len(seq) == 2 and L >= 2) else None)
    return p


# ---------------------------------------------------------------------------------------------
# Part C: cf.link cleared by another thread at any read
# ---------------------------------------------------------------------------------------------
class _RacyCf:
    """cf whose `link` attribute is cleared by 'another thread' at the k-th read (and restored
    n reads later, modelling a reconnect)."""

    def __init__(self, link, clear_at, restore_after):
        from cflib.utils.callbacks import Caller
        self._link = link
        self.reads = 0
        self.clear_at = clear_at
        self.restore_after = restore_after
        self.packet_received = Caller()

    @property
    def link(self):
        self.reads += 1
        if self.clear_at is not None and self.clear_at <= self.reads < self.clear_at + self.restore_after:
            return None
        return self._link


class _FakeTime:
    def __init__(self):
        self.slept = 0

    def sleep(self, s):
        self.slept += 1
        if self.slept > 50:
            raise HarnessError('dispatcher sleeps forever')

    def time(self):
        return 0.0


def part_race(_):
    import cflib.crazyflie as cfmod
    from cflib.crazyflie import _IncomingPacketHandler
    p = Partial()
    cfmod.time = _FakeTime()
    npk = 3
    for clear_at in [None] + list(range(1, 10)):
        for restore_after in (1, 2, 3):
            log = []
            link = _Link([_mk_packet(0x50, bytes([i])) for i in range(npk)])
            cf = _RacyCf(link, clear_at, restore_after)
            hd = _IncomingPacketHandler(cf)
            hd.add_port_callback(5, lambda pk: log.append(pk.data[0]))
            err = _run_dispatcher(hd)
            p.case(key=('race', clear_at, restore_after), outcome=(err is None, tuple(log)),
                   sample={'part': 'link cleared at read', 'read': clear_at, 'for_reads': restore_after,
                           'delivered': list(log)} if clear_at in (None, 2) and restore_after == 1 else None)
            p.states += cf.reads
            p.transitions += len(log)
            if err is not None:
                p.violation('race:dispatcher_died:' + type(err).__name__,
                            'cf.link cleared by another thread at its read #%d (for %d reads): dispatcher thread died '
                            'with %r' % (clear_at, restore_after, err), {'part': 'race', 'clear_at': clear_at,
                                                                         'restore_after': restore_after})
            elif log != list(range(npk)):
                p.violation('race:packets_lost_or_reordered', 'cf.link cleared at read #%r: delivered %r' % (clear_at, log),
                            {'part': 'race', 'clear_at': clear_at, 'restore_after': restore_after})
    return p


def _dispatch(job):
    name, arg = job
    return globals()['part_' + name](arg)


def thread_configs():
    out = []
    for user_op in ('add_B', 'remove_D', 'add_B_header'):
        for disp_action in ('rm_self', 'add_C', 'remove_D', 'nop'):
            out.append({'name': 'threads:%s:%s' % (user_op, disp_action), 'user': user_op, 'disp': disp_action})
    return out


def exec_threads(cfg, devs):
    """Packet 1 is being dispatched to callback A (which performs cfg['disp']) while a user thread performs cfg['user'];
    packet 2 arrives after both are done: it must reach exactly the registrations that exist then, once each."""
    import queue as _q
    from vf import cfh, vsched
    from cflib.crazyflie import _IncomingPacketHandler
    from cflib.utils.callbacks import Caller
    p = Partial()
    vsched.clear_traced_functions()
    vsched.trace_functions(cfh.functions_of(_IncomingPacketHandler, skip=('__init__',)))
    ex = cfh.Exec(devs, None, time_limit=30.0)
    got = []
    info = {}

    def main():
        s = ex.s
        inq = vsched.VQueue()

        class _TLink:
            def receive_packet(self, wait=0):
                try:
                    return inq.get(True, wait) if wait else inq.get(False)
                except _q.Empty:
                    return None

        class _TCf:
            pass
        cf = _TCf()
        cf.link = _TLink()
        cf.packet_received = Caller()
        hd = _IncomingPacketHandler(cf)
        hd.daemon = True

        def mk(name):
            def cb(pk):
                got.append((name, pk.data[0]))
            cb.__name__ = name
            return cb
        B, C, D = mk('B'), mk('C'), mk('D')

        def A(pk):
            got.append(('A', pk.data[0]))
            if cfg['disp'] == 'rm_self':
                hd.remove_port_callback(5, A)
            elif cfg['disp'] == 'add_C':
                hd.add_port_callback(5, C)
            elif cfg['disp'] == 'remove_D':
                if not info.get('d_removed'):
                    info['d_removed'] = 'disp'
                    hd.remove_port_callback(5, D)
        hd.add_port_callback(5, A)
        hd.add_port_callback(5, D)
        hd.start()

        def user():
            if cfg['user'] == 'add_B':
                hd.add_port_callback(5, B)
            elif cfg['user'] == 'add_B_header':
                hd.add_header_callback(B, 5, 0, 0xff, 0x0)
            elif cfg['user'] == 'remove_D' and cfg['disp'] != 'remove_D':
                info['d_removed'] = 'user'
                hd.remove_port_callback(5, D)
            info['user_done'] = True
        s.spawn(None, user, name='user')
        inq.put(_mk_packet(0x50, bytes([1])))
        ex.wait_for(lambda: info.get('user_done') and any(g == ('A', 1) for g in got) and not inq.queue, 5.0, 'wait.first')
        s.sleep(0.05, 'settle1')
        ex.freeze()
        info['n_after_first'] = len(got)
        inq.put(_mk_packet(0x50, bytes([2])))
        s.sleep(1.5, 'settle2')
        info['alive'] = hd.is_alive()

    ex.run(main)
    s = ex.s
    cname = cfg['name']
    rp = {'part': 'threads', 'cfg': cfg, 'devs': list(devs)}
    p.case(key=(cname, tuple(devs)), nontrivial=bool(devs), outcome=(s.status, tuple(got)))

    def viol(clause, what):
        p.violation('threads:%s:%s' % (clause, cfg['user'] + '+' + cfg['disp']), '%s devs=%r: %s; deliveries %r' % (
            cname, devs, what, got), rp)
    if s.died or s.status != 'ok' or info.get('alive') is False:
        viol('dispatcher_died_or_hung', 'status %s, died %r' % (s.status, s.died[:1]))
        return p, ex.ch.ns, ex.ch.labels
    first = [g for g in got if g[1] == 1]
    second = [g for g in got if g[1] == 2]
    if first.count(('A', 1)) != 1 or (cfg['user'] != 'remove_D' and cfg['disp'] != 'remove_D' and first.count(('D', 1)) != 1):
        viol('first_packet', 'packet 1 must reach A once (and D once unless someone removes it)')
    if any(first.count(g) > 1 for g in first):
        viol('first_packet_twice', 'a registration received packet 1 more than once')
    want = {'A', 'D'}
    if cfg['disp'] == 'rm_self':
        want.discard('A')
    if cfg['disp'] == 'add_C':
        want.add('C')
    if info.get('d_removed'):
        want.discard('D')
    if cfg['user'] in ('add_B', 'add_B_header'):
        want.add('B')
    names2 = sorted(n for n, _ in second)
    if names2 != sorted(want):
        viol('second_packet', 'packet 2 (queued after both the user call and the first dispatch had finished) reached %r, the '
             'registrations that exist are %r' % (names2, sorted(want)))
    return p, ex.ch.ns, ex.ch.labels


def run(ck):
    ck.rule = ('D: user thread add/remove vs dispatcher callback add/remove at line level (12 configurations, every vector '
               'of <= 2 deviations, thorough 3). A2: every ordered pair of distinct registrations of one callable over a 54-registration alphabet x {remove first, '
               'remove second, remove none}. A: 256 headers x 1088 registrations (17 ports x 4 port masks x 4 channels x 4 channel masks), in one '
               'table and one at a time, plus add/remove_port_callback for 16 ports. B: every registration list of '
               'length 1..L over 3 patterns, every per-callback action from {nop, raise, rm_self, rm_<other>, add_new, '
               'add_self_alt}, x 4 packet sequences; non-trivial = at least one non-nop action. C: cf.link cleared at '
               'every read position x 3 durations. states = dispatch boundaries, transitions = callback invocations')
    ck.assume('independent matcher: reg.port == (pk.port & port_mask) and reg.channel == (pk.channel & channel_mask)')
    ck.assume('not demanded: whether a registration added while packet p is dispatched sees p (at most once), or '
              'whether one removed before its turn still sees p')
    L = 3 if ck.quick else 4
    jobs = [('match', ('all', tuple(range(256)))), ('match', ('single', None)), ('race', None), ('facade', None)]
    npairs = 54 * 53
    jobs += [('samecb', (lo, min(lo + 360, npairs))) for lo in range(0, npairs, 360)]
    for n in range(1, L + 1):
        for fp in sorted(PATS):
            acts0 = list(ACTIONS_BASE) + ['rm_r%d' % j for j in range(1, n)]
            for fa in acts0:
                jobs.append(('mutate', (n, fp, fa)))
    ck.pmap(_dispatch, jobs)
    # D: a user thread registers / removes while the dispatcher thread delivers (real threads under the controlled
    # scheduler, a scheduling point at every line of the dispatcher class)
    from vf import cfh
    from vf.explore import explore
    cfh.setup()
    r = explore(ck, exec_threads, thread_configs(), 2 if ck.quick else 3)
    ck.note('user_thread_vs_dispatcher', r)
    ck.exhaustive = True
    ck.note('max_registration_list_length', L)


def replay(ck, data):
    part = data.get('part')
    if part == 'mutate':
        log = _check_script(ck, tuple(data['pats']), tuple(data['actions']), tuple(data['seq']))
        print('patterns=%r actions=%r packets=%r -> invocation log %r' % (data['pats'], data['actions'], data['seq'], log))
    elif part == 'race':
        import cflib.crazyflie as cfmod
        from cflib.crazyflie import _IncomingPacketHandler
        cfmod.time = _FakeTime()
        link = _Link([_mk_packet(0x50, bytes([i])) for i in range(3)])
        cf = _RacyCf(link, data['clear_at'], data['restore_after'])
        hd = _IncomingPacketHandler(cf)
        err = _run_dispatcher(hd)
        print('cf.link cleared at read #%r -> dispatcher %s' % (data['clear_at'], 'survived' if err is None else 'died: %r' % err))
        if err is not None:
            ck.violation('race:dispatcher_died:' + type(err).__name__, repr(err))
    else:
        print('re-run the check for part %r' % part)
