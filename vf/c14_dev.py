"""C14 helpers: a byte-array device memory that follows the delivery discipline of
cflib.crazyflie.mem.Memory, and independent reference encoders/decoders (firmware layouts).

Nothing in this module imports cflib at module level; the reference codecs never call cflib.
"""
import math
import struct
import zlib
from collections import deque


class ByteMem:
    """One device memory as a bytearray.

    Mirrors what `Memory` does for the element classes:
      * read(mem, addr, length): refused (returns False) while a read for the same mem.id is
        outstanding; otherwise the whole requested range is delivered LATER (after the calling
        function returned, like the reply packet on the dispatcher thread) in ONE call
        cb(mem, addr, bytearray) to EVERY registered read callback; the request is forgotten
        before the callbacks run, so a callback may issue the next read.
      * a range the device cannot serve (outside the memory or refused by `access`) produces the
        read-failed / write-failed callbacks instead (status != 0 from the firmware).
      * write(mem, addr, data, flush_queue, progress_cb): payload is packed with
        struct.pack('B'*n, *data) exactly like _WriteRequest, applied to the image, then ONE
        cb(mem, addr) to every registered write callback with the start address.
    """

    def __init__(self, size, fill=0xFF, access=None, image=None):
        self.img = bytearray(image) if image is not None else bytearray([fill]) * size
        self.size = len(self.img)
        self.access = access
        self.read_cb, self.read_failed_cb, self.write_cb, self.write_failed_cb = [], [], [], []
        self.queue = deque()
        self.pending_reads = set()
        self.refused_reads = 0
        self.reads = []          # (addr, length, ok)
        self.writes = []         # (addr, length, ok)

    def attach(self, elem):
        """Register callbacks exactly as Memory._handle_cmd_info_details does for the class."""
        n = type(elem).__name__
        if n in ('OWElement', 'I2CElement', 'LEDTimingsDriverMemory', 'LEDDriverMemory'):
            self.read_cb.append(elem.new_data)
            self.write_cb.append(elem.write_done)
        elif n in ('LocoMemory', 'LocoMemory2'):
            self.read_cb.append(elem.new_data)
        elif n == 'TrajectoryMemory':
            self.write_cb.append(elem.write_done)
            self.write_failed_cb.append(elem.write_failed)
        elif n == 'LighthouseMemory':
            self.read_cb.append(elem.new_data)
            self.read_failed_cb.append(elem.new_data_failed)
            self.write_cb.append(elem.write_done)
            self.write_failed_cb.append(elem.write_failed)
        elif n == 'DeckMemoryManager':
            self.read_cb.append(elem._new_data)
            self.read_failed_cb.append(elem._new_data_failed)
            self.write_cb.append(elem._write_done)
            self.write_failed_cb.append(elem._write_failed)
        else:
            raise ValueError('unknown element class ' + n)
        return elem

    def _ok(self, addr, n):
        if addr < 0 or addr + n > self.size:
            return False
        return bool(self.access(addr, n)) if self.access else True

    def read(self, mem, addr, length):
        if mem.id in self.pending_reads:
            self.refused_reads += 1
            return False
        self.pending_reads.add(mem.id)
        self.queue.append(('r', mem, addr, length))
        return True

    def write(self, mem, addr, data, flush_queue=False, progress_cb=None):
        raw = struct.pack('B' * len(data), *data)
        if flush_queue:
            kept, first = deque(), True
            for op in self.queue:
                if op[0] == 'w' and op[1].id == mem.id:
                    if first:
                        first = False
                        kept.append(op)
                else:
                    kept.append(op)
            self.queue = kept
        self.queue.append(('w', mem, addr, raw))
        return True

    def pump(self, limit=100000):
        n = 0
        while self.queue:
            n += 1
            if n > limit:
                raise RuntimeError('ByteMem.pump: more than %d operations' % limit)
            op, mem, addr, arg = self.queue.popleft()
            if op == 'r':
                self.pending_reads.discard(mem.id)
                ok = self._ok(addr, arg)
                self.reads.append((addr, arg, ok))
                if ok:
                    data = bytearray(self.img[addr:addr + arg])
                    for cb in list(self.read_cb):
                        cb(mem, addr, data)
                else:
                    for cb in list(self.read_failed_cb):
                        cb(mem, addr, bytearray())
            else:
                ok = self._ok(addr, len(arg))
                self.writes.append((addr, len(arg), ok))
                if ok:
                    self.img[addr:addr + len(arg)] = arg
                    for cb in list(self.write_cb):
                        cb(mem, addr)
                else:
                    for cb in list(self.write_failed_cb):
                        cb(mem, addr)
        return n


# ---- floats ------------------------------------------------------------------------------------

F32_MAX = 3.4028234663852886e38
F32_EXTREMES = [0.0, -0.0, 1.5, -1.5, F32_MAX, -F32_MAX, 1e-45, float('inf'), float('-inf'), float('nan')]


def f32(v):
    return struct.unpack('<f', struct.pack('<f', v))[0]


def fl(v):
    """JSON replay files carry nan/inf as strings."""
    return float(v) if isinstance(v, str) else v


def same_float(a, b):
    if isinstance(a, bool) or isinstance(b, bool):
        return False
    if not isinstance(a, (int, float)) or not isinstance(b, (int, float)):
        return False
    if isinstance(a, float) and math.isnan(a):
        return isinstance(b, float) and math.isnan(b)
    if a != b:
        return False
    if a == 0 and isinstance(a, float) and isinstance(b, float):
        return math.copysign(1, a) == math.copysign(1, b)
    return True


def same_f32(got, exp):
    """got: value produced by the library; exp: value fed in (compared at float32 precision)."""
    if isinstance(got, bool) or not isinstance(got, (int, float)):
        return False
    return same_float(float(got), f32(exp))


def same_floats32(got, exp):
    try:
        got = list(got)
    except TypeError:
        return False
    return len(got) == len(exp) and all(same_f32(g, e) for g, e in zip(got, exp))


def crc8(b):
    return zlib.crc32(bytes(b)) & 0xFF


# ---- EEPROM (firmware configblock.c: magic '0xBC', version, channel, speed, pitch, roll,
#      [v1: address upper byte, address lower 32 bits], checksum = sum of all previous bytes mod 256)

def eeprom_image(version, channel, speed, pitch, roll, address=None):
    body = b'0xBC' + struct.pack('<BBBff', version, channel, speed, pitch, roll)
    if version == 1:
        body += struct.pack('<BI', (address >> 32) & 0xFF, address & 0xFFFFFFFF)
    return body + bytes([sum(body) % 256])


def eeprom_verdict(img):
    """None = layout undetermined (unknown version): nothing is demanded.
    Covered range: bytes [0, 15) for version 0, [0, 20) for version 1; stored checksum follows."""
    if bytes(img[0:4]) != b'0xBC':
        return False
    ver = img[4]
    if ver == 0:
        n = 15
    elif ver == 1:
        n = 20
    else:
        return None
    return sum(img[:n]) % 256 == img[n]


def eeprom_decode(img):
    ver, ch, sp, pitch, roll = struct.unpack('<BBBff', bytes(img[4:15]))
    d = {'version': ver, 'radio_channel': ch, 'radio_speed': sp, 'pitch_trim': pitch, 'roll_trim': roll}
    if ver == 1:
        up, lo = struct.unpack('<BI', bytes(img[15:20]))
        d['radio_address'] = (up << 32) | lo
    return d


# ---- 1-wire (firmware deck_info.c: 0xEB, usedPins u32, vid, pid, crc32(first 7 bytes) & 0xff;
#      TLV area: version 0, length L, L bytes of (id, len, data)*, crc32(version..data) & 0xff)

OW_IDS = {'Board name': 1, 'Board revision': 2, 'Custom': 3}
OW_NAMES = {v: k for k, v in OW_IDS.items()}


def ow_image(pins, vid, pid, wire_elems):
    """wire_elems: list of (id, bytes) in wire order."""
    hdr = struct.pack('<BIBB', 0xEB, pins, vid, pid)
    hdr += bytes([crc8(hdr)])
    area = b''.join(bytes([i, len(s)]) + s for i, s in wire_elems)
    tlv = bytes([0, len(area)]) + area
    return hdr + tlv + bytes([crc8(tlv)])


def ow_verdict(img, size):
    """valid <=> header byte 0xEB and crc over [0,7) == byte 7, and crc over [8, 10+L) == byte 10+L
    (L = byte 9), the element area being readable (10+L < size)."""
    if img[0] != 0xEB or crc8(img[0:7]) != img[7]:
        return False
    end = 10 + img[9]
    if end + 1 > size:
        return False
    return crc8(img[8:end]) == img[end]


def ow_decode(img):
    """Independent TLV walk. Returns (pins, vid, pid, {name: str} or None if the area is malformed
    or carries an id outside 1..3)."""
    _, pins, vid, pid = struct.unpack('<BIBB', bytes(img[0:7]))
    area = bytes(img[10:10 + img[9]])
    out = {}
    i = 0
    while i < len(area):
        if i + 2 > len(area):
            return pins, vid, pid, None
        eid, elen = area[i], area[i + 1]
        if eid not in OW_NAMES or i + 2 + elen > len(area):
            return pins, vid, pid, None
        out[OW_NAMES[eid]] = area[i + 2:i + 2 + elen].decode('latin-1')
        i += 2 + elen
    return pins, vid, pid, out


def ow_collision(img):
    """Input class: low CRC byte of the single length byte equals the byte after it."""
    return crc8(img[9:10]) == img[10]


# ---- lighthouse (firmware: baseStationGeometry_t {float origin[3]; float mat[3][3]; bool valid},
#      lighthouseCalibration_t {sweep[2]{phase,tilt,curve,gibmag,gibphase,ogeemag,ogeephase}; u32 uid; bool valid})

GEO_SIZE = 49
CALIB_SIZE = 61
SWEEP_FIELDS = ('phase', 'tilt', 'curve', 'gibmag', 'gibphase', 'ogeemag', 'ogeephase')


def geo_image(origin, rot, valid):
    return struct.pack('<12f?', *(list(origin) + [v for row in rot for v in row]), valid)


def calib_image(sweeps, uid, valid):
    return struct.pack('<14fI?', *(list(sweeps[0]) + list(sweeps[1])), uid, valid)


# ---- deck memory info (firmware deck_memory.c, version 3: per deck 0x20 bytes:
#      bitfield1, bitfield2, required hash u32, required length u32, base address u32, name[18])

def deck_info_image(version, infos):
    """infos: list of 8 entries (bf1, bf2, hash, length, base, name_bytes<=18) or None (all zero)."""
    out = bytes([version])
    for e in infos:
        if e is None:
            out += bytes(32)
        else:
            bf1, bf2, h, ln, base, name = e
            out += struct.pack('<BBLLL18s', bf1, bf2, h, ln, base, name)
    return out


# ---- trajectories (firmware pptraj: struct poly4d {float p[4][8]; float duration} and the
#      compressed format: types byte x|y<<2|z<<4|yaw<<6 (0:none 1:1 2:3 3:7 values), u16 ms, int16 values)

def poly4d_image(x, y, z, yaw, duration):
    return struct.pack('<33f', *(list(x) + list(y) + list(z) + list(yaw) + [duration]))


TYPE_OF_LEN = {0: 0, 1: 1, 3: 2, 7: 3}
LEN_OF_TYPE = {v: k for k, v in TYPE_OF_LEN.items()}


def decode_compressed_segment(raw):
    """-> (duration_ms, [x ints], [y ints], [z ints], [yaw ints], bytes consumed)"""
    types, ms = struct.unpack('<BH', raw[:3])
    pos = 3
    out = []
    for sh in (0, 2, 4, 6):
        n = LEN_OF_TYPE[(types >> sh) & 3]
        out.append(list(struct.unpack('<%dh' % n, raw[pos:pos + 2 * n])))
        pos += 2 * n
    return ms, out[0], out[1], out[2], out[3], pos


# ---- LED timings (firmware ledring12: {u8 duration; u8 color[2] (RGB565 big endian);
#      leds:4, fade:1, rotate:3}, sequence ends at an all-zero entry)

def led_timing_read(img):
    """What the firmware plays: entries up to the first all-zero one; None if no terminator."""
    out = []
    for i in range(0, len(img) - 3, 4):
        e = bytes(img[i:i + 4])
        if e == b'\0\0\0\0':
            return out
        c = (e[1] << 8) | e[2]
        out.append({'time': e[0], 'r5': c >> 11, 'g6': (c >> 5) & 0x3F, 'b5': c & 0x1F,
                    'leds': e[3] & 0x0F, 'fade': bool(e[3] & 0x10), 'rotate': e[3] >> 5})
    return None
