"""E3 — controlled threads, virtual time, primitive shims, identity-rebinding installer.

Real OS threads run the real library code, but only the holder of the *baton* runs.  Every shim
operation (lock/event/queue/sleep/thread start/join) and, optionally, every line of selected
functions is a scheduling point where a `chooser` decides who continues.  Time is virtual: it
advances only when no (non-lazy) thread is enabled, to the earliest deadline.

Nothing here imports cflib; `install()` rebinds, by object identity, the primitives found in the
already imported cflib/lpslib modules.
"""
import _thread
import os
import queue as _real_queue
import sys
import threading as _rt
import time as _real_time
import traceback
import types

from vf.core import HarnessError

READY, BLOCKED, DONE = 'ready', 'blocked', 'done'
WALL_LIMIT = float(os.environ.get('VF_WALL_LIMIT', '60'))

_orig_start = _rt.Thread.start
_orig_join = _rt.Thread.join
_orig_is_alive = _rt.Thread.is_alive
_RealEvent = _rt.Event
_RealLockType = type(_thread.allocate_lock())

S = None  # the active scheduler of this process (one execution at a time)


class Kill(BaseException):
    """Raised inside controlled threads at teardown (cflib has no bare except)."""


class VT:
    __slots__ = ('id', 'name', 'thread', 'go', 'state', 'pred', 'deadline', 'lazy', 'exc', 'finished', 'ident',
                 'label', 'tb')

    def __init__(self, id, name, thread):
        self.id = id
        self.name = name
        self.thread = thread
        self.go = _thread.allocate_lock()
        self.go.acquire()
        self.state = READY
        self.pred = None
        self.deadline = None
        self.lazy = False
        self.exc = None
        self.tb = None
        self.finished = _thread.allocate_lock()
        self.finished.acquire()
        self.ident = None
        self.label = ''


class Sched:
    def __init__(self, chooser, time_limit=30.0, t0=1000.0):
        self.chooser = chooser          # chooser(n, label) -> int in [0, n)
        self.threads = []
        self.cur = None
        self.now = t0
        self.t0 = t0
        self.time_limit = t0 + time_limit
        self.killing = False
        self.status = 'ok'              # ok | deadlock | timelimit
        self.blocked_report = None
        self.npoints = 0
        self.log = []                   # harness-visible event log
        self.by_ident = {}
        self.line_codes = {}
        self.frozen = False             # True: no more choices offered (default schedule)
        self.eager_start = False        # default-schedule variant: a started thread runs before its starter continues
        self.prefer = None
        self.handoff = False            # default-schedule variant: a thread woken by the running one runs first
        self.env_first = False          # default-schedule variant: the thread an environment thread was fired over stays
        self._held = None               # paused (while anything else can run) until that environment thread has finished
        self.others_first = False       # ... and (others_first) until nothing else can run at all
        self._prev_enabled = set()
        self.died = []                  # (name, exception repr, traceback) for library threads that died

    # ---- bookkeeping -------------------------------------------------------------------------
    def elapsed(self):
        return round(self.now - self.t0, 9)

    def _deadline(self, timeout):
        """Virtual instants live on a 1 ns grid relative to the start: 0.2 + 0.2 and 0.4 are the same instant (a tie that is
        explored), whatever the floating-point sum of the absolute clock values says."""
        return self.t0 + round(self.now - self.t0 + timeout, 9)

    def me(self):
        vt = self.by_ident.get(_thread.get_ident())
        if vt is None:
            raise HarnessError('uncontrolled thread touched a shim: %r' % _rt.current_thread())
        if vt is not self.cur:
            raise HarnessError('thread %s runs without the baton (cur=%s)' % (vt.name, self.cur and self.cur.name))
        return vt

    def owns_current_thread(self):
        return _thread.get_ident() in self.by_ident

    # ---- running ---------------------------------------------------------------------------------
    def run(self, main_fn):
        """Run main_fn as controlled thread 0 on the calling OS thread; returns its result."""
        global S
        if S is not None:
            raise HarnessError('nested scheduler')
        if sys.getswitchinterval() > 1e-4:
            sys.setswitchinterval(1e-5)
        S = self
        vt = VT(0, 'main', _rt.current_thread())
        vt.ident = _thread.get_ident()
        self.by_ident[vt.ident] = vt
        self.threads.append(vt)
        self.cur = vt
        result = None
        try:
            _enable_line_monitoring(self)
            try:
                result = main_fn()
            except Kill:
                pass
            vt.state = DONE
        finally:
            try:
                self._teardown(vt)
            finally:
                _disable_line_monitoring()
                S = None
        return result

    def _teardown(self, me):
        self.killing = True
        me.state = DONE
        for t in self.threads:
            if t is me or t.state == DONE and t.finished.acquire(False):
                continue
            self.cur = t
            if t.go.locked():
                t.go.release()
            if not t.finished.acquire(True, WALL_LIMIT):
                raise HarnessError('thread %s did not unwind at teardown (label %s)' % (t.name, t.label))
        self.cur = None

    def spawn(self, thread_obj, body, name=None, lazy=False, start_at=None, label=''):
        """Register a new controlled thread executing body() (called from a controlled thread).  With start_at the
        thread is born asleep until that virtual instant (an environment timer: no start-up step of its own)."""
        vt = VT(len(self.threads), name or getattr(thread_obj, 'name', 'T'), thread_obj)
        vt.lazy = lazy
        if start_at is not None:
            vt.state = BLOCKED
            vt.pred = _never
            vt.deadline = start_at
            vt.label = label
        self.threads.append(vt)

        def boot():
            vt.ident = _thread.get_ident()
            self.by_ident[vt.ident] = vt
            started.release()
            vt.go.acquire()
            try:
                if not self.killing:
                    vt.lazy = False
                    vt.state = READY
                    vt.pred = None
                    vt.deadline = None
                    body()
            except Kill:
                pass
            except BaseException as e:  # the thread dies
                vt.exc = e
                vt.tb = traceback.format_exc()
                self.died.append((vt.name, repr(e), vt.tb))
            finally:
                vt.state = DONE
                try:
                    if not self.killing:
                        self._leave(vt)
                except Kill:
                    pass
                finally:
                    vt.finished.release()

        started = _thread.allocate_lock()
        started.acquire()
        _thread.start_new_thread(boot, ())
        if not started.acquire(True, WALL_LIMIT):
            raise HarnessError('thread did not start')
        return vt

    def _leave(self, vt):
        """vt finished its body: pass the baton on (never returns control to vt)."""
        nxt = self._pick(vt, 'exit:' + vt.name)
        self.cur = nxt
        self._wake(nxt)

    # ---- choosing ----------------------------------------------------------------------------------
    def _enabled(self, t):
        if t.state == READY:
            return True
        if t.state == BLOCKED:
            if t.pred is not None and t.pred():
                return True
            return t.deadline is not None and t.deadline <= self.now
        return False

    def _pick(self, cur, label):
        while True:
            if self.killing:
                raise Kill()
            enabled = [t for t in self.threads if self._enabled(t)]
            # a lazy thread counts as an ordinary one once its (default) deadline has passed
            nonlazy = [t for t in enabled if not t.lazy or (t.deadline is not None and t.deadline <= self.now)]
            if not nonlazy:
                dls = [t.deadline for t in self.threads if t.state == BLOCKED and t.deadline is not None]
                if dls:
                    d = min(dls)
                    if d > self.time_limit:
                        self._abort('timelimit')
                    self.now = max(self.now, d)
                    continue
                lazies = [t for t in self.threads if t.lazy and t.state != DONE]
                if not lazies:
                    self._abort('deadlock')
                default = lazies[0]
            else:
                default = cur if (cur in nonlazy) else nonlazy[0]
                if self.prefer is not None:
                    # eager-start policy: a freshly started thread runs first by default
                    if self.eager_start and self.prefer in nonlazy:
                        default = self.prefer
                    self.prefer = None
                elif self.handoff:
                    # hand-off policy: a thread that has just become runnable (woken by the running thread's last
                    # operation: a packet queued, a lock released, an event set) runs first by default
                    fresh = [t for t in nonlazy if t is not cur and t.id not in self._prev_enabled]
                    if fresh:
                        default = fresh[0]
                self._prev_enabled = set(t.id for t in nonlazy)
                if self._held is not None:
                    fired, held = self._held
                    if held.state == DONE or (fired.state == DONE and not self.others_first):
                        self._held = None
                    elif default is held and self.others_first and fired.state == DONE:
                        # others_first: the interrupted thread also waits for everything the event has set in motion (the
                        # dispatcher handling the injected packet, ...) until nothing else can run
                        others = [t for t in nonlazy if t is not held]
                        if others:
                            default = others[0]
                        else:
                            self._held = None
                    elif default is held:
                        # the interrupted thread waits for the environment event to be handled completely (the error path
                        # runs to its end, with whatever other threads it needs), if anything else can run at all
                        others = [t for t in nonlazy if t is not held]
                        if others:
                            default = fired if fired in others else others[0]
            if self.now > self.time_limit:
                self._abort('timelimit')
            options = [default] + [t for t in self.threads
                                   if t is not default and t.state != DONE and (t.lazy or t in nonlazy)]
            self.npoints += 1
            if len(options) > 1 and not self.frozen:
                # which alternatives are parked environment threads (and what they are waiting to do): for filters
                self.lazy_options = tuple((k, t.label) for k, t in enumerate(options) if t.lazy and k > 0)
                k = self.chooser(len(options), label)
                if not 0 <= k < len(options):
                    raise HarnessError('chooser returned %r for %d options' % (k, len(options)))
                if self.env_first and k > 0 and options[k].lazy and cur is not options[k] and cur in nonlazy:
                    self._held = (options[k], cur)
                return options[k]
            return default

    def _abort(self, status):
        """Deadlock or virtual time limit: record the blocked threads and unwind everything."""
        self.status = status
        rep = []
        frames = sys._current_frames()
        for t in self.threads:
            if t.state == DONE:
                continue
            fr = frames.get(t.ident)
            stack = []
            if fr is not None:
                for fs in traceback.extract_stack(fr):
                    if '/vf/vsched.py' in fs.filename:
                        continue
                    stack.append('%s:%d %s' % (os.path.basename(fs.filename), fs.lineno, fs.name))
            rep.append({'thread': t.name, 'state': t.state, 'label': t.label, 'stack': stack[-8:]})
        self.blocked_report = rep
        self.killing = True
        # wake main so that it unwinds with Kill; the current thread raises Kill itself
        main = self.threads[0]
        me = self.by_ident.get(_thread.get_ident())
        if me is not main:
            self.cur = main
            if main.go.locked():
                main.go.release()
            if me is not None and me.state != DONE:
                # park until teardown kills us
                me.go.acquire()
        raise Kill()

    def _wake(self, t):
        t.go.release()

    def _handoff(self, cur, nxt):
        self.cur = nxt
        self._wake(nxt)
        if not cur.go.acquire(True, WALL_LIMIT * 20):
            raise HarnessError('baton never came back to %s' % cur.name)
        if self.killing:
            raise Kill()

    # ---- operations used by the shims ---------------------------------------------------------------
    def point(self, label=''):
        """Scheduling point for the running (ready) thread."""
        if self.killing:
            raise Kill()
        cur = self.me()
        cur.label = label
        nxt = self._pick(cur, label)
        if nxt is not cur:
            self._handoff(cur, nxt)

    def wait(self, pred, timeout=None, label=''):
        """Block until pred() or timeout (virtual).  Returns pred() at wake-up."""
        if self.killing:
            raise Kill()
        cur = self.me()
        cur.label = label
        if timeout is not None and timeout < 0:
            timeout = 0
        cur.state = BLOCKED
        cur.pred = pred
        cur.deadline = None if timeout is None else self._deadline(timeout)
        nxt = self._pick(cur, label)
        if nxt is not cur:
            self._handoff(cur, nxt)
        cur.state = READY
        cur.pred = None
        cur.deadline = None
        return bool(pred())

    def sleep(self, secs, label='sleep'):
        self.wait(_never, secs, label)

    def lazy_point(self, label='env', timeout=None):
        """The calling (environment) thread becomes lazy: it can be fired at any scheduling point
        (one deviation); by default it runs when its timeout expires, or, without timeout, when
        nothing else can run and no deadline is pending."""
        if self.killing:
            raise Kill()
        cur = self.me()
        cur.lazy = True
        cur.label = label
        cur.state = BLOCKED
        cur.pred = _never
        cur.deadline = None if timeout is None else self._deadline(timeout)
        nxt = self._pick(cur, label)
        if nxt is not cur:
            self._handoff(cur, nxt)
        cur.lazy = False
        cur.state = READY
        cur.pred = None
        cur.deadline = None


def _never():
    return False


def active():
    s = S
    if s is None or s.killing and not s.owns_current_thread():
        return None
    return s


def _sched():
    s = S
    if s is None:
        raise HarnessError('shim used without an active scheduler')
    return s


# =================================================================================================
# Shims
# =================================================================================================
class VLock:
    def __init__(self):
        self._locked = False
        self._owner = None

    def acquire(self, blocking=True, timeout=-1):
        s = S
        if s is None:
            if self._locked:
                raise HarnessError('VLock would block outside a scheduler')
            self._locked = True
            return True
        s.point('lock.acquire')
        if not blocking:
            if self._locked:
                return False
            self._locked = True
            self._owner = s.cur.name
            return True
        to = None if timeout is None or timeout < 0 else timeout
        ok = True
        if self._locked:
            ok = s.wait(lambda: not self._locked, to, 'lock.acquire(blocked)')
        if ok:
            self._locked = True
            self._owner = s.cur.name
        return ok

    def release(self):
        s = S
        if s is not None and s.killing:
            raise Kill()
        if not self._locked:
            raise RuntimeError('release unlocked lock')
        self._locked = False
        self._owner = None
        if s is not None:
            s.point('lock.release')

    def locked(self):
        return self._locked

    __enter__ = acquire

    def __exit__(self, *a):
        self.release()


class VRLock:
    def __init__(self):
        self._owner = None
        self._count = 0

    def locked(self):
        return self._owner is not None

    def acquire(self, blocking=True, timeout=-1):
        s = S
        if s is None:
            # outside a scheduler (thread-free parts of the checks): one thread, re-entrant by definition
            if self._owner is not None and self._owner != 'no-scheduler':
                raise HarnessError('VRLock taken inside a scheduler is used outside it')
            self._owner = 'no-scheduler'
            self._count += 1
            return True
        me = s.me()
        s.point('rlock.acquire')
        if self._owner is me:
            self._count += 1
            return True
        if self._owner is not None:
            if not blocking:
                return False
            to = None if timeout is None or timeout < 0 else timeout
            if not s.wait(lambda: self._owner is None, to, 'rlock.acquire(blocked)'):
                return False
        self._owner = me
        self._count = 1
        return True

    def release(self):
        s = S
        if s is None:
            if self._owner != 'no-scheduler':
                raise RuntimeError('cannot release un-acquired lock')
            self._count -= 1
            if self._count == 0:
                self._owner = None
            return
        if s.killing:
            raise Kill()
        if self._owner is not s.me():
            raise RuntimeError('cannot release un-acquired lock')
        self._count -= 1
        if self._count == 0:
            self._owner = None
        s.point('rlock.release')

    __enter__ = acquire

    def __exit__(self, *a):
        self.release()


class VSemaphore:
    def __init__(self, value=1):
        self._value = value

    def acquire(self, blocking=True, timeout=None):
        s = S
        if s is None:
            if self._value <= 0:
                raise HarnessError('VSemaphore would block outside a scheduler')
            self._value -= 1
            return True
        s.point('sem.acquire')
        if self._value <= 0:
            if not blocking:
                return False
            if not s.wait(lambda: self._value > 0, timeout, 'sem.acquire(blocked)'):
                return False
        self._value -= 1
        return True

    def release(self, n=1):
        s = S
        if s is not None and s.killing:
            raise Kill()
        self._value += n
        if s is not None:
            s.point('sem.release')

    __enter__ = acquire

    def __exit__(self, *a):
        self.release()


class VEvent:
    def __init__(self):
        self._flag = False

    def is_set(self):
        return self._flag

    isSet = is_set

    def set(self):
        s = S
        if s is not None and s.killing:
            raise Kill()
        self._flag = True
        if s is not None and s.owns_current_thread():
            s.point('event.set')

    def clear(self):
        self._flag = False

    def wait(self, timeout=None):
        if S is None and (self._flag or timeout is not None):
            return self._flag           # outside a scheduler nobody else can set it: a timed wait just expires
        s = _sched()
        s.point('event.wait')
        if self._flag:
            return True
        return s.wait(lambda: self._flag, timeout, 'event.wait(blocked)')


class VCondition:
    def __init__(self, lock=None):
        self._lock = lock if lock is not None else VRLock()
        self._waiters = []
        self.acquire = self._lock.acquire
        self.release = self._lock.release

    def __enter__(self):
        return self._lock.__enter__()

    def __exit__(self, *a):
        return self._lock.__exit__(*a)

    def wait(self, timeout=None):
        s = _sched()
        tok = [False]
        self._waiters.append(tok)
        self._lock.release()
        ok = s.wait(lambda: tok[0], timeout, 'cond.wait')
        if not ok and tok in self._waiters:
            self._waiters.remove(tok)
        self._lock.acquire()
        return ok

    def wait_for(self, predicate, timeout=None):
        s = _sched()
        end = None if timeout is None else s.now + timeout
        r = predicate()
        while not r:
            to = None if end is None else end - s.now
            if to is not None and to <= 0:
                break
            self.wait(to)
            r = predicate()
        return r

    def notify(self, n=1):
        for tok in self._waiters[:n]:
            tok[0] = True
        del self._waiters[:n]

    def notify_all(self):
        self.notify(len(self._waiters))


class VQueue:
    def __init__(self, maxsize=0):
        self.maxsize = maxsize
        self.queue = []
        self.unfinished_tasks = 0

    def qsize(self):
        return len(self.queue)

    def empty(self):
        return not self.queue

    def full(self):
        return 0 < self.maxsize <= len(self.queue)

    def put(self, item, block=True, timeout=None):
        s = S
        if s is None:
            if self.full():
                raise _real_queue.Full
            self.queue.append(item)
            return
        s.point('queue.put')
        if self.full():
            if not block:
                raise _real_queue.Full
            if timeout is not None and timeout < 0:
                raise ValueError("'timeout' must be a non-negative number")
            if not s.wait(lambda: not self.full(), timeout, 'queue.put(blocked)'):
                raise _real_queue.Full
        self.queue.append(item)
        self.unfinished_tasks += 1
        s.point('queue.put.done')      # a consumer woken by this put may run before the producer continues

    def get(self, block=True, timeout=None):
        s = S
        if s is None:
            if not self.queue:
                raise _real_queue.Empty
            return self.queue.pop(0)
        s.point('queue.get')
        if not self.queue:
            if not block:
                raise _real_queue.Empty
            if timeout is not None and timeout < 0:
                raise ValueError("'timeout' must be a non-negative number")
            if not s.wait(lambda: bool(self.queue), timeout, 'queue.get(blocked)'):
                raise _real_queue.Empty
        return self.queue.pop(0)

    def put_nowait(self, item):
        return self.put(item, block=False)

    def get_nowait(self):
        return self.get(block=False)

    def task_done(self):
        self.unfinished_tasks -= 1

    def join(self):
        s = _sched()
        s.wait(lambda: self.unfinished_tasks <= 0, None, 'queue.join')


class VTimer(_rt.Thread):
    """threading.Timer on virtual time (same structure as the stdlib class)."""

    def __init__(self, interval, function, args=None, kwargs=None):
        _rt.Thread.__init__(self)
        self.interval = interval
        self.function = function
        self.args = args if args is not None else []
        self.kwargs = kwargs if kwargs is not None else {}
        self.finished = VEvent()

    def cancel(self):
        self.finished._flag = True
        s = S
        if s is not None and s.owns_current_thread() and not s.killing:
            s.point('timer.cancel')

    def run(self):
        s = _sched()
        s.wait(lambda: self.finished._flag, self.interval, 'timer.wait')
        if not self.finished._flag:
            self.function(*self.args, **self.kwargs)
        self.finished._flag = True


class _VTime(types.ModuleType):
    """Stands in for the `time` module inside cflib."""

    def __init__(self):
        super().__init__('time')
        for k in ('struct_time', 'strftime', 'gmtime', 'localtime', 'mktime', 'timezone', 'altzone', 'daylight',
                  'tzname', 'asctime', 'ctime', 'strptime'):
            setattr(self, k, getattr(_real_time, k))

    @staticmethod
    def time():
        s = S
        return s.now if s is not None else 1000.0

    monotonic = perf_counter = time

    @staticmethod
    def time_ns():
        return int(_VTime.time() * 1e9)

    @staticmethod
    def sleep(secs):
        if secs < 0:
            raise ValueError('sleep length must be non-negative')
        s = S
        if s is None:
            return
        s.wait(_never, secs, 'time.sleep')


vtime = _VTime()


def _v_current_thread():
    s = S
    if s is not None:
        vt = s.by_ident.get(_thread.get_ident())
        if vt is not None and vt.thread is not None:
            return vt.thread
    return _rt.current_thread()


class _VQueueMod(types.ModuleType):
    def __init__(self):
        super().__init__('queue')
        self.Queue = VQueue
        self.Empty = _real_queue.Empty
        self.Full = _real_queue.Full
        self.LifoQueue = VQueue
        self.SimpleQueue = VQueue


vqueue = _VQueueMod()


class _VThreadingMod(types.ModuleType):
    def __init__(self):
        super().__init__('threading')
        self.Thread = _rt.Thread
        self.Lock = VLock
        self.RLock = VRLock
        self.Semaphore = VSemaphore
        self.BoundedSemaphore = VSemaphore
        self.Event = VEvent
        self.Condition = VCondition
        self.Timer = VTimer
        self.current_thread = _v_current_thread
        self.currentThread = _v_current_thread
        self.main_thread = _rt.main_thread
        self.get_ident = _rt.get_ident
        self.enumerate = _rt.enumerate
        self.active_count = _rt.active_count
        self.local = _rt.local


vthreading = _VThreadingMod()


# ---- Thread class patches ------------------------------------------------------------------------
def _p_start(self):
    s = S
    if s is None or s.killing or not s.owns_current_thread():
        return _orig_start(self)
    if getattr(self, '_vf_vt', None) is not None and self._vf_sched is s:
        raise RuntimeError('threads can only be started once')
    self._vf_sched = s
    self._vf_vt = s.spawn(self, self.run, name=type(self).__name__ + ':' + str(len(s.threads)))
    s.prefer = self._vf_vt
    s.point('thread.start')


def _p_join(self, timeout=None):
    s = S
    vt = getattr(self, '_vf_vt', None)
    if s is None or vt is None or getattr(self, '_vf_sched', None) is not s:
        if s is not None and s.owns_current_thread() and getattr(self, '_vf_vt', None) is None:
            if not self._started.is_set():
                raise RuntimeError('cannot join thread before it is started')
        return _orig_join(self, timeout)
    me = s.me()
    if vt is me:
        raise RuntimeError('cannot join current thread')
    s.point('thread.join')
    if vt.state != DONE:
        s.wait(lambda: vt.state == DONE, timeout, 'thread.join(blocked)')


def _p_is_alive(self):
    s = S
    vt = getattr(self, '_vf_vt', None)
    if s is None or vt is None or getattr(self, '_vf_sched', None) is not s:
        if vt is not None:
            return False          # belonged to an earlier execution
        return _orig_is_alive(self)
    return vt.state != DONE


_patched = False


def patch_thread_class():
    global _patched
    if _patched:
        return
    _rt.Thread.start = _p_start
    _rt.Thread.join = _p_join
    _rt.Thread.is_alive = _p_is_alive
    _patched = True


# ---- identity rebinding ----------------------------------------------------------------------------
def _identity_map():
    import queue
    import threading
    import time
    m = {
        id(threading.Lock): VLock, id(threading.RLock): VRLock, id(threading.Semaphore): VSemaphore,
        id(threading.BoundedSemaphore): VSemaphore, id(threading.Event): VEvent,
        id(threading.Condition): VCondition, id(threading.Timer): VTimer, id(queue.Queue): VQueue,
        id(queue.LifoQueue): VQueue, id(threading.current_thread): _v_current_thread,
        id(time): vtime, id(queue): vqueue, id(threading): vthreading,
        id(time.sleep): vtime.sleep, id(time.time): vtime.time,
    }
    return m


REAL_PRIMITIVE_TYPES = None


def install(prefixes=('cflib', 'lpslib')):
    """Rebind primitives in every imported module whose name starts with one of prefixes.
    Idempotent; call after importing everything the harness uses.  Returns number of rebinds."""
    import queue
    import threading
    patch_thread_class()
    m = _identity_map()
    real_inst = (_RealLockType, type(threading.RLock()), threading.Semaphore, threading.Event, threading.Condition,
                 queue.Queue)
    n = 0
    for name, mod in list(sys.modules.items()):
        if mod is None or not any(name == p or name.startswith(p + '.') for p in prefixes):
            continue
        for k, v in list(vars(mod).items()):
            r = m.get(id(v))
            if r is not None:
                setattr(mod, k, r)
                n += 1
            elif isinstance(v, type) and getattr(v, '__module__', None) == name:
                for ck_, cv in list(vars(v).items()):
                    if isinstance(cv, real_inst):
                        setattr(v, ck_, _convert_instance(cv))
                        n += 1
            elif isinstance(v, real_inst):
                setattr(mod, k, _convert_instance(v))
                n += 1
    return n


def _convert_instance(obj):
    import threading
    if isinstance(obj, threading.Semaphore):
        return VSemaphore(obj._value)
    if isinstance(obj, threading.Event):
        e = VEvent()
        e._flag = obj.is_set()
        return e
    if isinstance(obj, threading.Condition):
        return VCondition()
    if isinstance(obj, _RealLockType):
        return VLock()
    if isinstance(obj, _real_queue.Queue):
        return VQueue(obj.maxsize)
    return VRLock()


def check_installed(prefixes=('cflib', 'lpslib')):
    """Fail if any cflib module global still refers to a real blocking primitive."""
    m = _identity_map()
    left = []
    for name, mod in list(sys.modules.items()):
        if mod is None or not any(name == p or name.startswith(p + '.') for p in prefixes):
            continue
        for k, v in list(vars(mod).items()):
            if id(v) in m:
                left.append('%s.%s' % (name, k))
    if left:
        raise HarnessError('real primitives still bound in: %s' % ', '.join(left[:10]))


# ---- line-level scheduling points (sys.monitoring, Python >= 3.12) --------------------------------
_TOOL = 3
_line_codes = set()
_mon_on = False


def trace_functions(funcs):
    """Declare functions whose every line is a scheduling point (call before Sched.run)."""
    for f in funcs:
        f = getattr(f, '__func__', f)
        code = f.__code__
        _line_codes.add(code)


def clear_traced_functions():
    _line_codes.clear()


def _on_line(code, lineno):
    s = S
    if s is None or s.killing:
        return
    vt = s.by_ident.get(_thread.get_ident())
    if vt is None or vt is not s.cur:
        return
    s.point('L:%s:%d' % (code.co_name, lineno))


def _enable_line_monitoring(s):
    global _mon_on
    if not _line_codes:
        return
    mon = sys.monitoring
    if mon.get_tool(_TOOL) is None:
        mon.use_tool_id(_TOOL, 'vf-sched')
    mon.register_callback(_TOOL, mon.events.LINE, _on_line)
    for code in _line_codes:
        mon.set_local_events(_TOOL, code, mon.events.LINE)
    _mon_on = True


def _disable_line_monitoring():
    global _mon_on
    if not _mon_on:
        return
    mon = sys.monitoring
    for code in _line_codes:
        mon.set_local_events(_TOOL, code, 0)
    mon.register_callback(_TOOL, mon.events.LINE, None)
    _mon_on = False
