"""Core of the verification framework: check context, partial results, evidence, findings.

A check module (vf/checks/cNN.py) exposes

    ID = 'C13'; LEVEL = 'exploration'
    def run(ck): ...            # explores, calls ck.case/ck.violation/...
    def replay(ck, data): ...   # re-executes one recorded case (optional)

All counters in the evidence file are measured by this module from what the check reported.
"""
import fnmatch
import hashlib
import json
import multiprocessing
import os
import subprocess
import sys
import time
import traceback

VERIF = os.path.dirname(os.path.dirname(os.path.abspath(__file__)))
REPO = os.environ.get('VF_REPO', '/repo')
MAX_SAMPLES = 12
MAX_VIOL_KEPT = 40


def bind_repo():
    """Put $VF_REPO first on sys.path and make sure cflib is imported from there."""
    repo = os.path.abspath(REPO)
    if sys.path[0] != repo:
        sys.path.insert(0, repo)
    for name in list(sys.modules):
        if name == 'cflib' or name.startswith('cflib.') or name == 'lpslib' or name.startswith('lpslib.'):
            f = getattr(sys.modules[name], '__file__', None) or ''
            if not os.path.abspath(f).startswith(repo + os.sep):
                raise HarnessError('cflib imported before bind_repo from %s' % f)
    import cflib
    f = os.path.abspath(cflib.__file__)
    if not f.startswith(repo + os.sep):
        raise HarnessError('cflib resolved to %s, not under %s' % (f, repo))
    return repo


class LibraryHang(BaseException):
    """A call into the library under test did not return within the (real-time) limit."""


HANG_LIMIT = float(os.environ.get('VF_HANG_LIMIT', '60'))


def bounded(what, fn, *a, **k):
    """Run fn(*a, **k) on a helper thread; raise LibraryHang(what) when it has not returned after HANG_LIMIT seconds
    of real time (for the parts that drive the library with real threads: a changed tree must end in a verdict,
    not in a check that never returns).  The stuck daemon thread is abandoned."""
    import threading
    box = []

    def body():
        try:
            box.append((True, fn(*a, **k)))
        except BaseException as e:  # noqa
            box.append((False, e))
    t = threading.Thread(target=body, daemon=True, name='vf-bounded')
    t.start()
    t.join(HANG_LIMIT)
    if not box:
        raise LibraryHang(what)
    ok, v = box[0]
    if ok:
        return v
    raise v


class HarnessError(BaseException):
    """The machinery itself misbehaved (never a verdict about the property)."""


def _h(obj):
    if not isinstance(obj, (bytes, bytearray)):
        obj = repr(obj).encode('utf-8', 'replace')
    return hashlib.blake2b(bytes(obj), digest_size=8).digest()


class Partial:
    """Mergeable bundle of what a (sub-)exploration covered."""

    def __init__(self):
        self.evaluations = 0
        self.distinct = set()
        self.outcomes = set()
        self.states = 0
        self.transitions = 0
        self.points = 0
        self.samples = []
        self.violations = []   # dicts: sig, what, replay
        self.viol_count = 0
        self.caps = []
        self.extra = {}

    # ---- counting -------------------------------------------------------------------------
    def case(self, key=None, nontrivial=True, outcome=None, sample=None):
        """One explored case. key identifies it for the distinct count (None: not counted as
        distinct); outcome = canonical observation (for the distinct-outcomes statistic)."""
        self.evaluations += 1
        if key is not None and nontrivial:
            self.distinct.add(_h(key))
        if outcome is not None:
            self.outcomes.add(_h(outcome))
        if sample is not None and len(self.samples) < MAX_SAMPLES:
            self.samples.append(sample)

    def sample(self, obj):
        if len(self.samples) < MAX_SAMPLES:
            self.samples.append(obj)

    def add(self, name, n=1):
        self.extra[name] = self.extra.get(name, 0) + n

    def cap(self, text):
        if text not in self.caps:
            self.caps.append(text)

    def violation(self, sig, what, replay=None):
        """sig: stable signature string (used to match known findings and to de-duplicate)."""
        self.viol_count += 1
        for v in self.violations:
            if v['sig'] == sig:
                v['count'] += 1
                return
        if len(self.violations) < MAX_VIOL_KEPT:
            self.violations.append({'sig': sig, 'what': what, 'replay': replay, 'count': 1})

    def merge(self, other):
        self.evaluations += other.evaluations
        self.distinct |= other.distinct
        self.outcomes |= other.outcomes
        self.states += other.states
        self.transitions += other.transitions
        self.points += other.points
        for s in other.samples:
            if len(self.samples) < MAX_SAMPLES:
                self.samples.append(s)
        for v in other.violations:
            for w in self.violations:
                if w['sig'] == v['sig']:
                    w['count'] += v['count']
                    break
            else:
                if len(self.violations) < MAX_VIOL_KEPT:
                    self.violations.append(dict(v))
        self.viol_count += other.viol_count
        for c in other.caps:
            self.cap(c)
        for k, v in other.extra.items():
            self.extra[k] = self.extra.get(k, 0) + v


class Check(Partial):
    def __init__(self, pid, level, tier, seed):
        super().__init__()
        self.id = pid
        self.level = level
        self.tier = tier
        self.seed = seed
        self.t0 = time.time()
        self.rule = ''
        self.assumptions = []
        self.exhaustive = None
        self.notes = {}
        self.workers = int(os.environ.get('VF_WORKERS', '0')) or min(16, os.cpu_count() or 1)
        self._findings = None

    @property
    def quick(self):
        return self.tier == 'quick'

    def assume(self, text):
        if text not in self.assumptions:
            self.assumptions.append(text)

    def note(self, key, value):
        self.notes[key] = value

    def failing(self):
        """True once a violation that is not a listed known finding has been recorded: the verdict of this run is settled,
        and the remaining (possibly very slow on a broken tree) parts need not run."""
        if os.environ.get('VF_NO_FAIL_FAST'):
            return False
        if self._findings is None:
            self._findings = load_findings()
        return any(not match_finding(self._findings, self.id, v['sig']) for v in self.violations)

    def skip_after_violation(self, what):
        if self.failing():
            self.cap('%s not run: an earlier part of this run already found a violation' % what)
            return True
        return False

    def pmap(self, fn, items, chunksize=1):
        """Run fn(item) -> Partial in forked workers and merge the results (order preserved)."""
        items = list(items)
        if not items:
            return
        if self.skip_after_violation('%d jobs of %s' % (len(items), getattr(fn, '__name__', 'a part'))):
            return
        if self.workers <= 1 or len(items) == 1:
            for it in items:
                self.merge(_guard(fn, it))
            return
        ctx = multiprocessing.get_context('fork')
        limit = float(os.environ.get('VF_JOB_LIMIT', '0') or 0) or (1800.0 if self.quick else 10800.0)
        pool = ctx.Pool(min(self.workers, len(items)))
        try:
            for part in bounded_imap(pool, _Guard(fn), items, chunksize, limit):
                if isinstance(part, _WorkerFailure):
                    raise HarnessError('worker failed:\n' + part.text)
                self.merge(part)
                if part.violations and self.failing():
                    self.cap('remaining jobs of %s not awaited: a violation was found' % getattr(fn, '__name__', 'a part'))
                    raise AbortRun()
        except JobTimeout as e:
            # a job of this check takes seconds to a few minutes: code under test that no longer returns
            idx = e.index
            self.case(key=('hang', idx), outcome=('hang',))
            self.sample({'part': 'hang', 'job_index': idx, 'job': repr(items[idx])[:200]})
            self.cap('job %d gave no result within %.0f s of real time; the remaining jobs were not run' % (idx, limit))
            self.violation('hang:job_without_result', 'job %d of %d (%.200r) gave no result within %.0f s of real time: '
                           'code under test does not return' % (idx, len(items), items[idx], limit),
                           {'part': 'hang', 'job_index': idx})
            raise AbortRun()
        # every result has been consumed: the workers are idle and the pool can be taken down in the ordinary way (a pool
        # with jobs in flight is never terminated - that can block for ever; AbortRun ends the process instead)
        pool.close()
        pool.join()


class AbortRun(BaseException):
    """The verdict of the run is settled (a violation has been recorded) while worker processes are still busy: run.py
    writes the verdict and ends the process without waiting for them."""


def hard_exit(code, scratch=None):
    """End this process now: no new workers, kill the existing ones, remove the scratch directory, os._exit."""
    import shutil
    me = os.getpid()

    def no_fork():
        raise OSError('the run is over')
    os.fork = no_fork
    for _ in range(2):
        for d in os.listdir('/proc'):
            if d.isdigit():
                try:
                    with open('/proc/%s/stat' % d) as f:
                        ppid = int(f.read().rsplit(')', 1)[1].split()[1])
                    if ppid == me:
                        os.kill(int(d), 9)
                except (OSError, ValueError, IndexError):
                    pass
    if scratch:
        shutil.rmtree(scratch, ignore_errors=True)
    sys.stdout.flush()
    sys.stderr.flush()
    os._exit(code)


class _ChunkRunner:
    def __init__(self, fn):
        self.fn = fn

    def __call__(self, chunk):
        return [self.fn(x) for x in chunk]


class JobTimeout(Exception):
    def __init__(self, index):
        Exception.__init__(self, 'no result for item %d' % index)
        self.index = index


def bounded_imap(pool, fn, items, chunksize, limit):
    """pool.imap(fn, items, chunksize) in order, but waiting at most `limit` seconds of real time for the next chunk of
    results: JobTimeout(index of the first item of the chunk that did not arrive)."""
    items = list(items)
    chunksize = max(1, int(chunksize))
    chunks = [items[i:i + chunksize] for i in range(0, len(items), chunksize)]
    it = pool.imap(_ChunkRunner(fn), chunks, 1)
    for ci in range(len(chunks)):
        try:
            res = it.next(timeout=limit)
        except multiprocessing.TimeoutError:
            raise JobTimeout(ci * chunksize)
        for r in res:
            yield r


class _WorkerFailure:
    def __init__(self, text):
        self.text = text


class _Guard:
    def __init__(self, fn):
        self.fn = fn

    def __call__(self, item):
        try:
            return self.fn(item)
        except BaseException:
            return _WorkerFailure(traceback.format_exc())


def _guard(fn, item):
    r = _Guard(fn)(item)
    if isinstance(r, _WorkerFailure):
        raise HarnessError('worker failed:\n' + r.text)
    return r


# ---- known findings --------------------------------------------------------------------------

def load_findings():
    path = os.path.join(VERIF, 'known_findings.json')
    if not os.path.exists(path):
        return {'known': [], 'fixed': []}
    with open(path) as f:
        return json.load(f)


def match_finding(findings, pid, sig):
    for k in findings.get('known', []):
        if k['property'] != pid:
            continue
        if k['signature'] == sig or ('*' in k['signature'] and fnmatch.fnmatchcase(sig, k['signature'])):
            return k
    return None


# ---- finishing a run ------------------------------------------------------------------------------

def _jsonable(o):
    if isinstance(o, (bytes, bytearray)):
        return bytes(o).hex()
    if isinstance(o, (set, frozenset)):
        return sorted(_jsonable(x) for x in o)
    if isinstance(o, tuple):
        return [_jsonable(x) for x in o]
    if isinstance(o, list):
        return [_jsonable(x) for x in o]
    if isinstance(o, dict):
        return {str(k): _jsonable(v) for k, v in o.items()}
    if isinstance(o, float):
        if o != o or o in (float('inf'), float('-inf')):
            return repr(o)
        return o
    if isinstance(o, (int, str, bool)) or o is None:
        return o
    try:
        import numpy as np
        if isinstance(o, np.generic):
            return _jsonable(o.item())
        if isinstance(o, np.ndarray):
            return _jsonable(o.tolist())
    except Exception:
        pass
    return repr(o)


def finish(ck):
    """Write replay files and the evidence file, print verdict lines, return the exit code."""
    findings = load_findings()
    new, known = [], []
    for v in ck.violations:
        k = match_finding(findings, ck.id, v['sig'])
        (known if k else new).append((v, k))
    rdir = os.path.join(VERIF, 'replays', ck.id)
    if os.path.isdir(rdir):
        for old in os.listdir(rdir):          # replay files of earlier runs are stale
            try:
                os.unlink(os.path.join(rdir, old))
            except OSError:
                pass
    seen_known = set()
    for v, k in known:
        if k['signature'] in seen_known:
            continue
        seen_known.add(k['signature'])
        print('KNOWN-FINDING: property=%s %s' % (ck.id, k.get('what', v['what'])))
    for v, _ in new:
        os.makedirs(rdir, exist_ok=True)
        name = hashlib.blake2b(v['sig'].encode(), digest_size=6).hexdigest() + '.json'
        path = os.path.join(rdir, name)
        with open(path, 'w') as f:
            json.dump(_jsonable({'property': ck.id, 'signature': v['sig'], 'what': v['what'],
                                 'count': v['count'], 'replay': v['replay']}), f, indent=1)
        print('VIOLATION property=%s replay=%s' % (ck.id, path))
        print('  signature: %s' % v['sig'])
        print('  what: %s' % v['what'])
    wall = time.time() - ck.t0
    cov = {
        'evaluations': ck.evaluations,
        'distinct_nontrivial': len(ck.distinct),
        'distinct_outcomes': len(ck.outcomes),
        'rule': ck.rule,
        'samples': _jsonable(ck.samples) or [],
        'exhaustive': bool(ck.exhaustive) and not ck.caps,
        'caps_hit': ck.caps,
        'choice_points': ck.points,
    }
    if ck.level == 'model_checking' or ck.states:
        cov['states'] = ck.states
        cov['transitions'] = ck.transitions
        cov['traces_validated_against_impl'] = ck.extra.get(
            'traces_validated_against_impl', ck.evaluations)
    for k2, v2 in ck.extra.items():
        cov.setdefault(k2, v2)
    for k2, v2 in ck.notes.items():
        cov.setdefault(k2, _jsonable(v2))
    cov['known_findings_reported'] = sorted(seen_known)
    ev = {
        'property_id': ck.id, 'tier': ck.tier, 'seed': ck.seed, 'level': ck.level,
        'coverage': cov, 'assumptions': ck.assumptions, 'wall_s': round(wall, 3),
        'violations': len(new),
    }
    edir = os.path.join(VERIF, 'evidence')
    os.makedirs(edir, exist_ok=True)
    epath = os.path.join(edir, ck.id + '.json')
    tmp = epath + '.tmp'
    with open(tmp, 'w') as f:
        json.dump(ev, f, indent=1)
    os.replace(tmp, epath)
    try:
        _validate_evidence(epath)
    except HarnessError:
        if not new:
            raise
        # a run that was cut short by a violation (a hang in the first job) may not have covered enough for the schema's
        # minimum counts; the verdict stands
        print('note: evidence of this violating run does not meet the schema minimums (run cut short)')
    print('%s tier=%s evaluations=%d distinct=%d outcomes=%d states=%d transitions=%d '
          'violations=%d known=%d wall=%.1fs%s' % (
              ck.id, ck.tier, ck.evaluations, len(ck.distinct), len(ck.outcomes), ck.states,
              ck.transitions, len(new), len(seen_known), wall,
              (' caps=' + ';'.join(ck.caps)) if ck.caps else ''))
    return 1 if new else 0


def _validate_evidence(path):
    schema = '/root/.vp/EVIDENCE.schema.json'
    if not os.path.exists(schema) or os.environ.get('VF_NO_VALIDATE'):
        return
    code = ('import json,sys,jsonschema;'
            'jsonschema.validate(json.load(open(sys.argv[1])),json.load(open(sys.argv[2])))')
    try:
        r = subprocess.run(['python3-vt', '-c', code, path, schema], capture_output=True,
                           text=True, timeout=60)
    except (OSError, subprocess.TimeoutExpired):
        return
    if r.returncode != 0:
        raise HarnessError('evidence file does not validate:\n' + r.stderr[-2000:])
