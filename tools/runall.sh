#!/bin/bash
# usage: tools/runall.sh [quick|thorough] [ids...] — run checks one after the other, print one summary line each
tier=${1:-quick}; shift
ids=${@:-C01 C02 C03 C04 C05 C06 C07 C08 C09 C10 C11 C12 C13 C14 C15 C16 C17 C18 C19 C20}
cd "$(dirname "$0")/.."
for c in $ids; do
  out=$(PYTHONHASHSEED=0 /venv/bin/python -m vf.run $c --tier $tier 2>&1); rc=$?
  echo "$out" | grep -E "^VIOLATION|^HARNESS|  signature" | head -6 | cut -c1-200
  echo "$out" | grep -E "^$c tier" | cut -c1-170 | sed "s/^/[exit $rc] /"
  [ $rc -ne 0 ] && [ -z "$(echo "$out" | grep -E "^$c tier")" ] && echo "[exit $rc] $c: $(echo "$out" | tail -2 | cut -c1-200)"
done
exit 0
