#!/usr/bin/env python3
"""Refresh the numeric cells of the per-property table in DESIGN.md §6.2 from measured runs.

usage: bounds_table.py <log of `tools/runall.sh quick`> <log of `tools/runall.sh thorough`>

Rows `| Cnn | description | ... | ... |` keep their description; the last two cells become
`evaluations (states) quick -> thorough` and `wall seconds quick / thorough`.
"""
import re
import sys

LINE = re.compile(r'\[exit (\d+)\] (C\d\d) tier=(\w+) evaluations=(\d+) distinct=(\d+) outcomes=(\d+) states=(\d+) '
                  r'transitions=(\d+) violations=(\d+) known=(\d+) wall=([\d.]+)s')


def parse(path):
    out = {}
    for line in open(path):
        m = LINE.search(line)
        if m:
            out[m.group(2)] = {'exit': int(m.group(1)), 'ev': int(m.group(4)), 'states': int(m.group(7)),
                               'wall': float(m.group(11))}
    return out


def short(n):
    if n >= 1000000:
        return '%.2f M' % (n / 1e6)
    if n >= 10000:
        return '%d k' % round(n / 1e3)
    if n >= 1000:
        return '%.1f k' % (n / 1e3)
    return str(n)


def cell(r):
    s = short(r['ev'])
    if r['states']:
        s += ' (%s states)' % short(r['states'])
    return s


def main():
    q, t = parse(sys.argv[1]), parse(sys.argv[2])
    path = '/verif/DESIGN.md'
    lines = open(path).read().split('\n')
    n = 0
    start = next(i for i, line in enumerate(lines) if line.startswith('### 6.2'))
    end = next(i for i, line in enumerate(lines) if line.startswith('### 6.3'))
    for i, line in enumerate(lines):
        if not start < i < end:
            continue
        m = re.match(r'\| (C\d\d) \|', line)
        if not m or m.group(1) not in q:
            continue
        cells = line.split(' | ')
        if len(cells) < 4:
            continue
        pid = m.group(1)
        tq = t.get(pid)
        cells[-2] = cell(q[pid]) + (' → ' + cell(tq) if tq else '')
        cells[-1] = '%.0f%s |' % (q[pid]['wall'], (' / %.0f' % tq['wall']) if tq else '')
        lines[i] = ' | '.join(cells)
        n += 1
    open(path, 'w').write('\n'.join(lines))
    print('rows refreshed:', n)


if __name__ == '__main__':
    main()
